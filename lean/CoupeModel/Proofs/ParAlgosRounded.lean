import CoupeModel.Proofs.ParAlgos

/-!
# Rcb under every schedule WITHOUT exact coordinate arithmetic (C06, second layer)

`Proofs/ParAlgos.lean` works over the exact instance `Coord Int` and states where exactness of
the distance `point - split_target` is used (`DistExact`).  Since /repo f4e2819 the reduce
closure of `par_rcb_split` keeps the LEFT operand on a tie, like the fold keeps the first item
of a leaf; the 4-tuple – pivot index included – is then the sequential fold's along every
split tree, and no property of `-`, `+`, `/ 2.0` is needed: they may round.

Here the fold/reduce is modelled over an ARBITRARY coordinate type `α` with `Coord α`
(`AccG`, `stepG`, `mergeG`, `scanG`: the closures of the code, comparisons through
`Coord.lt`/`Coord.ltInf`), plugged into copies of `Rcb.split`/`recurse`/`runBB`
(`splitG`/`recurseG`/`runBBG`, the reduce closure being a parameter so that the closure the
code had before f4e2819, `mergeGOld`, can be run too).  What is needed of `α` is that `<` is a
strict weak order compatible with `< INFINITY` (`DistLaws`: true of `f32` without NaN, of
`Int`, of any type whose comparisons are exact – the arithmetic is unconstrained).

Weights stay exact integers (`Int`): the `f64`/integer weight sums are a separate matter
(`parSum_schedule_free` needs associativity).
-/

namespace Coupe.ParAlgos

open Coupe.Rcb Coupe.Par

variable {α : Type} [Coord α]

/-- `(count_left, weight_left, nearest_idx, nearest_distance)` over `α`; `dist = none` is
`f32::INFINITY` (the initial value; a stored distance passed `distance < nearest_distance`). -/
structure AccG (α : Type) where
  count : Nat
  weight : Int
  idx : Option Nat
  dist : Option α
deriving DecidableEq, Repr

/-- `|| (0, W::default(), None, f32::INFINITY)`. -/
def initG : AccG α := ⟨0, 0, none, none⟩

/-- `a < b` on distances where `none` is `INFINITY`: `x < INFINITY` is `Coord.ltInf x`,
`INFINITY < _` is false. -/
def ltD : Option α → Option α → Bool
  | some a, some b => Coord.lt a b
  | some a, none => Coord.ltInf a
  | none, _ => false

/-- The fold closure of `par_rcb_split` (`Rcb.scanStep` on the 4-tuple). -/
def stepG (coord : Nat) (t : α) (a : AccG α) (x : Rcb.Item α × Nat) : AccG α :=
  let d := Coord.sub (x.1.key coord) t
  if Coord.lt d Coord.zero then ⟨a.count + 1, a.weight + x.1.w, a.idx, a.dist⟩
  else if ltD (some d) a.dist then ⟨a.count, a.weight, some x.2, some d⟩
  else a

/-- The reduce closure since /repo f4e2819: the right operand wins only if strictly nearer. -/
def mergeG (a b : AccG α) : AccG α :=
  if ltD b.dist a.dist then ⟨a.count + b.count, a.weight + b.weight, b.idx, b.dist⟩
  else ⟨a.count + b.count, a.weight + b.weight, a.idx, a.dist⟩

/-- The reduce closure before /repo f4e2819 (defect N11): the left operand won only if
strictly nearer. -/
def mergeGOld (a b : AccG α) : AccG α :=
  if ltD a.dist b.dist then ⟨a.count + b.count, a.weight + b.weight, a.idx, a.dist⟩
  else ⟨a.count + b.count, a.weight + b.weight, b.idx, b.dist⟩

/-- The model's `Scan` from the tuple. -/
def toScanG (a : AccG α) : Scan α :=
  ⟨a.count, a.weight,
    match a.idx, a.dist with
    | some i, some d => some (i, d)
    | _, _ => none⟩

/-- `par_rcb_split`'s `fold(..).reduce(..)` along the split tree `tr`, reduce closure `mg`. -/
def scanG (mg : AccG α → AccG α → AccG α) (tr : SplitTree) (items : List (Rcb.Item α))
    (coord : Nat) (t : α) : Scan α :=
  toScanG (parFoldR (stepG coord t) initG mg initG tr items.zipIdx)

/-- `Rcb.split` with `scanG` in place of `scan` (iteration `it` uses the tree `trees it`). -/
def splitG (mg : AccG α → AccG α → AccG α) (trees : Nat → SplitTree)
    (withinTol : Int → Int → Bool) (coord : Nat) (sum : Int) (items : List (Rcb.Item α)) :
    Nat → Nat → α → α → Option Nat → Bool → Res (SplitOut α)
  | 0, _, _, _, _, _ => .fuel
  | fuel + 1, it, min, max, prev, moved =>
    let t := Coord.mid min max
    let s := scanG mg (trees it) items coord t
    match s.nearest with
    | none =>
      if prev = some s.count then
        .ok ⟨items, [], sum, max, .allLeft, min, max, moved, it + 1⟩
      else splitG mg trees withinTol coord sum items fuel (it + 1) min t (some s.count) true
    | some (idx, nd) =>
      let exit? : Option Exit :=
        if prev = some s.count then some .plateau
        else if Coord.le max (Coord.add t nd) then some .noPointToMax
        else if withinTol s.wl sum then some .tolerance
        else none
      match exit? with
      | some e =>
        match reorderSplit items idx coord with
        | .oob => .oob
        | .fuel => .fuel
        | .ok (l, r) => .ok ⟨l, r, s.wl, t, e, min, max, moved, it + 1⟩
      | none =>
        if s.wl < sum - s.wl then
          splitG mg trees withinTol coord sum items fuel (it + 1) t max (some s.count) moved
        else splitG mg trees withinTol coord sum items fuel (it + 1) min t (some s.count) true

/-- `Rcb.recurse` with `splitG` in place of `split`. -/
def recurseG (mg : AccG α → AccG α → AccG α) (withinTol : Int → Int → Bool) (cfg : Cfg)
    (trees : Nat → Nat → SplitTree) :
    Nat → List (Rcb.Item α) → Nat → Nat → Int → List α → List α → Res (Tree (NodeInfo α))
  | _, [], _, _, _, _, _ => .ok .empty
  | 0, items, iterId, _, _, _, _ => .ok (.leaf iterId (items.map (·.id)))
  | k + 1, items, iterId, coord, sum, lo, hi =>
    let min := lo.getD coord Coord.zero
    let max := hi.getD coord Coord.zero
    match splitG mg (trees iterId) withinTol coord sum items cfg.fuel 0 min max none false with
    | .oob => .oob
    | .fuel => .fuel
    | .ok r =>
      match recurseG mg withinTol cfg trees k r.left (2 * iterId + 1) ((coord + 1) % cfg.dim)
              r.weightLeft lo (hi.set coord r.splitPos) with
      | .oob => .oob
      | .fuel => .fuel
      | .ok tl =>
        match recurseG mg withinTol cfg trees k r.right (2 * iterId + 2) ((coord + 1) % cfg.dim)
                (sum - r.weightLeft) (lo.set coord r.splitPos) hi with
        | .oob => .oob
        | .fuel => .fuel
        | .ok tr => .ok (.node ⟨coord, sum, min, max, r.weightLeft, r.splitPos, r.exit, r.iters⟩ tl tr)

/-- `Rcb.runBB` under the schedule `s`, over `α`, reduce closure `mg`. -/
def runBBG (mg : AccG α → AccG α → AccG α) (s : RcbSched) (withinTol : Int → Int → Bool)
    (cfg : Cfg) (iter : Nat) (pts : List (List α)) (ws : List Int) (plen : Nat) (lo hi : List α) :
    Outcome :=
  if ws.length ≠ plen then .lenMismatch
  else if pts.length ≠ plen then .lenMismatch
  else if pts.isEmpty then .ok []
  else
    match recurseG mg withinTol cfg s.split iter (mkItems pts ws) 0 0 (parSum s.sumTree ws) lo hi with
    | .oob => .oob
    | .fuel => .fuel
    | .ok t => .ok (idsOfTreeS s.stores plen t)

/-! ## Laws -/

/-- What the comparisons of `α` must satisfy – nothing is asked of `sub`, `add`, `half`, `mid`.
`<` is transitive and negatively transitive (a strict weak order: no NaN), and agrees with
`< INFINITY`.  (`f32` restricted to non-NaN values, `Int`, `roundingCoord`.) -/
structure DistLaws (α : Type) [Coord α] : Prop where
  trans : ∀ a b c : α, Coord.lt a b = true → Coord.lt b c = true → Coord.lt a c = true
  neg_trans : ∀ a b c : α, Coord.lt a b = true → Coord.lt c b = false → Coord.lt a c = true
  lt_ltInf : ∀ a b : α, Coord.lt a b = true → Coord.ltInf a = true
  ltInf_lt : ∀ a b : α, Coord.ltInf a = true → Coord.ltInf b = false → Coord.lt a b = true

theorem ltD_trans (laws : DistLaws α) (a b c : Option α) (h1 : ltD a b = true)
    (h2 : ltD b c = true) : ltD a c = true := by
  cases a with
  | none => simp [ltD] at h1
  | some x =>
    cases b with
    | none => simp [ltD] at h2
    | some y =>
      cases c with
      | none => exact laws.lt_ltInf x y h1
      | some z => exact laws.trans x y z h1 h2

theorem ltD_neg_trans (laws : DistLaws α) (a b c : Option α) (h1 : ltD a b = true)
    (h2 : ltD c b = false) : ltD a c = true := by
  cases a with
  | none => simp [ltD] at h1
  | some x =>
    cases b with
    | none =>
      cases c with
      | none => exact h1
      | some z => exact laws.ltInf_lt x z h1 h2
    | some y =>
      cases c with
      | none => exact laws.lt_ltInf x y h1
      | some z => exact laws.neg_trans x y z h1 h2

/-! ## The repaired reduce is a homomorphism -/

theorem mergeG_stepG (laws : DistLaws α) (coord : Nat) (t : α) (a b : AccG α)
    (x : Rcb.Item α × Nat) :
    mergeG a (stepG coord t b x) = stepG coord t (mergeG a b) x := by
  obtain ⟨c1, w1, i1, d1⟩ := a
  obtain ⟨c2, w2, i2, d2⟩ := b
  unfold stepG mergeG
  simp only
  generalize Coord.sub (x.1.key coord) t = e
  cases hneg : Coord.lt e Coord.zero with
  | true =>
    simp only [↓reduceIte]
    split <;> simp only [Nat.add_assoc, Int.add_assoc]
  | false =>
    simp only [Bool.false_eq_true, ↓reduceIte]
    cases h2 : ltD (some e) d2 with
    | true =>
      cases h21 : ltD d2 d1 with
      | true =>
        have h1 := ltD_trans laws _ _ _ h2 h21
        simp [h1, h2]
      | false =>
        cases h1 : ltD (some e) d1 with
        | true => simp
        | false => simp
    | false =>
      cases h21 : ltD d2 d1 with
      | true => simp [h21, h2]
      | false =>
        have h1 : ltD (some e) d1 = false := by
          cases h : ltD (some e) d1 with
          | false => rfl
          | true =>
            have := ltD_neg_trans laws _ _ _ h h21
            rw [h2] at this
            cases this
        simp [h21, h1]

theorem mergeG_foldl (laws : DistLaws α) (coord : Nat) (t : α) (ys : List (Rcb.Item α × Nat)) :
    ∀ a b : AccG α, mergeG a (ys.foldl (stepG coord t) b) = ys.foldl (stepG coord t) (mergeG a b) := by
  induction ys with
  | nil => intro a b; rfl
  | cons y ys ih =>
    intro a b
    simp only [List.foldl_cons]
    rw [ih, mergeG_stepG laws]

theorem mergeG_init_right (a : AccG α) : mergeG a initG = a := by
  obtain ⟨c, w, i, d⟩ := a
  simp [mergeG, initG, ltD]

/-- Along every split tree the repaired `fold(..).reduce(..)` is the sequential fold. -/
theorem parFoldR_stepG (laws : DistLaws α) (coord : Nat) (t : α) (tr : SplitTree) :
    ∀ xs : List (Rcb.Item α × Nat),
      parFoldR (stepG coord t) initG mergeG initG tr xs = xs.foldl (stepG coord t) initG := by
  induction tr with
  | leaf =>
    intro xs
    simp only [parFoldR]
    rw [mergeG_foldl laws]
    rfl
  | node k l r ihl ihr =>
    intro xs
    simp only [parFoldR]
    rw [ihl, ihr, mergeG_foldl laws, mergeG_init_right, ← List.foldl_append,
      List.take_append_drop]

/-! ## The sequential fold of the tuple is the model's `scan` -/

/-- Tuples the fold produces: an index iff a distance. -/
def AccGWF (a : AccG α) : Prop := a.idx = none ↔ a.dist = none

theorem accGWF_step (coord : Nat) (t : α) (a : AccG α) (x : Rcb.Item α × Nat) (h : AccGWF a) :
    AccGWF (stepG coord t a x) := by
  unfold stepG
  simp only
  split
  · exact h
  · split
    · simp [AccGWF]
    · exact h

theorem toScanG_step (coord : Nat) (t : α) (a : AccG α) (x : Rcb.Item α × Nat) (h : AccGWF a) :
    toScanG (stepG coord t a x) = scanStep coord t (toScanG a) x := by
  obtain ⟨c, w, i, d⟩ := a
  simp only [AccGWF] at h
  unfold stepG scanStep
  simp only
  cases hneg : Coord.lt (Coord.sub (x.1.key coord) t) Coord.zero with
  | true => simp [toScanG]
  | false =>
    simp only [Bool.false_eq_true, ↓reduceIte]
    cases i with
    | none =>
      have := h.1 rfl
      subst this
      cases hl : Coord.ltInf (Coord.sub (x.1.key coord) t) <;> simp [toScanG, ltD, hl]
    | some j =>
      cases d with
      | none => have := h.2 rfl; cases this
      | some e =>
        cases hl : Coord.lt (Coord.sub (x.1.key coord) t) e <;> simp [toScanG, ltD, hl]

theorem toScanG_foldl (coord : Nat) (t : α) : ∀ (xs : List (Rcb.Item α × Nat)) (a : AccG α),
    AccGWF a → toScanG (xs.foldl (stepG coord t) a) = xs.foldl (scanStep coord t) (toScanG a) := by
  intro xs
  induction xs with
  | nil => intro a _; rfl
  | cons y ys ih =>
    intro a h
    simp only [List.foldl_cons]
    rw [ih _ (accGWF_step coord t a y h), toScanG_step coord t a y h]

/-- **Along EVERY split tree the repaired reduction is the model's sequential `scan`** –
count, weight, distance and pivot index – for every coordinate arithmetic. -/
theorem scanG_eq_scan (laws : DistLaws α) (tr : SplitTree) (items : List (Rcb.Item α))
    (coord : Nat) (t : α) : scanG mergeG tr items coord t = scan items coord t := by
  unfold scanG
  rw [parFoldR_stepG laws, toScanG_foldl coord t _ initG (by simp [AccGWF, initG])]
  rfl

/-! ## The cut search, the recursion, `rcb` -/

theorem splitG_eq_split (laws : DistLaws α) (trees : Nat → SplitTree) (wt : Int → Int → Bool)
    (coord : Nat) (sum : Int) (items : List (Rcb.Item α)) :
    ∀ (fuel it : Nat) (mn mx : α) (prev : Option Nat) (mv : Bool),
      splitG mergeG trees wt coord sum items fuel it mn mx prev mv =
        split wt coord sum items fuel it mn mx prev mv := by
  intro fuel
  induction fuel with
  | zero => intro it mn mx prev mv; rfl
  | succ fuel ih =>
    intro it mn mx prev mv
    simp only [splitG, split, scanG_eq_scan laws, ih]
    generalize scan items coord (Coord.mid mn mx) = s
    obtain ⟨c, w, n⟩ := s
    cases n with
    | none => rfl
    | some q =>
      obtain ⟨idx, nd⟩ := q
      simp only
      split
      · next e he =>
        simp only [he]
        cases reorderSplit items idx coord with
        | oob => rfl
        | fuel => rfl
        | ok lr => rfl
      · next he => simp only [he]

theorem recurseG_eq_recurse (laws : DistLaws α) (wt : Int → Int → Bool) (cfg : Cfg)
    (trees : Nat → Nat → SplitTree) :
    ∀ (k : Nat) (items : List (Rcb.Item α)) (iterId coord : Nat) (sum : Int) (lo hi : List α),
      recurseG mergeG wt cfg trees k items iterId coord sum lo hi =
        recurse wt cfg k items iterId coord sum lo hi := by
  intro k
  induction k with
  | zero =>
    intro items iterId coord sum lo hi
    cases items <;> simp [recurseG, recurse]
  | succ k ih =>
    intro items iterId coord sum lo hi
    cases items with
    | nil => simp [recurseG, recurse]
    | cons x xs =>
      simp only [recurseG, recurse, splitG_eq_split laws, ih]
      cases split wt coord sum (x :: xs) cfg.fuel 0 (lo.getD coord Coord.zero)
          (hi.getD coord Coord.zero) none false with
      | oob => rfl
      | fuel => rfl
      | ok r =>
        simp only
        cases recurse wt cfg k r.left (2 * iterId + 1) ((coord + 1) % cfg.dim) r.weightLeft lo
            (hi.set coord r.splitPos) with
        | oob => rfl
        | fuel => rfl
        | ok tl =>
          simp only
          cases recurse wt cfg k r.right (2 * iterId + 2) ((coord + 1) % cfg.dim)
              (sum - r.weightLeft) (lo.set coord r.splitPos) hi with
          | oob => rfl
          | fuel => rfl
          | ok tr => rfl

/-- **Rcb under every schedule is the sequential model, whatever the coordinate arithmetic.**
`laws`/`ol`: the comparisons of `α` form a strict weak order (no NaN); `sub`, `add`, `half`,
`mid` are arbitrary (they may round: two different coordinates may be equally near the
target).  Weights are exact integers.  -/
theorem runBBG_eq_runBB (laws : DistLaws α) (ol : OrderLawsOn (fun _ : α => True))
    (s : RcbSched) (hs : s.Valid) (wt : Int → Int → Bool) (cfg : Cfg) (iter : Nat)
    (pts : List (List α)) (ws : List Int) (plen : Nat) (lo hi : List α) :
    runBBG mergeG s wt cfg iter pts ws plen lo hi = runBB wt cfg iter pts ws plen lo hi := by
  unfold runBBG runBB runTree
  rw [parSum_schedule_free, recurseG_eq_recurse laws]
  split
  · rfl
  next hw =>
  split
  · rfl
  next hpl =>
  split
  · rfl
  have hw : ws.length = plen := Classical.byContradiction hw
  have hpl : pts.length = plen := Classical.byContradiction hpl
  cases hr : recurse wt cfg iter (mkItems pts ws) 0 0 ws.sum lo hi with
  | oob => rfl
  | fuel => rfl
  | ok t =>
    simp only
    have hkey : ∀ x ∈ mkItems pts ws, ∀ c, x.key c = ptKey pts x.id c := by
      intro x hx c
      have := mkItems_key pts ws x hx
      simp [Item.key, ptKey, List.getD_eq_getElem?_getD, this]
    obtain ⟨_, hperm⟩ := recurse_bisection ol wt cfg (ptKey pts) iter _ _ _ _ _ _ t hkey
      (fun _ _ _ => trivial) hr
    rw [mkItems_ids pts ws (by omega)] at hperm
    have hnd : (t.assign.map (·.1)).Nodup := by
      rw [assign_map_fst]; exact (hperm.nodup_iff).2 List.nodup_range
    have : scatter plen (s.stores t.assign) = scatter plen t.assign :=
      (scatter_perm plen (hs t.assign) hnd).symm
    simp only [idsOfTreeS, idsOfTree, this]

end Coupe.ParAlgos
