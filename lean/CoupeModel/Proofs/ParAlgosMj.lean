import CoupeModel.Model.Par
import CoupeModel.Model.MultiJagged
import CoupeModel.Proofs.Par
import CoupeModel.Proofs.MultiJagged
import CoupeModel.Props.C06
import CoupeModel.Props.C11

/-!
# Schedule independence of whole algorithms (C06, second layer): MultiJagged

The hierarchy of slabs does not depend on how rayon cuts the block scans
(`split_chunk_free` at every node, by induction over the scheme); the ids are
then the `fetch_add` numbers of the leaves, a renaming of the depth-first leaf
numbers (`fetchAdd_renaming`), written to distinct cells.
-/

namespace Coupe.ParAlgos

open Coupe.Par

/-! # MultiJagged -/

section mj
open Coupe.MultiJagged

/-- Everything rayon decides during one call of `multi_jagged`. -/
structure MjSched where
  /-- block lengths of the `fold_with` over a slab of the given length
  (`compute_split_positions`; the model's `chunk` parameter) -/
  chunk : Nat → List Nat
  /-- the leaves (depth-first numbers) in the order their `fetch_add` takes effect -/
  arrival : List Nat
  /-- the order in which the leaves' stores take effect -/
  stores : List (Nat × Nat) → List (Nat × Nat)

def MjSched.Valid (s : MjSched) (numParts : Nat) : Prop :=
  ChunkOk s.chunk ∧ s.arrival.Perm (List.range numParts) ∧ ∀ ws : List (Nat × Nat), ws.Perm (s.stores ws)

/-- `multi_jagged.rs: multi_jagged` under the schedule `s`: the hierarchy of `MultiJagged.run`
with the schedule's chunking, then the leaf writes of `Par.mjAssign` (`fetch_add` numbers in
arrival order, stores in the schedule's order). -/
def mjIdsT (s : MjSched) (root : Nat → Nat → Nat) (sort : (Nat → Int) → List Nat → List Nat)
    (dim : Nat) (key : Nat → Nat → Int) (ws : List Nat) (n numParts maxIter : Nat) (p0 : List Nat) :
    Option (List Nat) :=
  (MultiJagged.run {} root sort s.chunk dim key ws n numParts maxIter).map
    (fun h => Par.mjAssign p0 h.leaves s.arrival s.stores)

theorem recurseList_congr (sort : (Nat → Int) → List Nat → List Nat) (c1 c2 : Nat → List Nat)
    (dim : Nat) (key : Nat → Nat → Int) (ws : List Nat) (coord : Nat) :
    ∀ (cs : List Scheme) (subs : List (List Nat)),
      (∀ c ∈ cs, ∀ p ∈ subs, MultiJagged.recurse {} sort c1 dim key ws c coord p =
        MultiJagged.recurse {} sort c2 dim key ws c coord p) →
      recurseList {} sort c1 dim key ws cs coord subs = recurseList {} sort c2 dim key ws cs coord subs := by
  intro cs
  induction cs with
  | nil => intro subs _; simp [recurseList]
  | cons c cs ih =>
    intro subs h
    cases subs with
    | nil => simp [recurseList]
    | cons p ps =>
      simp only [recurseList]
      rw [h c (by simp) p (by simp), ih ps (fun c' hc' p' hp' => h c' (by simp [hc']) p' (by simp [hp']))]

theorem splitManyAux_flatten {α} : ∀ (ps : List Nat) (rest : List α) (drained : Nat) (subs : List (List α)),
    splitManyAux rest drained ps = some subs → subs.flatten = rest := by
  intro ps
  induction ps with
  | nil => intro rest drained subs h; simp [splitManyAux] at h; subst h; simp
  | cons p ps ih =>
    intro rest drained subs h
    simp only [splitManyAux] at h
    split at h
    · cases h
    · split at h
      · cases h
      · split at h
        · cases h
        · next subs' hs =>
          cases h
          simp [ih _ _ _ hs]

/-- The hierarchy does not depend on how rayon cuts the block scans (at any node, at any
depth): every node's split positions are chunk free (`split_chunk_free`). -/
theorem recurse_chunk_free {sort : (Nat → Int) → List Nat → List Nat} (hsort : SortOk sort)
    {c1 c2 : Nat → List Nat} (h1 : ChunkOk c1) (h2 : ChunkOk c2)
    (dim : Nat) (key : Nat → Nat → Int) (ws : List Nat) :
    ∀ (s : Scheme) (coord : Nat) (perm : List Nat), (∀ i ∈ perm, i < ws.length) →
      MultiJagged.recurse {} sort c1 dim key ws s coord perm =
        MultiJagged.recurse {} sort c2 dim key ws s coord perm := by
  intro s
  refine Scheme.induct (P := fun s => ∀ (coord : Nat) (perm : List Nat), (∀ i ∈ perm, i < ws.length) →
      MultiJagged.recurse {} sort c1 dim key ws s coord perm =
        MultiJagged.recurse {} sort c2 dim key ws s coord perm) ?_ s
  · intro k mods den next ih coord perm hp
    cases k with
    | zero => simp [MultiJagged.recurse]
    | succ k =>
      have hp' : ∀ i ∈ sort (key coord) perm, i < ws.length :=
        fun i hi => hp i ((hsort.perm _ _).mem_iff.1 hi)
      have e := split_chunk_free (c1 (sort (key coord) perm).length) (c2 (sort (key coord) perm).length)
        ws _ mods den hp' (h1 _) (h2 _)
      cases next with
      | none =>
        simp only [MultiJagged.recurse]
        rw [e]
      | some cs =>
        simp only [MultiJagged.recurse]
        rw [e]
        generalize splitPositions {} (c2 (sort (key coord) perm).length) ws (sort (key coord) perm) mods den = sp
        cases sp with
        | none => rfl
        | some pos =>
          simp only
          generalize hsm : splitMany (sort (key coord) perm) pos = sm
          cases sm with
          | none => rfl
          | some subs =>
            simp only
            congr 1
            apply recurseList_congr
            intro c hc p hpm
            apply ih cs rfl c hc
            intro i hi
            have hfl := splitManyAux_flatten _ _ _ _ hsm
            exact hp' i (by rw [← hfl]; exact List.mem_flatten.2 ⟨p, hpm, hi⟩)

theorem run_chunk_free {sort : (Nat → Int) → List Nat → List Nat} (hsort : SortOk sort)
    {c1 c2 : Nat → List Nat} (h1 : ChunkOk c1) (h2 : ChunkOk c2) (root : Nat → Nat → Nat)
    (dim : Nat) (key : Nat → Nat → Int) (ws : List Nat) (n numParts maxIter : Nat) (hws : n ≤ ws.length) :
    MultiJagged.run {} root sort c1 dim key ws n numParts maxIter =
      MultiJagged.run {} root sort c2 dim key ws n numParts maxIter := by
  unfold MultiJagged.run
  cases scheme root numParts maxIter with
  | none => rfl
  | some s =>
    simp only
    exact recurse_chunk_free hsort h1 h2 dim key ws s 0 _
      (fun i hi => by have := List.mem_range.1 hi; omega)

/-- The sequential leaf writes of `Model/MultiJagged.lean` are the writes of `Par.mjAssign`
performed in program order. -/
theorem mjAssign_id_eq_assign (p0 : List Nat) (leaves : List (List Nat)) (arrival : List Nat) :
    Par.mjAssign p0 leaves arrival id = MultiJagged.assign (fetchAddIds arrival) leaves p0 := by
  simp only [Par.mjAssign, MultiJagged.assign, disjointWrites, labelWrites, enumerate, id,
    List.foldl_flatMap, List.foldl_map, write]

theorem mjAssign_length (p0 : List Nat) (leaves : List (List Nat)) (arrival : List Nat)
    (sched : List (Nat × Nat) → List (Nat × Nat)) :
    (Par.mjAssign p0 leaves arrival sched).length = p0.length := by
  simp [Par.mjAssign, disjointWrites_length]

/-- Two schedules of `multi_jagged`: both runs succeed on the SAME hierarchy, and the ids
differ by a renaming that is injective on the part numbers; after the renaming by first
occurrence (`canon`, what the harness compares) they are equal. -/
theorem mjIdsT_schedule_free {root : Nat → Nat → Nat} {sort : (Nat → Int) → List Nat → List Nat}
    (hr : RootOk root) (hsort : SortOk sort) (s s' : MjSched)
    (dim : Nat) (key : Nat → Nat → Int) (ws : List Nat) (n numParts maxIter : Nat)
    (hn : 1 ≤ numParts) (hm : 1 ≤ maxIter) (hws : n ≤ ws.length)
    (hs : s.Valid numParts) (hs' : s'.Valid numParts) (p0 : List Nat) (hp0 : p0.length = n) :
    ∃ ids ids' : List Nat,
      mjIdsT s root sort dim key ws n numParts maxIter p0 = some ids ∧
      mjIdsT s' root sort dim key ws n numParts maxIter p0 = some ids' ∧
      ids.length = n ∧ (∀ v ∈ ids, v < numParts) ∧
      (∃ ρ : Nat → Nat, (∀ a b, a < numParts → b < numParts → ρ a = ρ b → a = b) ∧
        ids' = ids.map ρ) ∧
      canon ids' = canon ids := by
  obtain ⟨hc, ha, hst⟩ := hs
  obtain ⟨hc', ha', hst'⟩ := hs'
  obtain ⟨h, hrun, hlen, hperm, hnd, _⟩ :=
    mj_ids hr hsort hc dim key ws n numParts maxIter hn hm hws
  have hrun' : MultiJagged.run {} root sort s'.chunk dim key ws n numParts maxIter = some h := by
    rw [← run_chunk_free hsort hc hc' root dim key ws n numParts maxIter hws]
    exact hrun
  rw [← hlen] at ha ha'
  obtain ⟨ρ, hinj, hcell⟩ := mj_ids_schedule_free_up_to_renaming p0 h.leaves s.arrival s'.arrival
    s.stores s'.stores hnd ha ha' hst hst'
  rw [hlen] at hinj
  have hcell' : ∀ i, i < n → ∃ v, v < numParts ∧
      (Par.mjAssign p0 h.leaves s.arrival s.stores)[i]? = some v ∧
      (Par.mjAssign p0 h.leaves s'.arrival s'.stores)[i]? = some (ρ v) := by
    intro i hi
    have := hcell i (hperm.mem_iff.2 (List.mem_range.2 hi)) (by omega)
    rw [hlen] at this
    exact this
  have hl1 := mjAssign_length p0 h.leaves s.arrival s.stores
  have hl2 := mjAssign_length p0 h.leaves s'.arrival s'.stores
  have hlt : ∀ v ∈ Par.mjAssign p0 h.leaves s.arrival s.stores, v < numParts := by
    intro v hv
    obtain ⟨i, hi⟩ := List.mem_iff_getElem?.1 hv
    have hin : i < n := by
      rcases Nat.lt_or_ge i n with h' | h'
      · exact h'
      · rw [List.getElem?_eq_none (by omega)] at hi; cases hi
    obtain ⟨v', hv', e1, _⟩ := hcell' i hin
    rw [e1] at hi
    cases hi
    exact hv'
  have hmap : Par.mjAssign p0 h.leaves s'.arrival s'.stores =
      (Par.mjAssign p0 h.leaves s.arrival s.stores).map ρ := by
    apply List.ext_getElem?
    intro i
    by_cases hi : i < n
    · obtain ⟨v, _, e1, e2⟩ := hcell' i hi
      rw [e2, List.getElem?_map, e1]
      rfl
    · rw [List.getElem?_eq_none (by omega), List.getElem?_eq_none (by rw [List.length_map]; omega)]
  refine ⟨_, _, by simp [mjIdsT, hrun], by simp [mjIdsT, hrun'], by omega, hlt, ⟨ρ, hinj, hmap⟩, ?_⟩
  rw [hmap]
  exact canon_renaming_invariant ρ _ (fun a ha b hb => hinj a b (hlt a ha) (hlt b hb))

end mj

end Coupe.ParAlgos
