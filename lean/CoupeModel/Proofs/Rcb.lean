import CoupeModel.Model.Rcb

/-!
# Lemmas about the Rcb model (C03)
-/

namespace Coupe.Rcb

variable {α : Type} [Coord α]

/-! ## `swapAt` -/

theorem swapAt_spec {β : Type} {a a' : Array β} {i j : Nat} (h : swapAt a i j = some a') :
    i < a.size ∧ j < a.size ∧ a'.size = a.size ∧ a'.Perm a ∧
      ∀ k, a'[k]? = if k = i then a[j]? else if k = j then a[i]? else a[k]? := by
  unfold swapAt at h
  split at h
  · next hb =>
    have : a.swap i j hb.1 hb.2 = a' := by simpa using h
    subst this
    refine ⟨hb.1, hb.2, Array.size_swap, Array.swap_perm hb.1 hb.2, ?_⟩
    intro k
    rw [Array.getElem?_swap hb.1 hb.2]
    have h1 : a[i]? = some a[i] := by simp [hb.1]
    have h2 : a[j]? = some a[j] := by simp [hb.2]
    by_cases hki : k = i <;> by_cases hkj : k = j <;> grind
  · simp at h

theorem swapAt_isSome {β : Type} {a : Array β} {i j : Nat} (hi : i < a.size) (hj : j < a.size) :
    ∃ a', swapAt a i j = some a' := by
  unfold swapAt
  simp [hi, hj]

/-! ## `reorder_split_scalar` -/

theorem scanL_spec (a : Array (Item α)) (coord : Nat) (pv : α) :
    ∀ (g l : Nat), l + g + 1 ≤ a.size →
      ∃ l', scanL a coord pv g l = .ok l' ∧ l ≤ l' ∧ l' ≤ l + g ∧
        (∀ j, l ≤ j → j < l' → ∀ x, a[j + 1]? = some x → Coord.lt (x.key coord) pv = true) ∧
        (l' = l + g ∨ ∃ x, a[l' + 1]? = some x ∧ Coord.lt (x.key coord) pv = false) := by
  intro g
  induction g with
  | zero => intro l _; exact ⟨l, rfl, Nat.le_refl _, Nat.le_refl _, by intro j h1 h2; omega, Or.inl rfl⟩
  | succ g ih =>
    intro l hb
    have hlt : l + 1 < a.size := by omega
    have hget : a[l + 1]? = some a[l + 1] := by simp [hlt]
    simp only [scanL, hget]
    by_cases hc : Coord.lt (a[l + 1].key coord) pv = true
    · simp only [hc, if_true]
      obtain ⟨l', h1, h2, h3, h4, h5⟩ := ih (l + 1) (by omega)
      refine ⟨l', h1, by omega, by omega, ?_, ?_⟩
      · intro j hj1 hj2 x hx
        by_cases hjl : j = l
        · subst hjl; rw [hget] at hx; cases hx; exact hc
        · exact h4 j (by omega) hj2 x hx
      · rcases h5 with h5 | h5
        · left; omega
        · right; exact h5
    · simp only [hc]
      refine ⟨l, rfl, Nat.le_refl _, by omega, by intro j h1 h2; omega, Or.inr ⟨_, hget, ?_⟩⟩
      simpa using hc

theorem scanR_spec (a : Array (Item α)) (coord : Nat) (pv : α) :
    ∀ (g r : Nat), g ≤ r → r + 1 ≤ a.size →
      ∃ r', scanR a coord pv g r = .ok r' ∧ r' ≤ r ∧ r - g ≤ r' ∧
        (∀ j, r' ≤ j → j < r → ∀ x, a[j + 1]? = some x → Coord.le pv (x.key coord) = true) ∧
        (r' = r - g ∨ ∃ x, a[r']? = some x ∧ Coord.le pv (x.key coord) = false) := by
  intro g
  induction g with
  | zero => intro r _ _; exact ⟨r, rfl, Nat.le_refl _, by omega, by intro j h1 h2; omega, Or.inl rfl⟩
  | succ g ih =>
    intro r hg hb
    have hlt : r < a.size := by omega
    have hget : a[r]? = some a[r] := by simp [hlt]
    simp only [scanR, hget]
    by_cases hc : Coord.le pv (a[r].key coord) = true
    · simp only [hc, if_true]
      obtain ⟨r', h1, h2, h3, h4, h5⟩ := ih (r - 1) (by omega) (by omega)
      refine ⟨r', h1, by omega, by omega, ?_, ?_⟩
      · intro j hj1 hj2 x hx
        by_cases hjl : j = r - 1
        · subst hjl
          have : r - 1 + 1 = r := by omega
          rw [this, hget] at hx; cases hx; exact hc
        · exact h4 j hj1 (by omega) x hx
      · rcases h5 with h5 | h5
        · left; omega
        · right; exact h5
    · simp only [hc]
      refine ⟨r, rfl, Nat.le_refl _, by omega, by intro j h1 h2; omega, Or.inr ⟨_, hget, ?_⟩⟩
      simpa using hc

theorem partLoop_spec (coord : Nat) (pv : α) :
    ∀ (f : Nat) (a : Array (Item α)) (l r : Nat),
      r - l < f → l ≤ r → r + 1 ≤ a.size →
      (∀ x ∈ a, Coord.le pv (x.key coord) = !Coord.lt (x.key coord) pv) →
      (∀ j, j < l → ∀ x, a[j + 1]? = some x → Coord.lt (x.key coord) pv = true) →
      (∀ j, r ≤ j → ∀ x, a[j + 1]? = some x → Coord.lt (x.key coord) pv = false) →
      ∃ a' l', partLoop coord pv f a l r = .ok (a', l') ∧ a'.Perm a ∧ a'[0]? = a[0]? ∧
        l' + 1 ≤ a.size ∧
        (∀ j, j < l' → ∀ x, a'[j + 1]? = some x → Coord.lt (x.key coord) pv = true) ∧
        (∀ j, l' ≤ j → ∀ x, a'[j + 1]? = some x → Coord.lt (x.key coord) pv = false) := by
  intro f
  induction f with
  | zero => intro a l r hf; omega
  | succ f ih =>
    intro a l r hf hlr hb hle hlow hhigh
    obtain ⟨l1, e1, hl1, hl1', hlow1, hstop1⟩ := scanL_spec a coord pv (r - l) l (by omega)
    obtain ⟨r1, e2, hr1, hr1', hhigh1, hstop2⟩ := scanR_spec a coord pv (r - l1) r (by omega) hb
    have hmem : ∀ k x, a[k]? = some x → x ∈ a := fun k x hx => Array.mem_iff_getElem?.2 ⟨k, hx⟩
    have hlowAll : ∀ j, j < l1 → ∀ x, a[j + 1]? = some x → Coord.lt (x.key coord) pv = true := by
      intro j hj x hx
      by_cases hjl : j < l
      · exact hlow j hjl x hx
      · exact hlow1 j (by omega) hj x hx
    have hhighAll : ∀ j, r1 ≤ j → ∀ x, a[j + 1]? = some x → Coord.lt (x.key coord) pv = false := by
      intro j hj x hx
      by_cases hjr : r ≤ j
      · exact hhigh j hjr x hx
      · have := hhigh1 j hj (by omega) x hx
        rw [hle x (hmem _ x hx)] at this
        simpa using this
    simp only [partLoop, e1, e2]
    by_cases hrl : r1 ≤ l1
    · simp only [hrl, if_true]
      have : r1 = l1 := by omega
      subst this
      exact ⟨a, r1, rfl, Array.Perm.refl _, rfl, by omega, hlowAll, hhighAll⟩
    · simp only [hrl, if_false]
      have hl1r : l1 ≠ l + (r - l) := by omega
      have hr1l : r1 ≠ r - (r - l1) := by omega
      obtain ⟨xl, hxl, hxl'⟩ := hstop1.resolve_left hl1r
      obtain ⟨xr, hxr, hxr'⟩ := hstop2.resolve_left hr1l
      have hxr'' : Coord.lt (xr.key coord) pv = true := by
        have := hle xr (hmem _ xr hxr)
        rw [hxr'] at this
        simpa using this.symm
      have hne : l1 + 1 ≠ r1 := by
        intro h
        rw [h, hxr] at hxl
        cases hxl
        rw [hxr''] at hxl'
        cases hxl'
      obtain ⟨a1, es⟩ := swapAt_isSome (a := a) (i := l1 + 1) (j := r1) (by omega) (by omega)
      obtain ⟨_, _, hsz, hperm, hget⟩ := swapAt_spec es
      simp only [es]
      obtain ⟨a', l', e3, hp', h0', hb', hlow', hhigh'⟩ :=
        ih a1 (l1 + 1) (r1 - 1) (by omega) (by omega) (by omega)
          (fun x hx => hle x ((Array.Perm.mem_iff hperm).1 hx))
          (by
            intro j hj x hx
            rw [hget] at hx
            by_cases hj1 : j = l1
            · subst hj1
              simp only [if_true] at hx
              rw [hxr] at hx; cases hx; exact hxr''
            · have h1 : j + 1 ≠ l1 + 1 := by omega
              have h2 : j + 1 ≠ r1 := by omega
              simp only [h1, h2, if_false] at hx
              exact hlowAll j (by omega) x hx)
          (by
            intro j hj x hx
            rw [hget] at hx
            by_cases hj1 : j + 1 = r1
            · have h1 : j + 1 ≠ l1 + 1 := by omega
              rw [if_neg h1, if_pos hj1, hxl] at hx
              cases hx; exact hxl'
            · have h1 : j + 1 ≠ l1 + 1 := by omega
              simp only [h1, hj1, if_false] at hx
              exact hhighAll j (by omega) x hx)
      refine ⟨a', l', e3, hp'.trans hperm, ?_, by omega, hlow', hhigh'⟩
      rw [h0', hget]
      have h1 : 0 ≠ l1 + 1 := by omega
      have h2 : 0 ≠ r1 := by omega
      simp only [h1, h2, if_false]

/-- `reorder_split_scalar` never leaves its arrays and returns a partition of the items
around the pivot value.  The two order facts used are hypotheses about the values met. -/
theorem reorderSplit_spec_aux (items : List (Item α)) (pivot coord : Nat) (p : Item α)
    (hp : items[pivot]? = some p)
    (hle : ∀ x ∈ items, Coord.le (p.key coord) (x.key coord) = !Coord.lt (x.key coord) (p.key coord))
    (hirr : Coord.lt (p.key coord) (p.key coord) = false) :
    ∃ l r, reorderSplit items pivot coord = .ok (l, r) ∧ (l ++ r).Perm items ∧
      (∀ x ∈ l, Coord.lt (x.key coord) (p.key coord) = true) ∧
      (∀ x ∈ r, Coord.lt (x.key coord) (p.key coord) = false) ∧ p ∈ r := by
  have hpl : pivot < items.length := by
    rcases Nat.lt_or_ge pivot items.length with h | h
    · exact h
    · rw [List.getElem?_eq_none h] at hp; cases hp
  have hpos : 0 < items.toArray.size := by simp; omega
  obtain ⟨a1, e1⟩ := swapAt_isSome (a := items.toArray) (i := 0) (j := pivot) hpos (by simpa using hpl)
  obtain ⟨_, _, hsz1, hperm1, hget1⟩ := swapAt_spec e1
  have h10 : a1[0]? = some p := by
    rw [hget1 0]; simpa using hp
  have hmem1 : ∀ x, x ∈ a1 ↔ x ∈ items := by
    intro x; rw [Array.Perm.mem_iff hperm1]; simp
  obtain ⟨a2, l', e2, hperm2, h20, hb2, hlow, hhigh⟩ :=
    partLoop_spec coord (p.key coord) a1.size a1 0 (a1.size - 1) (by omega) (by omega) (by omega)
      (fun x hx => hle x ((hmem1 x).1 hx)) (by intro j hj; omega)
      (by
        intro j hj x hx
        rw [Array.getElem?_eq_none (by omega)] at hx; cases hx)
  have hsz2 : a2.size = a1.size := hperm2.size_eq
  obtain ⟨a3, e3⟩ := swapAt_isSome (a := a2) (i := 0) (j := l') (by omega) (by omega)
  obtain ⟨_, _, hsz3, hperm3, hget3⟩ := swapAt_spec e3
  have h2p : a2[0]? = some p := by rw [h20, h10]
  refine ⟨a3.toList.take l', a3.toList.drop l', ?_, ?_, ?_, ?_, ?_⟩
  · simp only [reorderSplit, e1, h10, e2, e3]
  · rw [List.take_append_drop]
    have := (hperm3.trans (hperm2.trans hperm1))
    rw [Array.perm_iff_toList_perm] at this
    simpa using this
  · intro x hx
    obtain ⟨k, hk⟩ := List.mem_iff_getElem?.1 hx
    rw [List.getElem?_take] at hk
    split at hk
    · next hkl =>
      rw [Array.getElem?_toList, hget3] at hk
      by_cases hk0 : k = 0
      · rw [if_pos hk0] at hk
        have : l' = (l' - 1) + 1 := by omega
        rw [this] at hk
        exact hlow (l' - 1) (by omega) x hk
      · have hkl' : k ≠ l' := by omega
        rw [if_neg hk0, if_neg hkl'] at hk
        have : k = (k - 1) + 1 := by omega
        rw [this] at hk
        exact hlow (k - 1) (by omega) x hk
    · cases hk
  · intro x hx
    obtain ⟨i, hi⟩ := List.mem_iff_getElem?.1 hx
    rw [List.getElem?_drop, Array.getElem?_toList, hget3] at hi
    by_cases hk0 : l' + i = 0
    · rw [if_pos hk0] at hi
      have : l' = 0 := by omega
      rw [this, h2p] at hi; cases hi; exact hirr
    · rw [if_neg hk0] at hi
      by_cases hkl : l' + i = l'
      · rw [if_pos hkl, h2p] at hi; cases hi; exact hirr
      · rw [if_neg hkl] at hi
        have : l' + i = (l' + i - 1) + 1 := by omega
        rw [this] at hi
        exact hhigh (l' + i - 1) (by omega) x hi
  · apply List.mem_iff_getElem?.2
    refine ⟨0, ?_⟩
    rw [List.getElem?_drop, Array.getElem?_toList, hget3]
    by_cases hk0 : l' + 0 = 0
    · rw [if_pos hk0]
      have : l' = 0 := by omega
      rw [this, h2p]
    · rw [if_neg hk0, if_pos (by omega), h2p]

theorem reorderSplit_ok_pivot {items l r : List (Item α)} {pivot coord : Nat}
    (h : reorderSplit items pivot coord = .ok (l, r)) : ∃ p, items[pivot]? = some p := by
  unfold reorderSplit at h
  split at h
  · cases h
  · next a e =>
    obtain ⟨_, hj, _, _, _⟩ := swapAt_spec e
    have : pivot < items.length := by simpa using hj
    exact ⟨items[pivot], by simp [this]⟩

/-- What C03 needs from a successful `reorder_split_scalar`: a permutation, strictly
separated.  Holds for EVERY pivot index. -/
theorem reorderSplit_sep {S : α → Prop} (laws : OrderLawsOn S) {items l r : List (Item α)}
    {pivot coord : Nat} (hS : ∀ x ∈ items, S (x.key coord))
    (h : reorderSplit items pivot coord = .ok (l, r)) :
    (l ++ r).Perm items ∧
      ∀ x ∈ l, ∀ y ∈ r, Coord.lt (x.key coord) (y.key coord) = true := by
  obtain ⟨p, hp⟩ := reorderSplit_ok_pivot h
  have hpm : p ∈ items := List.mem_iff_getElem?.2 ⟨pivot, hp⟩
  obtain ⟨l', r', e, hperm, hl, hr, _⟩ := reorderSplit_spec_aux items pivot coord p hp
    (fun x hx => laws.le_iff _ _ (hS p hpm) (hS x hx)) (laws.irrefl _ (hS p hpm))
  rw [h] at e
  cases e
  refine ⟨hperm, ?_⟩
  intro x hx y hy
  have hxm : x ∈ items := hperm.mem_iff.1 (List.mem_append_left _ hx)
  have hym : y ∈ items := hperm.mem_iff.1 (List.mem_append_right _ hy)
  exact laws.neg_trans _ _ _ (hS x hxm) (hS p hpm) (hS y hym) (hl x hx) (hr y hy)

/-- Totality of `reorder_split_scalar` for an in-range pivot. -/
theorem reorderSplit_total {S : α → Prop} (laws : OrderLawsOn S) {items : List (Item α)}
    {pivot coord : Nat} (hS : ∀ x ∈ items, S (x.key coord)) (hp : pivot < items.length) :
    ∃ l r, reorderSplit items pivot coord = .ok (l, r) := by
  have hp' : items[pivot]? = some items[pivot] := by simp [hp]
  have hpm : items[pivot] ∈ items := List.getElem_mem hp
  obtain ⟨l', r', e, _⟩ := reorderSplit_spec_aux items pivot coord _ hp'
    (fun x hx => laws.le_iff _ _ (hS _ hpm) (hS x hx)) (laws.irrefl _ (hS _ hpm))
  exact ⟨l', r', e⟩

/-! ## `par_rcb_split` -/

/-- Every successful `par_rcb_split` returns a strictly separated permutation of its
items – whatever pivot the search chose, whichever exit it took. -/
theorem split_sep {S : α → Prop} (laws : OrderLawsOn S) (wt : Int → Int → Bool) (coord : Nat)
    (sum : Int) (items : List (Item α)) (hS : ∀ x ∈ items, S (x.key coord)) :
    ∀ (fuel it : Nat) (mn mx : α) (prev : Option Nat) (mv : Bool) (out : SplitOut α),
      split wt coord sum items fuel it mn mx prev mv = .ok out →
      (out.left ++ out.right).Perm items ∧
        ∀ x ∈ out.left, ∀ y ∈ out.right, Coord.lt (x.key coord) (y.key coord) = true := by
  intro fuel
  induction fuel with
  | zero => intro it mn mx prev mv out h; simp [split] at h
  | succ fuel ih =>
    intro it mn mx prev mv out h
    simp only [split] at h
    split at h
    · split at h
      · cases h
        simp
      · exact ih _ _ _ _ _ _ h
    · next idx nd hn =>
      split at h
      · next e he =>
        split at h
        · cases h
        · cases h
        · next l r hr =>
          cases h
          exact reorderSplit_sep laws hS hr
      · split at h
        · exact ih _ _ _ _ _ _ h
        · exact ih _ _ _ _ _ _ h

theorem scanFold_idx (coord : Nat) (t : α) : ∀ (l : List (Item α)) (k : Nat) (st : Scan α),
    (∀ i d, st.nearest = some (i, d) → i < k) →
    ∀ i d, ((l.zipIdx k).foldl (scanStep coord t) st).nearest = some (i, d) → i < k + l.length := by
  intro l
  induction l with
  | nil => intro k st h i d hi; simpa using h i d hi
  | cons x xs ih =>
    intro k st h i d hi
    simp only [List.zipIdx_cons, List.foldl_cons] at hi
    have := ih (k + 1) (scanStep coord t st (x, k)) (by
      intro i d hid
      unfold scanStep at hid
      simp only at hid
      split at hid
      · have := h i d hid; omega
      · split at hid
        · split at hid
          · simp at hid; omega
          · have := h i d hid; omega
        · split at hid
          · simp at hid; omega
          · have := h i d hid; omega) i d hi
    simp only [List.length_cons]; omega

/-- The pivot index found by the fold is an index of `items`. -/
theorem scan_idx_lt (items : List (Item α)) (coord : Nat) (t : α) (i : Nat) (d : α)
    (h : (scan items coord t).nearest = some (i, d)) : i < items.length := by
  have := scanFold_idx coord t items 0 ⟨0, 0, none⟩ (by intro i d h; cases h) i d h
  simpa using this

/-- `par_rcb_split` performs no out-of-range access (the `unsafe` unchecked reads of
`reorder_split_scalar` included). -/
theorem split_no_oob {S : α → Prop} (laws : OrderLawsOn S) (wt : Int → Int → Bool) (coord : Nat)
    (sum : Int) (items : List (Item α)) (hS : ∀ x ∈ items, S (x.key coord)) :
    ∀ (fuel it : Nat) (mn mx : α) (prev : Option Nat) (mv : Bool),
      split wt coord sum items fuel it mn mx prev mv ≠ .oob := by
  intro fuel
  induction fuel with
  | zero => intro it mn mx prev mv h; simp [split] at h
  | succ fuel ih =>
    intro it mn mx prev mv h
    simp only [split] at h
    split at h
    · split at h
      · cases h
      · exact ih _ _ _ _ _ h
    · next idx nd hn =>
      split at h
      · next e he =>
        obtain ⟨l, r, hr⟩ := reorderSplit_total laws hS (scan_idx_lt _ _ _ _ _ hn) (coord := coord)
        rw [hr] at h
        cases h
      · split at h
        · exact ih _ _ _ _ _ h
        · exact ih _ _ _ _ _ h

/-! ## `rcb_recurse` -/

theorem recurse_bisection {S : α → Prop} (laws : OrderLawsOn S) (wt : Int → Int → Bool) (cfg : Cfg)
    (key : Nat → Nat → α) :
    ∀ (k : Nat) (items : List (Item α)) (iterId coord : Nat) (sum : Int) (lo hi : List α)
      (t : Tree (NodeInfo α)),
      (∀ x ∈ items, ∀ c, x.key c = key x.id c) → (∀ x ∈ items, ∀ c, S (x.key c)) →
      recurse wt cfg k items iterId coord sum lo hi = .ok t →
      IsBisection key cfg.dim k coord iterId t ∧ t.members.Perm (items.map (·.id)) := by
  intro k
  induction k with
  | zero =>
    intro items iterId coord sum lo hi t hk hS h
    cases items with
    | nil => simp [recurse] at h; subst h; simp [IsBisection, Tree.members]
    | cons x xs => simp [recurse] at h; subst h; simp [IsBisection, Tree.members]
  | succ k ih =>
    intro items iterId coord sum lo hi t hk hS h
    cases items with
    | nil => simp [recurse] at h; subst h; simp [IsBisection, Tree.members]
    | cons x xs =>
      simp only [recurse] at h
      split at h
      · cases h
      · cases h
      · next r hr =>
        obtain ⟨hperm, hsep⟩ := split_sep laws wt coord sum (x :: xs) (fun y hy => hS y hy coord)
          _ _ _ _ _ _ _ hr
        have hml : ∀ y ∈ r.left, y ∈ x :: xs := fun y hy =>
          hperm.mem_iff.1 (List.mem_append_left _ hy)
        have hmr : ∀ y ∈ r.right, y ∈ x :: xs := fun y hy =>
          hperm.mem_iff.1 (List.mem_append_right _ hy)
        split at h
        · cases h
        · cases h
        · next tl hl =>
          split at h
          · cases h
          · cases h
          · next tr htr =>
            cases h
            obtain ⟨bl, pl⟩ := ih _ _ _ _ _ _ _ (fun y hy => hk y (hml y hy))
              (fun y hy => hS y (hml y hy)) hl
            obtain ⟨br, pr⟩ := ih _ _ _ _ _ _ _ (fun y hy => hk y (hmr y hy))
              (fun y hy => hS y (hmr y hy)) htr
            refine ⟨⟨?_, bl, br⟩, ?_⟩
            · intro i hi j hj
              obtain ⟨y, hy, rfl⟩ := List.mem_map.1 (pl.mem_iff.1 hi)
              obtain ⟨z, hz, rfl⟩ := List.mem_map.1 (pr.mem_iff.1 hj)
              rw [← hk y (hml y hy), ← hk z (hmr z hz)]
              exact hsep y hy z hz
            · simp only [Tree.members]
              have := (pl.append pr)
              rw [← List.map_append] at this
              exact this.trans (hperm.map _)

theorem recurse_no_oob {S : α → Prop} (laws : OrderLawsOn S) (wt : Int → Int → Bool) (cfg : Cfg) :
    ∀ (k : Nat) (items : List (Item α)) (iterId coord : Nat) (sum : Int) (lo hi : List α),
      (∀ x ∈ items, ∀ c, S (x.key c)) →
      recurse wt cfg k items iterId coord sum lo hi ≠ .oob := by
  intro k
  induction k with
  | zero =>
    intro items iterId coord sum lo hi hS h
    cases items with
    | nil => simp [recurse] at h
    | cons x xs => simp [recurse] at h
  | succ k ih =>
    intro items iterId coord sum lo hi hS h
    cases items with
    | nil => simp [recurse] at h
    | cons x xs =>
      simp only [recurse] at h
      split at h
      · next hs => exact split_no_oob laws wt coord sum (x :: xs) (fun y hy => hS y hy coord) _ _ _ _ _ _ hs
      · cases h
      · next r hr =>
        obtain ⟨hperm, _⟩ := split_sep laws wt coord sum (x :: xs) (fun y hy => hS y hy coord)
          _ _ _ _ _ _ _ hr
        have hml : ∀ y ∈ r.left, y ∈ x :: xs := fun y hy =>
          hperm.mem_iff.1 (List.mem_append_left _ hy)
        have hmr : ∀ y ∈ r.right, y ∈ x :: xs := fun y hy =>
          hperm.mem_iff.1 (List.mem_append_right _ hy)
        split at h
        · next hl => exact ih _ _ _ _ _ _ (fun y hy => hS y (hml y hy)) hl
        · cases h
        · split at h
          · next hr' => exact ih _ _ _ _ _ _ (fun y hy => hS y (hmr y hy)) hr'
          · cases h
          · cases h

/-! ## Leaf numbering -/

theorem leaf_range {ι : Type} (key : Nat → Nat → α) (dim : Nat) (t : Tree ι) :
    ∀ (d ax id : Nat), IsBisection key dim d ax id t →
      ∀ pl ∈ t.leaves, 2 ^ d * (id + 1) ≤ pl.1 + 1 ∧ pl.1 + 2 ≤ 2 ^ d * (id + 2) := by
  induction t with
  | empty => intro d ax id _ pl hpl; simp [Tree.leaves] at hpl
  | leaf p ids =>
    intro d ax id h pl hpl
    cases d with
    | zero =>
      simp only [IsBisection] at h
      simp only [Tree.leaves, List.mem_singleton] at hpl
      subst hpl; subst h
      simp
    | succ d => simp [IsBisection] at h
  | node info lo hi ihl ihh =>
    intro d ax id h pl hpl
    cases d with
    | zero => simp [IsBisection] at h
    | succ d =>
      simp only [IsBisection] at h
      obtain ⟨_, hl, hh⟩ := h
      simp only [Tree.leaves, List.mem_append] at hpl
      have e1 : 2 ^ (d + 1) * (id + 1) = 2 ^ d * (2 * id + 1 + 1) := by
        rw [Nat.pow_succ, Nat.mul_assoc]; congr 1
      have e2 : 2 ^ (d + 1) * (id + 2) = 2 ^ d * (2 * id + 2 + 2) := by
        rw [Nat.pow_succ, Nat.mul_assoc]; congr 1
      have e3 : 2 ^ d * (2 * id + 1 + 2) = 2 ^ d * (2 * id + 2 + 1) := by
        congr 1
      have m1 : 2 ^ d * (2 * id + 1 + 1) ≤ 2 ^ d * (2 * id + 2 + 1) :=
        Nat.mul_le_mul_left _ (by omega)
      have m2 : 2 ^ d * (2 * id + 1 + 2) ≤ 2 ^ d * (2 * id + 2 + 2) :=
        Nat.mul_le_mul_left _ (by omega)
      rcases hpl with hpl | hpl
      · have := ihl _ _ _ hl pl hpl
        omega
      · have := ihh _ _ _ hh pl hpl
        omega

/-- Distinct leaves carry distinct numbers: in low-to-high order they increase strictly. -/
theorem leaves_increasing {ι : Type} (key : Nat → Nat → α) (dim : Nat) (t : Tree ι) :
    ∀ (d ax id : Nat), IsBisection key dim d ax id t →
      (t.leaves.map (·.1)).Pairwise (· < ·) := by
  induction t with
  | empty => intro d ax id _; simp [Tree.leaves]
  | leaf p ids => intro d ax id _; simp [Tree.leaves]
  | node info lo hi ihl ihh =>
    intro d ax id h
    cases d with
    | zero => simp [IsBisection] at h
    | succ d =>
      simp only [IsBisection] at h
      obtain ⟨_, hl, hh⟩ := h
      simp only [Tree.leaves, List.map_append]
      rw [List.pairwise_append]
      refine ⟨ihl _ _ _ hl, ihh _ _ _ hh, ?_⟩
      intro a ha b hb
      obtain ⟨pa, hpa, rfl⟩ := List.mem_map.1 ha
      obtain ⟨pb, hpb, rfl⟩ := List.mem_map.1 hb
      have h1 := leaf_range key dim lo _ _ _ hl pa hpa
      have h2 := leaf_range key dim hi _ _ _ hh pb hpb
      have e3 : 2 ^ d * (2 * id + 1 + 2) = 2 ^ d * (2 * id + 2 + 1) := by
        congr 1
      omega

/-- Two points that no axis separates lie in the same leaf. -/
theorem same_leaf {ι : Type} (key : Nat → Nat → α) (dim : Nat) (i j : Nat)
    (hij : ∀ c, Coord.lt (key i c) (key j c) = false ∧ Coord.lt (key j c) (key i c) = false)
    (t : Tree ι) :
    ∀ (d ax id : Nat), IsBisection key dim d ax id t → i ∈ t.members → j ∈ t.members →
      ∃ pl ∈ t.leaves, i ∈ pl.2 ∧ j ∈ pl.2 := by
  induction t with
  | empty => intro d ax id _ hi; simp [Tree.members] at hi
  | leaf p ids =>
    intro d ax id _ hi hj
    exact ⟨(p, ids), by simp [Tree.leaves], hi, hj⟩
  | node info lo hi ihl ihh =>
    intro d ax id h hi' hj'
    cases d with
    | zero => simp [IsBisection] at h
    | succ d =>
      simp only [IsBisection] at h
      obtain ⟨hsep, hl, hh⟩ := h
      simp only [Tree.members, List.mem_append] at hi' hj'
      simp only [Tree.leaves, List.mem_append]
      rcases hi' with hi' | hi' <;> rcases hj' with hj' | hj'
      · obtain ⟨pl, h1, h2⟩ := ihl _ _ _ hl hi' hj'
        exact ⟨pl, Or.inl h1, h2⟩
      · have := hsep i hi' j hj'
        rw [(hij ax).1] at this; cases this
      · have := hsep j hj' i hi'
        rw [(hij ax).2] at this; cases this
      · obtain ⟨pl, h1, h2⟩ := ihh _ _ _ hh hi' hj'
        exact ⟨pl, Or.inr h1, h2⟩

/-! ## Writing the part ids (`scatter`, offset) -/

theorem scatterFold_size (assign : List (Nat × Nat)) : ∀ (arr : Array Nat),
    (assign.foldl (fun (a : Array Nat) (x : Nat × Nat) => a.setIfInBounds x.1 x.2) arr).size
      = arr.size := by
  induction assign with
  | nil => intro arr; rfl
  | cons x xs ih => intro arr; simp only [List.foldl_cons]; rw [ih]; simp

theorem scatterFold_notin (assign : List (Nat × Nat)) (i : Nat) : ∀ (arr : Array Nat),
    i ∉ assign.map (·.1) →
    (assign.foldl (fun (a : Array Nat) (x : Nat × Nat) => a.setIfInBounds x.1 x.2) arr)[i]?
      = arr[i]? := by
  induction assign with
  | nil => intro arr _; rfl
  | cons x xs ih =>
    intro arr hni
    simp only [List.map_cons, List.mem_cons, not_or] at hni
    simp only [List.foldl_cons]
    rw [ih _ hni.2, Array.getElem?_setIfInBounds]
    have : ¬ x.1 = i := fun h => hni.1 h.symm
    simp [this]

theorem scatterFold_in (assign : List (Nat × Nat)) (i p : Nat) : ∀ (arr : Array Nat),
    (assign.map (·.1)).Nodup → (i, p) ∈ assign → i < arr.size →
    (assign.foldl (fun (a : Array Nat) (x : Nat × Nat) => a.setIfInBounds x.1 x.2) arr)[i]?
      = some p := by
  induction assign with
  | nil => intro arr _ h; cases h
  | cons x xs ih =>
    intro arr hnd hm hi
    simp only [List.map_cons, List.nodup_cons] at hnd
    simp only [List.foldl_cons]
    rcases List.mem_cons.1 hm with hm | hm
    · subst hm
      rw [scatterFold_notin xs i _ hnd.1, Array.getElem?_setIfInBounds]
      simp [hi]
    · exact ih _ hnd.2 hm (by simpa using hi)

theorem scatter_length (n : Nat) (assign : List (Nat × Nat)) : (scatter n assign).length = n := by
  simp [scatter, scatterFold_size]

theorem scatter_get (n : Nat) (assign : List (Nat × Nat)) (i p : Nat)
    (hnd : (assign.map (·.1)).Nodup) (hm : (i, p) ∈ assign) (hi : i < n) :
    (scatter n assign)[i]? = some p := by
  simp only [scatter, Array.getElem?_toList]
  exact scatterFold_in assign i p _ hnd hm (by simpa using hi)

theorem assign_map_fst {ι : Type} (t : Tree ι) : t.assign.map (·.1) = t.members := by
  induction t with
  | empty => rfl
  | leaf p ids =>
    simp only [Tree.assign, Tree.members, List.map_map]
    have : ((fun x : Nat × Nat => x.1) ∘ fun i => (i, p)) = id := rfl
    rw [this, List.map_id]
  | node info lo hi ihl ihh => simp [Tree.assign, Tree.members, ihl, ihh]

theorem mem_assign {ι : Type} (t : Tree ι) (i p : Nat) :
    (i, p) ∈ t.assign ↔ ∃ pl ∈ t.leaves, pl.1 = p ∧ i ∈ pl.2 := by
  induction t with
  | empty => simp [Tree.assign, Tree.leaves]
  | leaf q ids =>
    simp only [Tree.assign, Tree.leaves, List.mem_map, List.mem_singleton, Prod.mk.injEq]
    constructor
    · rintro ⟨a, ha, rfl, rfl⟩; exact ⟨(q, ids), rfl, rfl, ha⟩
    · rintro ⟨pl, rfl, rfl, h⟩; exact ⟨i, h, rfl, rfl⟩
  | node info lo hi ihl ihh =>
    simp only [Tree.assign, Tree.leaves, List.mem_append, ihl, ihh]
    constructor
    · rintro (⟨pl, h1, h2⟩ | ⟨pl, h1, h2⟩)
      · exact ⟨pl, Or.inl h1, h2⟩
      · exact ⟨pl, Or.inr h1, h2⟩
    · rintro ⟨pl, h1 | h1, h2⟩
      · exact Or.inl ⟨pl, h1, h2⟩
      · exact Or.inr ⟨pl, h1, h2⟩

theorem mem_members {ι : Type} (t : Tree ι) (i : Nat) :
    i ∈ t.members ↔ ∃ pl ∈ t.leaves, i ∈ pl.2 := by
  induction t with
  | empty => simp [Tree.members, Tree.leaves]
  | leaf q ids => simp [Tree.members, Tree.leaves]
  | node info lo hi ihl ihh =>
    simp only [Tree.members, Tree.leaves, List.mem_append, ihl, ihh]
    constructor
    · rintro (⟨pl, h1, h2⟩ | ⟨pl, h1, h2⟩)
      · exact ⟨pl, Or.inl h1, h2⟩
      · exact ⟨pl, Or.inr h1, h2⟩
    · rintro ⟨pl, h1 | h1, h2⟩
      · exact Or.inl ⟨pl, h1, h2⟩
      · exact Or.inr ⟨pl, h1, h2⟩

theorem minFold_le (xs : List Nat) : ∀ (x : Nat), xs.foldl Nat.min x ≤ x ∧
    (∀ y ∈ xs, xs.foldl Nat.min x ≤ y) ∧ (xs.foldl Nat.min x = x ∨ xs.foldl Nat.min x ∈ xs) := by
  induction xs with
  | nil => intro x; simp
  | cons a as ih =>
    intro x
    simp only [List.foldl_cons]
    obtain ⟨h1, h2, h3⟩ := ih (Nat.min x a)
    have hmin : Nat.min x a ≤ x ∧ Nat.min x a ≤ a := ⟨Nat.min_le_left _ _, Nat.min_le_right _ _⟩
    refine ⟨by omega, ?_, ?_⟩
    · intro y hy
      rcases List.mem_cons.1 hy with rfl | hy
      · omega
      · exact h2 y hy
    · rcases h3 with h3 | h3
      · rw [h3]
        rcases Nat.le_total x a with h | h
        · left; exact Nat.min_eq_left h
        · right
          have : Nat.min x a = a := Nat.min_eq_right h
          rw [this]; simp
      · right; exact List.mem_cons_of_mem _ h3

theorem minNat_le (l : List Nat) : ∀ y ∈ l, minNat l ≤ y := by
  cases l with
  | nil => intro y h; cases h
  | cons x xs =>
    intro y hy
    obtain ⟨h1, h2, _⟩ := minFold_le xs x
    rcases List.mem_cons.1 hy with rfl | hy
    · exact h1
    · exact h2 y hy

theorem minNat_mem (l : List Nat) (h : l ≠ []) : minNat l ∈ l := by
  cases l with
  | nil => exact absurd rfl h
  | cons x xs =>
    obtain ⟨_, _, h3⟩ := minFold_le xs x
    simp only [minNat]
    rcases h3 with h3 | h3
    · rw [h3]; simp
    · exact List.mem_cons_of_mem _ h3

/-! ## `rcb` -/

omit [Coord α] in
theorem mkItems_ids (pts : List (List α)) (ws : List Int) (h : ws.length = pts.length) :
    (mkItems pts ws).map (·.id) = List.range pts.length := by
  simp only [mkItems, List.map_map]
  have : ((fun x : Item α => x.id) ∘ fun x : (List α × Int) × Nat => (⟨x.2, x.1.2, x.1.1⟩ : Item α))
      = Prod.snd := rfl
  rw [this, List.zipIdx_map_snd, List.range_eq_range', List.length_zip, h, Nat.min_self]

omit [Coord α] in
theorem mkItems_key (pts : List (List α)) (ws : List Int) (x : Item α) (hx : x ∈ mkItems pts ws) :
    pts[x.id]? = some x.c := by
  simp only [mkItems, List.mem_map] at hx
  obtain ⟨⟨⟨p, w⟩, i⟩, hm, rfl⟩ := hx
  rw [List.mem_zipIdx_iff_getElem?] at hm
  simp only at hm ⊢
  rw [List.getElem?_zip_eq_some] at hm
  exact hm.1

/-- The core of C03 for `rcb` with an arbitrary bounding box. -/
theorem runBB_bisection {S : α → Prop} (laws : OrderLawsOn S) (wt : Int → Int → Bool) (cfg : Cfg)
    (iter : Nat) (pts : List (List α)) (ws : List Int) (plen : Nat) (lo hi : List α) (ids : List Nat)
    (hS : ∀ p ∈ pts, ∀ c, S (p.getD c Coord.zero))
    (h : runBB wt cfg iter pts ws plen lo hi = .ok ids) :
    ∃ t : Tree (NodeInfo α),
      IsBisection (ptKey pts) cfg.dim iter 0 0 t ∧
      t.members.Perm (List.range pts.length) ∧
      (∃ off, ∀ pl ∈ t.leaves, ∀ i ∈ pl.2, off ≤ pl.1 ∧ ids[i]? = some (pl.1 - off)) ∧
      ids.length = pts.length ∧ ∀ v ∈ ids, v < 2 ^ iter := by
  unfold runBB at h
  split at h
  · cases h
  next hw =>
  split at h
  · cases h
  next hp =>
  have hw : ws.length = plen := Classical.byContradiction hw
  have hp : pts.length = plen := Classical.byContradiction hp
  split at h
  · next hem =>
    cases h
    have : pts = [] := by simpa using hem
    subst this
    exact ⟨.empty, by simp [IsBisection], by simp [Tree.members],
      ⟨0, by simp [Tree.leaves]⟩, rfl, by simp⟩
  next hne =>
  split at h
  · cases h
  · cases h
  next t ht =>
  cases h
  have hkey : ∀ x ∈ mkItems pts ws, ∀ c, x.key c = ptKey pts x.id c := by
    intro x hx c
    have := mkItems_key pts ws x hx
    simp [Item.key, ptKey, List.getD_eq_getElem?_getD, this]
  have hS' : ∀ x ∈ mkItems pts ws, ∀ c, S (x.key c) := by
    intro x hx c
    have h1 := mkItems_key pts ws x hx
    exact hS x.c (List.mem_iff_getElem?.2 ⟨_, h1⟩) c
  obtain ⟨hb, hperm⟩ := recurse_bisection laws wt cfg (ptKey pts) iter _ _ _ _ _ _ t hkey hS' ht
  rw [mkItems_ids pts ws (by omega)] at hperm
  have hnd : (t.assign.map (·.1)).Nodup := by
    rw [assign_map_fst]; exact (hperm.nodup_iff).2 List.nodup_range
  -- every cell holds the number of its leaf
  have hcell : ∀ pl ∈ t.leaves, ∀ i ∈ pl.2, (scatter plen t.assign)[i]? = some pl.1 := by
    intro pl hpl i hi
    have him : i ∈ t.members := (mem_members t i).2 ⟨pl, hpl, hi⟩
    have hilt : i < plen := by
      have := hperm.mem_iff.1 him
      simp at this; omega
    exact scatter_get plen t.assign i pl.1 hnd ((mem_assign t i pl.1).2 ⟨pl, hpl, rfl, hi⟩) hilt
  have hall : ∀ v ∈ scatter plen t.assign, ∃ pl ∈ t.leaves, pl.1 = v := by
    intro v hv
    obtain ⟨i, hi⟩ := List.mem_iff_getElem?.1 hv
    have hilt : i < plen := by
      rcases Nat.lt_or_ge i plen with h | h
      · exact h
      · rw [List.getElem?_eq_none (by rw [scatter_length]; exact h)] at hi; cases hi
    have him : i ∈ t.members := hperm.mem_iff.2 (by simp; omega)
    obtain ⟨pl, hpl, hipl⟩ := (mem_members t i).1 him
    have := hcell pl hpl i hipl
    rw [this] at hi; cases hi
    exact ⟨pl, hpl, rfl⟩
  have hrange := leaf_range (ptKey pts) cfg.dim t iter 0 0 hb
  have hne' : scatter plen t.assign ≠ [] := by
    intro he
    have hl := scatter_length plen t.assign
    rw [he] at hl
    have hpn : pts ≠ [] := by simpa using hne
    cases pts with
    | nil => exact hpn rfl
    | cons _ _ => simp at hp hl; omega
  refine ⟨t, hb, hperm, ⟨minNat (scatter plen t.assign), ?_⟩, ?_, ?_⟩
  · intro pl hpl i hi
    have hc := hcell pl hpl i hi
    refine ⟨minNat_le _ _ (List.mem_iff_getElem?.2 ⟨i, hc⟩), ?_⟩
    simp only [idsOfTree, List.getElem?_map, hc, Option.map_some]
  · simp [idsOfTree, scatter_length, hp]
  · intro v hv
    simp only [idsOfTree, List.mem_map] at hv
    obtain ⟨u, hu, rfl⟩ := hv
    obtain ⟨pl, hpl, rfl⟩ := hall u hu
    obtain ⟨pm, hpm, hpme⟩ := hall _ (minNat_mem _ hne')
    have r1 := hrange pl hpl
    have r2 := hrange pm hpm
    rw [← hpme]
    have : 2 ^ iter * (0 + 2) = 2 ^ iter + 2 ^ iter := by omega
    omega

end Coupe.Rcb
