import CoupeModel.Model.Rcb

/-!
# Lemmas about the Rcb model (C03)
-/

namespace Coupe.Rcb

variable {α : Type} [Coord α]

/-! ## `swapAt` -/

theorem swapAt_spec {β : Type} {a a' : Array β} {i j : Nat} (h : swapAt a i j = some a') :
    i < a.size ∧ j < a.size ∧ a'.size = a.size ∧ a'.Perm a ∧
      ∀ k, a'[k]? = if k = i then a[j]? else if k = j then a[i]? else a[k]? := by
  unfold swapAt at h
  split at h
  · next hb =>
    have : a.swap i j hb.1 hb.2 = a' := by simpa using h
    subst this
    refine ⟨hb.1, hb.2, Array.size_swap, Array.swap_perm hb.1 hb.2, ?_⟩
    intro k
    rw [Array.getElem?_swap hb.1 hb.2]
    have h1 : a[i]? = some a[i] := by simp [hb.1]
    have h2 : a[j]? = some a[j] := by simp [hb.2]
    by_cases hki : k = i <;> by_cases hkj : k = j <;> grind
  · simp at h

theorem swapAt_isSome {β : Type} {a : Array β} {i j : Nat} (hi : i < a.size) (hj : j < a.size) :
    ∃ a', swapAt a i j = some a' := by
  unfold swapAt
  simp [hi, hj]

/-! ## `reorder_split_scalar` -/

theorem scanL_spec (a : Array (Item α)) (coord : Nat) (pv : α) :
    ∀ (g l : Nat), l + g + 1 ≤ a.size →
      ∃ l', scanL a coord pv g l = .ok l' ∧ l ≤ l' ∧ l' ≤ l + g ∧
        (∀ j, l ≤ j → j < l' → ∀ x, a[j + 1]? = some x → Coord.lt (x.key coord) pv = true) ∧
        (l' = l + g ∨ ∃ x, a[l' + 1]? = some x ∧ Coord.lt (x.key coord) pv = false) := by
  intro g
  induction g with
  | zero => intro l _; exact ⟨l, rfl, Nat.le_refl _, Nat.le_refl _, by intro j h1 h2; omega, Or.inl rfl⟩
  | succ g ih =>
    intro l hb
    have hlt : l + 1 < a.size := by omega
    have hget : a[l + 1]? = some a[l + 1] := by simp [hlt]
    simp only [scanL, hget]
    by_cases hc : Coord.lt (a[l + 1].key coord) pv = true
    · simp only [hc, if_true]
      obtain ⟨l', h1, h2, h3, h4, h5⟩ := ih (l + 1) (by omega)
      refine ⟨l', h1, by omega, by omega, ?_, ?_⟩
      · intro j hj1 hj2 x hx
        by_cases hjl : j = l
        · subst hjl; rw [hget] at hx; cases hx; exact hc
        · exact h4 j (by omega) hj2 x hx
      · rcases h5 with h5 | h5
        · left; omega
        · right; exact h5
    · simp only [hc]
      refine ⟨l, rfl, Nat.le_refl _, by omega, by intro j h1 h2; omega, Or.inr ⟨_, hget, ?_⟩⟩
      simpa using hc

theorem scanR_spec (a : Array (Item α)) (coord : Nat) (pv : α) :
    ∀ (g r : Nat), g ≤ r → r + 1 ≤ a.size →
      ∃ r', scanR a coord pv g r = .ok r' ∧ r' ≤ r ∧ r - g ≤ r' ∧
        (∀ j, r' ≤ j → j < r → ∀ x, a[j + 1]? = some x → Coord.le pv (x.key coord) = true) ∧
        (r' = r - g ∨ ∃ x, a[r']? = some x ∧ Coord.le pv (x.key coord) = false) := by
  intro g
  induction g with
  | zero => intro r _ _; exact ⟨r, rfl, Nat.le_refl _, by omega, by intro j h1 h2; omega, Or.inl rfl⟩
  | succ g ih =>
    intro r hg hb
    have hlt : r < a.size := by omega
    have hget : a[r]? = some a[r] := by simp [hlt]
    simp only [scanR, hget]
    by_cases hc : Coord.le pv (a[r].key coord) = true
    · simp only [hc, if_true]
      obtain ⟨r', h1, h2, h3, h4, h5⟩ := ih (r - 1) (by omega) (by omega)
      refine ⟨r', h1, by omega, by omega, ?_, ?_⟩
      · intro j hj1 hj2 x hx
        by_cases hjl : j = r - 1
        · subst hjl
          have : r - 1 + 1 = r := by omega
          rw [this, hget] at hx; cases hx; exact hc
        · exact h4 j hj1 (by omega) x hx
      · rcases h5 with h5 | h5
        · left; omega
        · right; exact h5
    · simp only [hc]
      refine ⟨r, rfl, Nat.le_refl _, by omega, by intro j h1 h2; omega, Or.inr ⟨_, hget, ?_⟩⟩
      simpa using hc

end Coupe.Rcb
