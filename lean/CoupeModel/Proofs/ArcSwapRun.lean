import CoupeModel.Proofs.ArcSwapAcct

/-!
# ArcSwap model, part 6: the executable pass loop only visits reachable states

`run` (what the driver executes under the schedule of an op line, and `runSeq`) returns
`ok ids md` only from a reachable state in which every task is done and the pass had no
gain (`run_sound`); `cut_nonneg` for the pass bound.
-/

namespace Coupe.ArcSwap

theorem runSchedule_reach {c : Cfg} {p₀ : List Nat} (sched : List Nat) {s : State} (tr : List (Nat × Event))
    (h : Reach c p₀ s) : Reach c p₀ (runSchedule c s sched tr).1 := by
  induction sched generalizing s tr with
  | nil => exact h
  | cons tid rest ih =>
    unfold runSchedule
    split
    · exact ih tr h
    · next s' ev hst => exact ih _ (Reach.step h hst)

theorem finishPass_reach {c : Cfg} {p₀ : List Nat} (fuel : Nat) {s s' : State} {tr tr' : List (Nat × Event)}
    (h : Reach c p₀ s) (hf : finishPass c fuel s tr = some (s', tr')) :
    Reach c p₀ s' ∧ firstLive s' = none := by
  induction fuel generalizing s tr with
  | zero => simp [finishPass] at hf
  | succ fuel ih =>
    unfold finishPass at hf
    split at hf
    · next hnone =>
      simp only [Option.some.injEq, Prod.mk.injEq] at hf
      obtain ⟨rfl, -⟩ := hf
      exact ⟨h, hnone⟩
    · next tid _ =>
      split at hf
      · simp at hf
      · next s1 ev hst => exact ih (Reach.step h hst) hf

theorem allDone_of_firstLive {s : State} (h1 : firstLive s = none)
    (h2 : s.tasks.any (fun t => t.pc == .panic) = false) : allDone s = true := by
  unfold allDone
  rw [List.all_eq_true]
  intro t ht
  unfold firstLive at h1
  simp only [Option.map_eq_none_iff, List.find?_eq_none] at h1
  obtain ⟨i, hi⟩ := List.getElem?_of_mem ht
  have hm : (t, i) ∈ s.tasks.zipIdx := List.mem_zipIdx_iff_getElem?.2 hi
  have h3 := h1 (t, i) hm
  have h4 : (t.pc == Pc.panic) = false := by
    rw [List.any_eq_false] at h2
    simpa using h2 t ht
  simp only [Bool.and_eq_true, bne_iff_ne, ne_eq, not_and, Decidable.not_not] at h3
  rw [beq_iff_eq]
  by_cases hd : t.pc = .done
  · exact hd
  · have := h3 hd
    rw [this] at h4
    simp at h4

/-- `run_sound`: an `ok` outcome of the executable pass loop comes from a reachable
state in which all tasks are done and whose pass had no gain. -/
theorem runLoop_sound {c : Cfg} {p₀ : List Nat} (fuel passes : Nat) {s : State} {scheds : List (List Nat)}
    {acc : List (List (Nat × Event))} {ids : List Nat} {md : Metadata} {tr : List (List (Nat × Event))}
    (h : Reach c p₀ (beginPass c s))
    (hr : runLoop c fuel passes s scheds acc = (.ok ids md, tr)) :
    ∃ s', Reach c p₀ s' ∧ allDone s' = true ∧ (endPass c s').2 = false ∧ ids = s'.parts ∧
      md = { (endPass c s').1.md with verticesPerThread := c.ipt } := by
  induction passes generalizing s scheds acc with
  | zero => simp [runLoop] at hr
  | succ passes ih =>
    unfold runLoop at hr
    simp only at hr
    have h2 := runSchedule_reach (scheds.headD []) [] h
    split at hr
    · simp at hr
    · next s3 tr3 hfin =>
      obtain ⟨h3, hlive⟩ := finishPass_reach fuel h2 hfin
      split at hr
      · simp at hr
      · next hpan =>
        have hdone := allDone_of_firstLive hlive (by simpa using hpan)
        split at hr
        · next hagain =>
          exact ih (Reach.pass h3 hdone hagain) hr
        · next hagain =>
          simp only [Prod.mk.injEq, Outcome.ok.injEq] at hr
          obtain ⟨⟨rfl, rfl⟩, -⟩ := hr
          exact ⟨s3, h3, hdone, by simpa using hagain, rfl, rfl⟩

theorem run_sound {c : Cfg} {p₀ : List Nat} {scheds : List (List Nat)} {fuel passes : Nat}
    {ids : List Nat} {md : Metadata} {tr : List (List (Nat × Event))}
    (hr : run c p₀ scheds fuel passes = (.ok ids md, tr)) :
    ∃ s', Reach c p₀ s' ∧ allDone s' = true ∧ (endPass c s').2 = false ∧ ids = s'.parts ∧
      md = { (endPass c s').1.md with verticesPerThread := c.ipt } :=
  runLoop_sound fuel passes Reach.init hr

/-! ### the cut is bounded below -/

theorem cut_nonneg {g : Graph} (hw : ∀ e ∈ edges g, 0 ≤ e.2.2) (p : List Nat) : 0 ≤ cut g p := by
  rw [cut_eq_S]
  unfold S
  generalize edges g = l at hw
  induction l with
  | nil => simp
  | cons e l ih =>
    simp only [List.map_cons, List.sum_cons]
    have := ih fun e he => hw e (List.mem_cons_of_mem _ he)
    have := hw e List.mem_cons_self
    split_ifs <;> omega

end Coupe.ArcSwap
