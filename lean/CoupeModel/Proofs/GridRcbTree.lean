import CoupeModel.Model.GridRcb
import CoupeModel.Proofs.GridRcb

/-!
# Lemmas on the split tree of `Grid::rcb` (`recurse`, `part_of`, `split_at`)

`Bisect D P n t sg c` is the formal reading of "the tree `t` is a recursive
bisection of the box `sg`, of depth at most `n`, along the axes `c, c+1, … (mod D)`,
every cut satisfying `P`".  `leafBox` is the box of the leaf a cell falls into.
-/

namespace Coupe.GridRcb

/-- The cell `pos` lies in the box `sg` (coordinates `< D`). -/
def InBox (D : Nat) (sg : SubGrid) (pos : Nat → Nat) : Prop :=
  ∀ c, c < D → sg.offset c ≤ pos c ∧ pos c < sg.offset c + sg.size c

/-- Low part of `split_at(c, k + offset[c])`. -/
def SubGrid.lo (sg : SubGrid) (c k : Nat) : SubGrid := { sg with size := upd sg.size c k }

/-- High part of `split_at(c, k + offset[c])`. -/
def SubGrid.hi (sg : SubGrid) (c k : Nat) : SubGrid :=
  { size := upd sg.size c (sg.size c - k), offset := upd sg.offset c (k + sg.offset c) }

theorem splitAt_eq (sg : SubGrid) (c k : Nat) (h : k ≤ sg.size c) :
    sg.splitAt c (k + sg.offset c) = some (sg.lo c k, sg.hi c k) := by
  simp only [SubGrid.splitAt, SubGrid.lo, SubGrid.hi]
  rw [if_neg (by omega), Nat.add_sub_cancel, if_neg (by omega)]

/-- Recursive bisection of `sg` of depth at most `n` starting along axis `c`;
`P sg c k` holds at every cut (`k` = number of slabs on the low side).  Leaves
above depth `n` exist only where the box is empty along the axis to cut. -/
inductive Bisect (D : Nat) (P : SubGrid → Nat → Nat → Prop) : Nat → Tree → SubGrid → Nat → Prop
  | iter0 (sg : SubGrid) (c : Nat) : Bisect D P 0 .whole sg c
  | empty (n : Nat) (sg : SubGrid) (c : Nat) : sg.size c = 0 → Bisect D P (n + 1) .whole sg c
  | split (n : Nat) (sg : SubGrid) (c k : Nat) (l r : Tree) :
      k < sg.size c → P sg c k →
      Bisect D P n l (sg.lo c k) ((c + 1) % D) → Bisect D P n r (sg.hi c k) ((c + 1) % D) →
      Bisect D P (n + 1) (.split (k + sg.offset c) l r) sg c

/-- The box of the leaf the cell `pos` falls into. -/
def leafBox (D : Nat) : Tree → SubGrid → Nat → (Nat → Nat) → SubGrid
  | .whole, sg, _, _ => sg
  | .split p l r, sg, c, pos =>
    if pos c < p then leafBox D l (sg.lo c (p - sg.offset c)) ((c + 1) % D) pos
    else leafBox D r (sg.hi c (p - sg.offset c)) ((c + 1) % D) pos

theorem upd_same (f : Nat → Nat) (c v : Nat) : upd f c v c = v := by simp [upd]
theorem upd_other (f : Nat → Nat) (c v i : Nat) (h : i ≠ c) : upd f c v i = f i := by simp [upd, h]

theorem inBox_lo {D : Nat} {sg : SubGrid} {c k : Nat} {pos : Nat → Nat} (hk : k ≤ sg.size c) :
    InBox D (sg.lo c k) pos ↔ InBox D sg pos ∧ (c < D → pos c < k + sg.offset c) := by
  constructor
  · intro h
    refine ⟨fun i hi => ?_, fun hc => ?_⟩
    · have := h i hi
      by_cases hic : i = c
      · subst hic; simp only [SubGrid.lo, upd_same] at this; omega
      · simpa only [SubGrid.lo, upd_other _ _ _ _ hic] using this
    · have := h c hc
      simp only [SubGrid.lo, upd_same] at this; omega
  · intro ⟨h, h2⟩ i hi
    have := h i hi
    by_cases hic : i = c
    · subst hic; have := h2 hi; simp only [SubGrid.lo, upd_same]; omega
    · simpa only [SubGrid.lo, upd_other _ _ _ _ hic] using this

theorem inBox_hi {D : Nat} {sg : SubGrid} {c k : Nat} {pos : Nat → Nat} (hk : k ≤ sg.size c) :
    InBox D (sg.hi c k) pos ↔ InBox D sg pos ∧ (c < D → ¬ pos c < k + sg.offset c) := by
  constructor
  · intro h
    refine ⟨fun i hi => ?_, fun hc => ?_⟩
    · have := h i hi
      by_cases hic : i = c
      · subst hic; simp only [SubGrid.hi, upd_same] at this; omega
      · simpa only [SubGrid.hi, upd_other _ _ _ _ hic] using this
    · have := h c hc
      simp only [SubGrid.hi, upd_same] at this; omega
  · intro ⟨h, h2⟩ i hi
    have := h i hi
    by_cases hic : i = c
    · subst hic; have := h2 hi; simp only [SubGrid.hi, upd_same]; omega
    · simpa only [SubGrid.hi, upd_other _ _ _ _ hic] using this

variable {D : Nat} {P : SubGrid → Nat → Nat → Prop}

theorem Bisect.depth_le {n : Nat} {t : Tree} {sg : SubGrid} {c : Nat} (h : Bisect D P n t sg c) :
    t.depth ≤ n := by
  induction h with
  | iter0 => simp [Tree.depth]
  | empty => simp [Tree.depth]
  | split n sg c k l r _ _ _ _ ih1 ih2 => simp only [Tree.depth]; omega

/-- `part_of` never exceeds the id range of its depth (any cell, in the box or not). -/
theorem partOfAux_lt {n : Nat} {t : Tree} {sg : SubGrid} {c : Nat} (h : Bisect D P n t sg c)
    (pos : Nat → Nat) (id : Nat) : partOfAux D t pos c id < (id + 1) * 2 ^ n := by
  induction h generalizing id with
  | iter0 => simp [partOfAux]
  | empty n sg c _ =>
    simp only [partOfAux]
    have : 0 < 2 ^ (n + 1) := Nat.pow_pos (by omega)
    calc id < id + 1 := by omega
      _ = (id + 1) * 1 := by omega
      _ ≤ (id + 1) * 2 ^ (n + 1) := Nat.mul_le_mul_left _ this
  | split n sg c k l r _ _ _ _ ih1 ih2 =>
    simp only [partOfAux]
    have e : (id + 1) * 2 ^ (n + 1) = (id * 2 + 1 + 1) * 2 ^ n := by
      rw [Nat.pow_succ, ← Nat.mul_assoc, Nat.mul_right_comm]
      congr 1; omega
    split
    · have := ih1 (id * 2)
      have h2 : (id * 2 + 1) * 2 ^ n ≤ (id * 2 + 1 + 1) * 2 ^ n := Nat.mul_le_mul_right _ (by omega)
      omega
    · have := ih2 (2 * id + 1)
      rw [e, show id * 2 + 1 + 1 = 2 * id + 1 + 1 by omega]
      exact this

/-- For a cell of the box the leaf is at depth exactly `n`: the id is
`id·2^n + (the id from 0)`, and the latter is `< 2^n`. -/
theorem partOfAux_split {n : Nat} {t : Tree} {sg : SubGrid} {c : Nat} (h : Bisect D P n t sg c)
    (hc : c < D) (pos : Nat → Nat) (hin : InBox D sg pos) (id : Nat) :
    partOfAux D t pos c id = id * 2 ^ n + partOfAux D t pos c 0 := by
  induction h generalizing id with
  | iter0 => simp [partOfAux]
  | empty n sg c h0 => have := hin c hc; omega
  | split n sg c k l r hk _ _ _ ih1 ih2 =>
    have hD : (c + 1) % D < D := Nat.mod_lt _ (by omega)
    simp only [partOfAux]
    split
    · next hlt =>
      have hin' : InBox D (sg.lo c k) pos := (inBox_lo (by omega)).2 ⟨hin, fun _ => hlt⟩
      rw [ih1 hD hin' (id * 2), ih1 hD hin' (0 * 2)]
      rw [Nat.pow_succ, Nat.mul_comm (2 ^ n) 2, ← Nat.mul_assoc]
    · next hlt =>
      have hin' : InBox D (sg.hi c k) pos := (inBox_hi (by omega)).2 ⟨hin, fun _ => hlt⟩
      rw [ih2 hD hin' (2 * id + 1), ih2 hD hin' (2 * 0 + 1)]
      rw [Nat.pow_succ, Nat.mul_comm (2 ^ n) 2, ← Nat.mul_assoc, Nat.add_mul, Nat.mul_comm 2 id]
      simp only [Nat.mul_zero, Nat.zero_add, Nat.one_mul]
      omega

theorem leafBox_inBox {n : Nat} {t : Tree} {sg : SubGrid} {c : Nat} (h : Bisect D P n t sg c)
    (pos : Nat → Nat) (hin : InBox D sg pos) : InBox D (leafBox D t sg c pos) pos := by
  induction h with
  | iter0 => exact hin
  | empty => exact hin
  | split n sg c k l r hk _ _ _ ih1 ih2 =>
    simp only [leafBox, Nat.add_sub_cancel]
    split
    · next hlt => exact ih1 ((inBox_lo (by omega)).2 ⟨hin, fun _ => hlt⟩)
    · next hlt => exact ih2 ((inBox_hi (by omega)).2 ⟨hin, fun _ => hlt⟩)

theorem leafBox_sub {n : Nat} {t : Tree} {sg : SubGrid} {c : Nat} (h : Bisect D P n t sg c)
    (pos q : Nat → Nat) (hq : InBox D (leafBox D t sg c pos) q) : InBox D sg q := by
  induction h with
  | iter0 => exact hq
  | empty => exact hq
  | split n sg c k l r hk _ _ _ ih1 ih2 =>
    simp only [leafBox, Nat.add_sub_cancel] at hq
    split at hq
    · exact ((inBox_lo (by omega)).1 (ih1 hq)).1
    · exact ((inBox_hi (by omega)).1 (ih2 hq)).1

/-- Two cells of the box get the same id iff they fall into the same leaf box. -/
theorem partOf_eq_iff {n : Nat} {t : Tree} {sg : SubGrid} {c : Nat} (h : Bisect D P n t sg c)
    (hc : c < D) (pos pos' : Nat → Nat) (hin : InBox D sg pos) (hin' : InBox D sg pos') :
    partOfAux D t pos c 0 = partOfAux D t pos' c 0 ↔ InBox D (leafBox D t sg c pos) pos' := by
  induction h with
  | iter0 => simp [partOfAux, leafBox, hin']
  | empty n sg c h0 => have := hin c hc; omega
  | split n sg c k l r hk _ hl hr ih1 ih2 =>
    have hD : (c + 1) % D < D := Nat.mod_lt _ (by omega)
    have hb : ∀ (t : Tree) (sg' : SubGrid) (q : Nat → Nat), Bisect D P n t sg' ((c + 1) % D) →
        partOfAux D t q ((c + 1) % D) 0 < 2 ^ n := by
      intro t sg' q hb
      have := partOfAux_lt hb q 0
      simpa using this
    simp only [partOfAux, leafBox, Nat.add_sub_cancel, Nat.zero_mul, Nat.mul_zero, Nat.zero_add]
    by_cases h1 : pos c < k + sg.offset c <;> by_cases h2 : pos' c < k + sg.offset c
    · have a := (inBox_lo (k := k) (by omega)).2 ⟨hin, fun _ => h1⟩
      have b := (inBox_lo (k := k) (by omega)).2 ⟨hin', fun _ => h2⟩
      simp only [h1, h2, if_true]
      exact ih1 hD a b
    · have a := (inBox_lo (k := k) (by omega)).2 ⟨hin, fun _ => h1⟩
      have b := (inBox_hi (k := k) (by omega)).2 ⟨hin', fun _ => h2⟩
      simp only [h1, h2, if_true, if_false]
      constructor
      · intro he
        rw [partOfAux_split hr hD pos' b 1] at he
        have := hb l _ pos hl
        simp only [Nat.one_mul] at he
        omega
      · intro hq
        have := (inBox_lo (k := k) (by omega)).1 (leafBox_sub hl pos pos' hq)
        exact absurd (this.2 hc) h2
    · have a := (inBox_hi (k := k) (by omega)).2 ⟨hin, fun _ => h1⟩
      have b := (inBox_lo (k := k) (by omega)).2 ⟨hin', fun _ => h2⟩
      simp only [h1, h2, if_true, if_false]
      constructor
      · intro he
        rw [partOfAux_split hr hD pos a 1] at he
        have := hb l _ pos' hl
        simp only [Nat.one_mul] at he
        omega
      · intro hq
        have := (inBox_hi (k := k) (by omega)).1 (leafBox_sub hr pos pos' hq)
        exact absurd h2 (this.2 hc)
    · have a := (inBox_hi (k := k) (by omega)).2 ⟨hin, fun _ => h1⟩
      have b := (inBox_hi (k := k) (by omega)).2 ⟨hin', fun _ => h2⟩
      simp only [h1, h2, if_false]
      rw [partOfAux_split hr hD pos a 1, partOfAux_split hr hD pos' b 1]
      rw [Nat.add_left_cancel_iff]
      exact ih2 hD a b

/-! ## The recursion -/

/-- `weighted_median` on a non-empty slice returns, and its position is inside the slice. -/
theorem median_ok (cfg : Cfg) (T : Nat) (ws : List Int) (minPw maxPw : Int)
    (hc : 2 ≤ max cfg.minChunks T) :
    ∃ pos l, weightedMedian cfg T ws minPw maxPw = .ok (pos, l) ∧ l = pre ws pos ∧
      (0 < ws.length → pos < ws.length) := by
  obtain ⟨pos, l, a, b, _, d⟩ := medianLoop_ok cfg T ws minPw maxPw hc (ws.length + 1) 0 ws.length 0
    (Nat.zero_le _) (Nat.le_refl _) (by simp [pre]) (by omega)
  exact ⟨pos, l, a, b, d⟩

/-- Rule for invariants of `recurse`: if `Q` (relating a sub-grid and the total
handed down with it) is preserved by every cut and implies `P` at the cut, the
tree is a `Bisect` with `P` at every node. -/
theorem recurse_bisect (env : Env) (P : SubGrid → Nat → Nat → Prop) (Q : SubGrid → Int → Prop)
    (hD : 0 < env.D)
    (step : ∀ sg total c axisW minPw maxPw k l, Q sg total → c < env.D → sg.size c ≠ 0 →
      env.aw sg c = some axisW → env.bracket total = some (minPw, maxPw) →
      weightedMedian env.cfg env.T axisW minPw maxPw = .ok (k, l) →
      k < sg.size c ∧ P sg c k ∧ Q (sg.lo c k) l ∧ Q (sg.hi c k) (total - l)) :
    ∀ (iter : Nat) (sg : SubGrid) (total : Int) (c : Nat) (t : Tree), c < env.D → Q sg total →
      recurse env iter sg total c = .ok t → Bisect env.D P iter t sg c := by
  intro iter
  induction iter with
  | zero =>
    intro sg total c t _ _ h
    simp only [recurse, Except.ok.injEq] at h
    subst h
    exact .iter0 sg c
  | succ iter ih =>
    intro sg total c t hc hQ h
    simp only [recurse] at h
    split at h
    · next h0 =>
      simp only [Except.ok.injEq] at h
      subst h
      exact .empty iter sg c h0
    · next h0 =>
      split at h
      · cases h
      · next axisW haw =>
        split at h
        · cases h
        · next minPw maxPw hbr =>
          split at h
          · cases h
          · next k l hmed =>
            obtain ⟨hk, hP, hQl, hQr⟩ := step sg total c axisW minPw maxPw k l hQ hc h0 haw hbr hmed
            simp only [splitAt_eq sg c k (by omega)] at h
            have hc' : (c + 1) % env.D < env.D := Nat.mod_lt _ hD
            split at h
            · cases h
            · next lt hl =>
              split at h
              · cases h
              · next rt hr =>
                simp only [Except.ok.injEq] at h
                subst h
                exact .split iter sg c k lt rt hk hP (ih _ _ _ _ hc' hQl hl) (ih _ _ _ _ hc' hQr hr)

/-- Rule for totality of `recurse`: if under `Q` the slab weights can be read
(one per slab) and a bracket is supplied, and `Q` is preserved by every possible
cut, the recursion returns a tree (no abort, no hang). -/
theorem recurse_total (env : Env) (Q : SubGrid → Int → Prop) (hD : 0 < env.D)
    (hch : 2 ≤ max env.cfg.minChunks env.T)
    (step : ∀ sg total c, Q sg total → c < env.D → sg.size c ≠ 0 →
      ∃ axisW minPw maxPw, env.aw sg c = some axisW ∧ env.bracket total = some (minPw, maxPw) ∧
        axisW.length = sg.size c ∧
        ∀ k l, k < sg.size c → l = pre axisW k → Q (sg.lo c k) l ∧ Q (sg.hi c k) (total - l)) :
    ∀ (iter : Nat) (sg : SubGrid) (total : Int) (c : Nat), c < env.D → Q sg total →
      ∃ t, recurse env iter sg total c = .ok t := by
  intro iter
  induction iter with
  | zero => intro sg total c _ _; exact ⟨.whole, rfl⟩
  | succ iter ih =>
    intro sg total c hc hQ
    simp only [recurse]
    split
    · exact ⟨.whole, rfl⟩
    · next h0 =>
      obtain ⟨axisW, minPw, maxPw, haw, hbr, hlen, hstep⟩ := step sg total c hQ hc h0
      obtain ⟨k, l, hmed, hl, hk⟩ := median_ok env.cfg env.T axisW minPw maxPw hch
      have hk' : k < sg.size c := by rw [← hlen]; exact hk (by omega)
      obtain ⟨hQl, hQr⟩ := hstep k l hk' hl
      have hc' : (c + 1) % env.D < env.D := Nat.mod_lt _ hD
      obtain ⟨lt, hlt⟩ := ih (sg.lo c k) l _ hc' hQl
      obtain ⟨rt, hrt⟩ := ih (sg.hi c k) (total - l) _ hc' hQr
      simp only [haw, hbr, hmed, splitAt_eq sg c k (by omega), hlt, hrt]
      exact ⟨_, rfl⟩

/-! ## Index maps -/

theorem indexOf2_positionOf2 (w i : Nat) : indexOf2 w (positionOf2 w i) = i := by
  simp only [indexOf2, positionOf2]
  exact Nat.mod_add_div i w

theorem positionOf2_indexOf2 (w x y : Nat) (hx : x < w) : positionOf2 w (indexOf2 w (x, y)) = (x, y) := by
  simp only [indexOf2, positionOf2]
  rw [Nat.add_mul_mod_self_left, Nat.mod_eq_of_lt hx, Nat.add_mul_div_left _ _ (by omega),
    Nat.div_eq_of_lt hx, Nat.zero_add]

theorem positionOf2_lt (w h i : Nat) (hw : 0 < w) (hi : i < w * h) :
    (positionOf2 w i).1 < w ∧ (positionOf2 w i).2 < h := by
  simp only [positionOf2]
  exact ⟨Nat.mod_lt _ hw, Nat.div_lt_of_lt_mul hi⟩

theorem indexOf2_lt (w h x y : Nat) (hx : x < w) (hy : y < h) : indexOf2 w (x, y) < w * h := by
  simp only [indexOf2]
  have : w * (y + 1) ≤ w * h := Nat.mul_le_mul_left w hy
  rw [Nat.mul_succ] at this
  omega

theorem indexOf3_positionOf3 (w h i : Nat) : indexOf3 w h (positionOf3 w h i) = i := by
  simp only [indexOf3, positionOf3]
  rw [Nat.mod_add_div (i / w) h]
  exact Nat.mod_add_div i w

theorem positionOf3_indexOf3 (w h x y z : Nat) (hx : x < w) (hy : y < h) :
    positionOf3 w h (indexOf3 w h (x, y, z)) = (x, y, z) := by
  simp only [indexOf3, positionOf3]
  have e1 : (x + w * (y + h * z)) / w = y + h * z := by
    rw [Nat.add_mul_div_left _ _ (by omega), Nat.div_eq_of_lt hx, Nat.zero_add]
  rw [Nat.add_mul_mod_self_left, Nat.mod_eq_of_lt hx, e1, Nat.add_mul_mod_self_left,
    Nat.mod_eq_of_lt hy, Nat.add_mul_div_left _ _ (by omega), Nat.div_eq_of_lt hy, Nat.zero_add]

theorem positionOf3_lt (w h d i : Nat) (hw : 0 < w) (hh : 0 < h) (hi : i < w * h * d) :
    (positionOf3 w h i).1 < w ∧ (positionOf3 w h i).2.1 < h ∧ (positionOf3 w h i).2.2 < d := by
  simp only [positionOf3]
  refine ⟨Nat.mod_lt _ hw, Nat.mod_lt _ hh, ?_⟩
  apply Nat.div_lt_of_lt_mul
  apply Nat.div_lt_of_lt_mul
  rw [← Nat.mul_assoc]; exact hi

theorem indexOf3_lt (w h d x y z : Nat) (hx : x < w) (hy : y < h) (hz : z < d) :
    indexOf3 w h (x, y, z) < w * h * d := by
  simp only [indexOf3]
  have h1 : h * (z + 1) ≤ h * d := Nat.mul_le_mul_left h hz
  rw [Nat.mul_succ] at h1
  have h2 : w * (y + h * z + 1) ≤ w * (h * d) := Nat.mul_le_mul_left w (by omega)
  rw [Nat.mul_succ, ← Nat.mul_assoc] at h2
  omega

/-! ## What the recursion needs from the `axis_weights` block -/

/-- The sub-grid lies inside the grid of sizes `dims`. -/
def InGrid (D : Nat) (dims : Nat → Nat) (sg : SubGrid) : Prop :=
  ∀ c, c < D → sg.offset c + sg.size c ≤ dims c

/-- Specification of an `axis_weights` block `aw` against a box-weight function
`bw` (the weight of all cells of a sub-grid): inside the grid no index is out of
bounds, there is one entry per slab, the entries add up to the weight of the box,
and the first `k` of them to the weight of the low part of `split_at`. -/
def AwSpec (D : Nat) (dims : Nat → Nat) (aw : SubGrid → Nat → Option (List Int))
    (bw : SubGrid → Int) : Prop :=
  ∀ sg c, c < D → InGrid D dims sg →
    ∃ axisW, aw sg c = some axisW ∧ axisW.length = sg.size c ∧ axisW.sum = bw sg ∧
      ∀ k, k ≤ sg.size c →
        bw (sg.lo c k) = pre axisW k ∧ bw (sg.hi c k) = axisW.sum - pre axisW k

/-- Weight of the cells of a 2-D sub-grid (`w` = grid width; cells outside the
array count 0, which does not happen inside the grid). -/
def boxWeight2 (w : Nat) (ws : Array Int) (sg : SubGrid) : Int :=
  ((sg.axis 1).map fun y => ((sg.axis 0).map fun x => ws.getD (indexOf2 w (x, y)) 0).sum).sum

/-- Weight of the cells of a 3-D sub-grid. -/
def boxWeight3 (w h : Nat) (ws : Array Int) (sg : SubGrid) : Int :=
  ((sg.axis 2).map fun z => ((sg.axis 1).map fun y =>
    ((sg.axis 0).map fun x => ws.getD (indexOf3 w h (x, y, z)) 0).sum).sum).sum

end Coupe.GridRcb
