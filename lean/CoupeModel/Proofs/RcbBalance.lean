import CoupeModel.Model.Rcb
import CoupeModel.Proofs.Rcb

/-!
# C04 vocabulary and lemmas: balance of every bisection

`wOf`, `achievable`, `bracketsHalf`, `nodeOk`, `balanced` are the *specification* (all
decidable, written over the input points/weights and the member lists of the tree only –
nothing the cut search reports is believed).
-/

namespace Coupe.Rcb

variable {α : Type} [Coord α]

/-- Total weight of the points `ids`. -/
def wOf (ws : List Int) (ids : List Nat) : Int := (ids.map (fun i => ws.getD i 0)).sum

/-- The low-side weights of all achievable cuts of the node holding the points `ids`,
on axis `coord`: for every coordinate value `v` present, the weight of the points with a
strictly smaller coordinate; and the whole node (cut above everything). -/
def achievable (pts : List (List α)) (ws : List Int) (coord : Nat) (ids : List Nat) : List Int :=
  wOf ws ids :: ids.map (fun i =>
    wOf ws (ids.filter (fun j => Coord.lt (ptKey pts j coord) (ptKey pts i coord))))

/-- `wl` is one of the two achievable low-side weights that bracket `W/2`: it is achievable
and no achievable weight lies strictly between it and the half (so moving the cut past one
more distinct coordinate value, towards the half, crosses the half). -/
def bracketsHalf (A : List Int) (wl W : Int) : Bool :=
  A.contains wl &&
    A.all (fun a => !(decide (wl < a) && decide (2 * a < W)) && !(decide (a < wl) && decide (W < 2 * a)))

/-- C04 at one bisection: low side `lo`, high side `hi`, axis `coord`; `wt wl W` is the
tolerance test `|wl − W/2| ≤ tolerance · W/2`. -/
def nodeOk (wt : Int → Int → Bool) (pts : List (List α)) (ws : List Int) (coord : Nat)
    (lo hi : List Nat) : Bool :=
  let wl := wOf ws lo
  let W := wOf ws (lo ++ hi)
  wt wl W || bracketsHalf (achievable pts ws coord (lo ++ hi)) wl W

/-- C04 at every bisection of a tree. -/
def balanced (wt : Int → Int → Bool) (pts : List (List α)) (ws : List Int) :
    Tree (NodeInfo α) → Bool
  | .empty => true
  | .leaf _ _ => true
  | .node i lo hi =>
    nodeOk wt pts ws i.coord lo.members hi.members && balanced wt pts ws lo && balanced wt pts ws hi

/-- The nodes of a tree in pre-order: `(exit, ok?)`. -/
def verdicts (wt : Int → Int → Bool) (pts : List (List α)) (ws : List Int) :
    Tree (NodeInfo α) → List (Exit × Bool)
  | .empty => []
  | .leaf _ _ => []
  | .node i lo hi =>
    (i.exit, nodeOk wt pts ws i.coord lo.members hi.members) ::
      (verdicts wt pts ws lo ++ verdicts wt pts ws hi)

/-- Run `rcb` (bounding box of the points) and judge every bisection. -/
def judge (wt : Int → Int → Bool) (cfg : Cfg) (iter : Nat) (pts : List (List α)) (ws : List Int) :
    Option (List (Exit × Bool)) :=
  let bb := bbox cfg.dim pts
  match runTree wt cfg iter pts ws bb.1 bb.2 with
  | .ok t => some (verdicts wt pts ws t)
  | _ => none

theorem balanced_iff_verdicts (wt : Int → Int → Bool) (pts : List (List α)) (ws : List Int)
    (t : Tree (NodeInfo α)) :
    balanced wt pts ws t = true ↔ ∀ v ∈ verdicts wt pts ws t, v.2 = true := by
  induction t with
  | empty => simp [balanced, verdicts]
  | leaf p ids => simp [balanced, verdicts]
  | node i lo hi ihl ihh =>
    simp only [balanced, verdicts, Bool.and_eq_true, ihl, ihh, List.mem_cons, List.mem_append]
    constructor
    · rintro ⟨⟨h1, h2⟩, h3⟩ v (rfl | hv | hv)
      · exact h1
      · exact h2 v hv
      · exact h3 v hv
    · intro h
      exact ⟨⟨h _ (Or.inl rfl), fun v hv => h v (Or.inr (Or.inl hv))⟩,
        fun v hv => h v (Or.inr (Or.inr hv))⟩

/-- Exact tolerance tests for the integer witnesses: tolerance 0 and tolerance 1/20. -/
def tolZero (wl sum : Int) : Bool := decide (2 * wl = sum)
def tolTwentieth (wl sum : Int) : Bool := decide (20 * (2 * wl - sum).natAbs ≤ sum)

/-! ## The tolerance exit -/

/-- `imbalance <= tolerance` is the only way to the `tolerance` exit. -/
theorem split_exit_tol_aux (wt : Int → Int → Bool) (coord : Nat) (sum : Int) (items : List (Item α)) :
    ∀ (fuel it : Nat) (mn mx : α) (prev : Option Nat) (mv : Bool) (out : SplitOut α),
      split wt coord sum items fuel it mn mx prev mv = .ok out → out.exit = .tolerance →
      wt out.weightLeft sum = true := by
  intro fuel
  induction fuel with
  | zero => intro it mn mx prev mv out h; simp [split] at h
  | succ fuel ih =>
    intro it mn mx prev mv out h he
    simp only [split] at h
    split at h
    · split at h
      · cases h; cases he
      · exact ih _ _ _ _ _ _ h he
    · next idx nd hn =>
      split at h
      · next e hex =>
        split at h
        · cases h
        · cases h
        · next l r hr =>
          cases h
          simp only at he
          subst he
          split at hex
          · cases hex
          · split at hex
            · cases hex
            · split at hex
              · next hw => exact hw
              · cases hex
      · split at h
        · exact ih _ _ _ _ _ _ h he
        · exact ih _ _ _ _ _ _ h he

/-! ## Exact arithmetic: the search on integer coordinates -/

theorem int_lt (a b : Int) : Coord.lt a b = decide (a < b) := rfl
theorem int_le (a b : Int) : Coord.le a b = decide (a ≤ b) := rfl
theorem int_sub (a b : Int) : Coord.sub a b = a - b := rfl
theorem int_add (a b : Int) : Coord.add a b = a + b := rfl
theorem int_half (a : Int) : Coord.half a = a / 2 := rfl
theorem int_mid (a b : Int) : Coord.mid a b = (a + b) / 2 := rfl
theorem int_zero : (Coord.zero : Int) = 0 := rfl
theorem int_ltInf (a : Int) : Coord.ltInf a = true := rfl

/-- Sum of the weights of a list of items. -/
def sumW (l : List (Item Int)) : Int := (l.map (·.w)).sum

/-- Weight strictly left of `v` / left of or at `v`, on axis `coord`. -/
def Lw (items : List (Item Int)) (coord : Nat) (v : Int) : Int :=
  sumW (items.filter (fun x => decide (x.key coord < v)))
def Lle (items : List (Item Int)) (coord : Nat) (v : Int) : Int :=
  sumW (items.filter (fun x => decide (x.key coord ≤ v)))

theorem sumW_cons (x : Item Int) (xs : List (Item Int)) : sumW (x :: xs) = x.w + sumW xs := by
  simp [sumW]

theorem sumW_append (l r : List (Item Int)) : sumW (l ++ r) = sumW l + sumW r := by
  simp [sumW]

theorem sumW_filter_le (items : List (Item Int)) (p q : Item Int → Bool)
    (hw : ∀ x ∈ items, 0 ≤ x.w) (h : ∀ x ∈ items, p x = true → q x = true) :
    sumW (items.filter p) ≤ sumW (items.filter q) := by
  induction items with
  | nil => simp [sumW]
  | cons x xs ih =>
    have ih' := ih (fun y hy => hw y (List.mem_cons_of_mem _ hy))
      (fun y hy => h y (List.mem_cons_of_mem _ hy))
    have hx := hw x (List.mem_cons_self)
    have hpq := h x (List.mem_cons_self)
    simp only [List.filter_cons]
    by_cases hp : p x = true
    · simp only [hp, hpq hp, if_true, sumW_cons]; omega
    · by_cases hq : q x = true
      · simp only [hp, hq, if_true, sumW_cons]; simp; omega
      · simp only [hp, hq]; simpa using ih'

theorem sumW_filter_congr (items : List (Item Int)) (p q : Item Int → Bool)
    (h : ∀ x ∈ items, p x = q x) : sumW (items.filter p) = sumW (items.filter q) := by
  rw [List.filter_congr h]

theorem sumW_filter_total (items : List (Item Int)) (p : Item Int → Bool)
    (h : ∀ x ∈ items, p x = true) : sumW (items.filter p) = sumW items := by
  rw [List.filter_eq_self.2 h]

theorem sumW_filter_le_total (items : List (Item Int)) (p : Item Int → Bool)
    (hw : ∀ x ∈ items, 0 ≤ x.w) : sumW (items.filter p) ≤ sumW items := by
  have := sumW_filter_le items p (fun _ => true) hw (fun _ _ _ => rfl)
  rwa [sumW_filter_total items (fun _ => true) (fun _ _ => rfl)] at this

theorem sumW_perm {l l' : List (Item Int)} (h : l.Perm l') : sumW l = sumW l' := by
  induction h with
  | nil => rfl
  | cons x _ ih => simp only [sumW_cons, ih]
  | swap x y l => simp only [sumW_cons]; omega
  | trans _ _ ih1 ih2 => rw [ih1, ih2]

/-- What the fold has computed after a prefix `pre` of the items. -/
structure ScanSpec (coord : Nat) (t : Int) (pre : List (Item Int)) (st : Scan Int) : Prop where
  count : st.count = (pre.filter (fun x => decide (x.key coord < t))).length
  wl : st.wl = Lw pre coord t
  none_all : st.nearest = none → ∀ x ∈ pre, x.key coord < t
  some_min : ∀ i d, st.nearest = some (i, d) → ∃ p, pre[i]? = some p ∧ t ≤ p.key coord ∧
    d = p.key coord - t ∧ ∀ x ∈ pre, t ≤ x.key coord → p.key coord ≤ x.key coord

theorem scanSpec_step (coord : Nat) (t : Int) (pre : List (Item Int)) (st : Scan Int) (x : Item Int)
    (h : ScanSpec coord t pre st) :
    ScanSpec coord t (pre ++ [x]) (scanStep coord t st (x, pre.length)) := by
  obtain ⟨hc, hwl, hnone, hsome⟩ := h
  unfold scanStep
  simp only [int_lt, int_sub, int_zero, int_ltInf]
  by_cases hx : x.key coord < t
  · have hx' : x.key coord - t < 0 := by omega
    simp only [hx', decide_true, if_true]
    refine ⟨?_, ?_, ?_, ?_⟩
    · simp [List.filter_append, hx, hc]
    · simp [Lw, List.filter_append, hx, hwl, sumW]
    · intro hn y hy
      rcases List.mem_append.1 hy with hy | hy
      · exact hnone hn y hy
      · simp at hy; subst hy; exact hx
    · intro i d hid
      obtain ⟨p, hp, h1, h2, h3⟩ := hsome i d hid
      refine ⟨p, ?_, h1, h2, ?_⟩
      · have : i < pre.length := by
          rcases Nat.lt_or_ge i pre.length with h | h
          · exact h
          · rw [List.getElem?_eq_none h] at hp; cases hp
        rw [List.getElem?_append_left this]; exact hp
      · intro y hy hty
        rcases List.mem_append.1 hy with hy | hy
        · exact h3 y hy hty
        · simp at hy; subst hy; omega
  · have hx' : ¬ (x.key coord - t < 0) := by omega
    simp only [hx', decide_false, Bool.false_eq_true, if_false]
    have hfilt : (pre ++ [x]).filter (fun y => decide (y.key coord < t)) =
        pre.filter (fun y => decide (y.key coord < t)) := by
      simp [List.filter_append, hx]
    have hxget : (pre ++ [x])[pre.length]? = some x := by simp
    cases hn : st.nearest with
    | none =>
      simp only [if_true]
      refine ⟨by simp [hfilt, hc], by simp [Lw, hfilt, hwl], (by intro h; cases h), ?_⟩
      intro i d hid
      simp only [Option.some.injEq, Prod.mk.injEq] at hid
      obtain ⟨rfl, rfl⟩ := hid
      refine ⟨x, hxget, by omega, rfl, ?_⟩
      intro y hy hty
      rcases List.mem_append.1 hy with hy | hy
      · have := hnone hn y hy; omega
      · simp at hy; subst hy; omega
    | some pr =>
      obtain ⟨j, nd⟩ := pr
      obtain ⟨p, hp, h1, h2, h3⟩ := hsome j nd hn
      simp only
      by_cases hd : x.key coord - t < nd
      · simp only [hd, decide_true, if_true]
        refine ⟨by simp [hfilt, hc], by simp [Lw, hfilt, hwl], (by intro h; cases h), ?_⟩
        intro i d hid
        simp only [Option.some.injEq, Prod.mk.injEq] at hid
        obtain ⟨rfl, rfl⟩ := hid
        refine ⟨x, hxget, by omega, rfl, ?_⟩
        intro y hy hty
        rcases List.mem_append.1 hy with hy | hy
        · have := h3 y hy hty; omega
        · simp at hy; subst hy; omega
      · simp only [hd, decide_false, Bool.false_eq_true, if_false]
        refine ⟨by simp [hfilt, hc], by simp [Lw, hfilt, hwl], (by intro h; rw [hn] at h; cases h), ?_⟩
        intro i d hid
        rw [hn] at hid
        simp only [Option.some.injEq, Prod.mk.injEq] at hid
        obtain ⟨rfl, rfl⟩ := hid
        refine ⟨p, ?_, h1, h2, ?_⟩
        · have : j < pre.length := by
            rcases Nat.lt_or_ge j pre.length with h | h
            · exact h
            · rw [List.getElem?_eq_none h] at hp; cases hp
          rw [List.getElem?_append_left this]; exact hp
        · intro y hy hty
          rcases List.mem_append.1 hy with hy | hy
          · exact h3 y hy hty
          · simp at hy; subst hy; omega

theorem scanSpec_fold (coord : Nat) (t : Int) : ∀ (l pre : List (Item Int)) (st : Scan Int),
    ScanSpec coord t pre st →
    ScanSpec coord t (pre ++ l) ((l.zipIdx pre.length).foldl (scanStep coord t) st) := by
  intro l
  induction l with
  | nil => intro pre st h; simpa using h
  | cons x xs ih =>
    intro pre st h
    simp only [List.zipIdx_cons, List.foldl_cons]
    have := ih (pre ++ [x]) _ (scanSpec_step coord t pre st x h)
    simpa using this

/-- The fold of `par_rcb_split` in exact arithmetic: count and weight strictly left of the
target, and the nearest item at or right of it (none iff there is none). -/
theorem scan_spec (items : List (Item Int)) (coord : Nat) (t : Int) :
    ScanSpec coord t items (scan items coord t) := by
  have := scanSpec_fold coord t items [] ⟨0, 0, none⟩
    ⟨rfl, rfl, (by intro _ x hx; cases hx), (by intro i d h; cases h)⟩
  simpa [scan] using this

/-- `k` lies in the search interval: `[mn, mx)` once `max` has been assigned, `[mn, mx]`
while it still is the bounding-box bound. -/
def InIv (mn mx : Int) (moved : Bool) (k : Int) : Prop :=
  mn ≤ k ∧ (if moved then k < mx else k ≤ mx)

/-- The final interval is resolved: the items inside it carry at most one distinct
coordinate value. -/
def Resolved (items : List (Item Int)) (coord : Nat) (mn mx : Int) (moved : Bool) : Prop :=
  ∀ x ∈ items, ∀ y ∈ items, InIv mn mx moved (x.key coord) → InIv mn mx moved (y.key coord) →
    x.key coord = y.key coord

/-- Executable form of `InIv` / `Resolved` (for the non-vacuity examples and the driver). -/
def inIvB (mn mx : Int) (moved : Bool) (k : Int) : Bool :=
  decide (mn ≤ k) && (if moved then decide (k < mx) else decide (k ≤ mx))

def resolvedB (items : List (Item Int)) (coord : Nat) (mn mx : Int) (moved : Bool) : Bool :=
  items.all (fun x => items.all (fun y =>
    !(inIvB mn mx moved (x.key coord)) || !(inIvB mn mx moved (y.key coord)) ||
      decide (x.key coord = y.key coord)))

theorem inIvB_iff (mn mx : Int) (moved : Bool) (k : Int) :
    inIvB mn mx moved k = true ↔ InIv mn mx moved k := by
  unfold inIvB InIv
  cases moved <;> simp

theorem resolvedB_iff (items : List (Item Int)) (coord : Nat) (mn mx : Int) (moved : Bool) :
    resolvedB items coord mn mx moved = true ↔ Resolved items coord mn mx moved := by
  unfold resolvedB Resolved
  simp only [List.all_eq_true, Bool.or_eq_true, Bool.not_eq_true', decide_eq_true_eq]
  constructor
  · intro h x hx y hy hxi hyi
    rcases h x hx y hy with (h1 | h1) | h1
    · rw [(inIvB_iff ..).2 hxi] at h1; cases h1
    · rw [(inIvB_iff ..).2 hyi] at h1; cases h1
    · exact h1
  · intro h x hx y hy
    by_cases hxi : inIvB mn mx moved (x.key coord) = true
    · by_cases hyi : inIvB mn mx moved (y.key coord) = true
      · exact Or.inr (h x hx y hy ((inIvB_iff ..).1 hxi) ((inIvB_iff ..).1 hyi))
      · exact Or.inl (Or.inr (by simpa using hyi))
    · exact Or.inl (Or.inl (by simpa using hxi))

/-- Run one search and test its result (for `decide`d examples). -/
def checkSplit (wt : Int → Int → Bool) (coord : Nat) (items : List (Item Int)) (fuel : Nat)
    (mn mx : Int) (P : SplitOut Int → Bool) : Bool :=
  match split wt coord (sumW items) items fuel 0 mn mx none false with
  | .ok out => P out
  | _ => false

/-- `split_invariant`: what the loop of `par_rcb_split` maintains about its interval
(`W` = weight being split): the weight strictly left of `min` is at most the half, the
weight left of `max` (strictly left once `max` was assigned) is at least the half. -/
def Jinv (items : List (Item Int)) (coord : Nat) (W mn mx : Int) (moved : Bool) : Prop :=
  mn ≤ mx ∧ 2 * Lw items coord mn ≤ W ∧
    (if moved then W ≤ 2 * Lw items coord mx else W ≤ 2 * Lle items coord mx)

/-- What a successful search returns (exact arithmetic). -/
def SplitFacts (G : Prop) (items : List (Item Int)) (coord : Nat) (sum : Int) (out : SplitOut Int) :
    Prop :=
  (G → Jinv items coord sum out.lastMin out.lastMax out.maxMoved) ∧
  ((out.exit = .allLeft ∧ out.left = items ∧ out.right = [] ∧ out.weightLeft = sum ∧
      (∀ x ∈ items, x.key coord < (out.lastMin + out.lastMax) / 2)) ∨
   (out.exit ≠ .allLeft ∧ ∃ p ∈ items, (out.lastMin + out.lastMax) / 2 ≤ p.key coord ∧
      (∀ x ∈ items, (out.lastMin + out.lastMax) / 2 ≤ x.key coord → p.key coord ≤ x.key coord) ∧
      (out.left ++ out.right).Perm items ∧
      (∀ x ∈ out.left, x.key coord < p.key coord) ∧
      (∀ x ∈ out.right, ¬ x.key coord < p.key coord) ∧
      out.weightLeft = Lw items coord ((out.lastMin + out.lastMax) / 2)))

theorem split_facts (G : Prop) (wt : Int → Int → Bool) (coord : Nat) (sum : Int)
    (items : List (Item Int)) (hw : ∀ x ∈ items, 0 ≤ x.w) (hsum : sum = sumW items) :
    ∀ (fuel it : Nat) (mn mx : Int) (prev : Option Nat) (mv : Bool) (out : SplitOut Int),
      (G → Jinv items coord sum mn mx mv) →
      split wt coord sum items fuel it mn mx prev mv = .ok out →
      SplitFacts G items coord sum out := by
  intro fuel
  induction fuel with
  | zero => intro it mn mx prev mv out _ h; simp [split] at h
  | succ fuel ih =>
    intro it mn mx prev mv out hJ h
    simp only [split, int_mid, int_add, int_half] at h
    have hs := scan_spec items coord ((mn + mx) / 2)
    split at h
    · next hn =>
      have hall := hs.none_all hn
      split at h
      · cases h
        exact ⟨hJ, Or.inl ⟨rfl, rfl, rfl, rfl, hall⟩⟩
      · refine ih _ _ _ _ _ _ (fun g => ?_) h
        obtain ⟨hJ1, hJ2, hJ3⟩ := hJ g
        refine ⟨by omega, hJ2, ?_⟩
        simp only [if_true]
        have : Lw items coord ((mn + mx) / 2) = sumW items :=
          sumW_filter_total items _ (by intro x hx; simpa using hall x hx)
        have h0 : 0 ≤ sumW items := by
          have := sumW_filter_le_total items (fun _ => false) hw
          rw [List.filter_eq_nil_iff.2 (by intro x _; simp)] at this
          simpa [sumW] using this
        omega
    · next idx nd hn =>
      obtain ⟨p, hp, hpt, _, hpmin⟩ := hs.some_min idx nd hn
      have hpm : p ∈ items := List.mem_iff_getElem?.2 ⟨idx, hp⟩
      split at h
      · next e he =>
        obtain ⟨l', r', e1, hperm, hl, hr, _⟩ := reorderSplit_spec_aux items idx coord p hp
          (by
            intro x _
            simp only [int_le, int_lt]
            by_cases hc : p.key coord ≤ x.key coord <;> simp [hc] <;> omega)
          (by simp [int_lt])
        rw [e1] at h
        cases h
        refine ⟨hJ, Or.inr ⟨?_, p, hpm, hpt, hpmin, hperm, ?_, ?_, hs.wl⟩⟩
        · simp only
          intro hc
          subst hc
          split at he
          · cases he
          · split at he
            · cases he
            · split at he
              · cases he
              · cases he
        · intro x hx; simpa [int_lt] using hl x hx
        · intro x hx; simpa [int_lt] using hr x hx
      · split at h
        · next hlt =>
          refine ih _ _ _ _ _ _ (fun g => ?_) h
          obtain ⟨hJ1, hJ2, hJ3⟩ := hJ g
          refine ⟨by omega, ?_, hJ3⟩
          rw [hs.wl] at hlt
          omega
        · next hlt =>
          refine ih _ _ _ _ _ _ (fun g => ?_) h
          obtain ⟨hJ1, hJ2, hJ3⟩ := hJ g
          refine ⟨by omega, hJ2, ?_⟩
          rw [hs.wl] at hlt
          simp only [if_true]
          omega

/-! ## Termination of the cut search on integers -/

theorem reorderSplit_int_not_fuel (items : List (Item Int)) (idx coord : Nat) (d : Int) (t : Int)
    (hn : (scan items coord t).nearest = some (idx, d)) :
    ∃ l r, reorderSplit items idx coord = .ok (l, r) := by
  obtain ⟨p, hp, _, _, _⟩ := (scan_spec items coord t).some_min idx d hn
  obtain ⟨l', r', e1, _⟩ := reorderSplit_spec_aux items idx coord p hp
    (by
      intro x _
      simp only [int_le, int_lt]
      by_cases hc : p.key coord ≤ x.key coord <;> simp [hc] <;> omega)
    (by simp [int_lt])
  exact ⟨l', r', e1⟩

/-- A target that repeats the previous one makes the search return at once. -/
theorem split_repeat_exits (wt : Int → Int → Bool) (coord : Nat) (sum : Int) (items : List (Item Int))
    (fuel it : Nat) (mn mx : Int) (mv : Bool) :
    split wt coord sum items (fuel + 1) it mn mx
      (some (scan items coord ((mn + mx) / 2)).count) mv ≠ .fuel := by
  intro h
  simp only [split, int_mid, int_add, int_half] at h
  split at h
  · simp at h
  · next idx nd hn =>
    obtain ⟨l, r, e⟩ := reorderSplit_int_not_fuel items idx coord nd _ hn
    simp [e] at h

/-- `par_rcb_split` on integer coordinates terminates: fuel `max − min + 2` suffices. -/
theorem split_terminates_int_aux (wt : Int → Int → Bool) (coord : Nat) (sum : Int)
    (items : List (Item Int)) :
    ∀ (fuel it : Nat) (mn mx : Int) (prev : Option Nat) (mv : Bool),
      mn ≤ mx → (mx - mn).toNat + 2 ≤ fuel →
      split wt coord sum items fuel it mn mx prev mv ≠ .fuel := by
  intro fuel
  induction fuel with
  | zero => intro it mn mx prev mv _ hf; omega
  | succ fuel ih =>
    intro it mn mx prev mv hle hf h
    have hrec : ∀ (mn' mx' : Int) (mv' : Bool), mn' ≤ mx' →
        ((mx' - mn').toNat + 1 ≤ (mx - mn).toNat ∨ (mn' + mx') / 2 = (mn + mx) / 2) →
        split wt coord sum items fuel (it + 1) mn' mx'
          (some (scan items coord ((mn + mx) / 2)).count) mv' ≠ .fuel := by
      intro mn' mx' mv' hle' hcase
      rcases hcase with hc | hc
      · exact ih _ _ _ _ _ hle' (by omega)
      · cases fuel with
        | zero => omega
        | succ f =>
          rw [← hc]
          exact split_repeat_exits wt coord sum items f (it + 1) mn' mx' mv'
    simp only [split, int_mid, int_add, int_half] at h
    split at h
    · split at h
      · cases h
      · exact hrec mn ((mn + mx) / 2) true (by omega) (by omega) h
    · next idx nd hn =>
      split at h
      · obtain ⟨l, r, e⟩ := reorderSplit_int_not_fuel items idx coord nd _ hn
        simp [e] at h
      · split at h
        · exact hrec ((mn + mx) / 2) mx mv (by omega) (by omega) h
        · exact hrec mn ((mn + mx) / 2) true (by omega) (by omega) h

/-- The low side of a successful search weighs `Lw` of the cut value. -/
theorem left_weight (items l r : List (Item Int)) (coord : Nat) (v : Int)
    (hperm : (l ++ r).Perm items) (hl : ∀ x ∈ l, x.key coord < v) (hr : ∀ x ∈ r, ¬ x.key coord < v) :
    sumW l = Lw items coord v := by
  unfold Lw
  rw [← sumW_perm (hperm.filter _), List.filter_append,
    List.filter_eq_self.2 (by intro x hx; simpa using hl x hx),
    List.filter_eq_nil_iff.2 (by intro x hx; simpa using hr x hx), List.append_nil]

/-- Weight reported = weight of the low side actually returned (exact arithmetic). -/
theorem split_reported_weight_aux (wt : Int → Int → Bool) (coord : Nat) (items : List (Item Int))
    (hw : ∀ x ∈ items, 0 ≤ x.w) (fuel : Nat) (mn mx : Int) (out : SplitOut Int)
    (h : split wt coord (sumW items) items fuel 0 mn mx none false = .ok out) :
    out.weightLeft = sumW out.left ∧ sumW items - out.weightLeft = sumW out.right := by
  obtain ⟨_, hf⟩ := split_facts False wt coord _ items hw rfl fuel 0 mn mx none false out
    (fun g => g.elim) h
  rcases hf with ⟨_, h1, h2, h3, _⟩ | ⟨_, p, _, hpt, hpmin, hperm, hl, hr, hwl⟩
  · rw [h1, h2, h3]; simp [sumW]
  · have e1 := left_weight items out.left out.right coord _ hperm hl hr
    have e2 : Lw items coord ((out.lastMin + out.lastMax) / 2) = Lw items coord (p.key coord) := by
      apply sumW_filter_congr
      intro x hx
      by_cases hc : x.key coord < (out.lastMin + out.lastMax) / 2
      · have : x.key coord < p.key coord := by omega
        simp [hc, this]
      · have := hpmin x hx (by omega)
        have h2 : ¬ x.key coord < p.key coord := by omega
        simp [hc, h2]
    have e3 := sumW_perm hperm
    rw [sumW_append] at e3
    rw [hwl, e2, ← e1]
    exact ⟨rfl, by omega⟩

/-- Low-side weights of the achievable cuts of a list of items (cf. `achievable`). -/
def achievableItems (items : List (Item Int)) (coord : Nat) : List Int :=
  sumW items :: items.map (fun x => Lw items coord (x.key coord))

theorem Lw_mono (items : List (Item Int)) (coord : Nat) (hw : ∀ x ∈ items, 0 ≤ x.w) (u v : Int)
    (h : u ≤ v) : Lw items coord u ≤ Lw items coord v :=
  sumW_filter_le items _ _ hw (by intro x _ hx; simp at hx ⊢; omega)

/-- **The resolved-interval lemma.**  If the search starts from an interval that brackets
the half (`Jinv`) and the items inside its FINAL interval carry at most one distinct
coordinate, then – whichever exit was taken – the low side returned is one of the
achievable weights adjacent to the half. -/
theorem split_exit_resolved_aux (wt : Int → Int → Bool) (coord : Nat) (items : List (Item Int))
    (hw : ∀ x ∈ items, 0 ≤ x.w) (fuel : Nat) (mn mx : Int) (out : SplitOut Int)
    (hJ : Jinv items coord (sumW items) mn mx false)
    (h : split wt coord (sumW items) items fuel 0 mn mx none false = .ok out)
    (hres : Resolved items coord out.lastMin out.lastMax out.maxMoved) :
    bracketsHalf (achievableItems items coord) (sumW out.left) (sumW items) = true := by
  obtain ⟨hJ', hf⟩ := split_facts True wt coord _ items hw rfl fuel 0 mn mx none false out
    (fun _ => hJ) h
  obtain ⟨hJ1, hJ2, hJ3⟩ := hJ' trivial
  have hW0 : 0 ≤ sumW items := by
    have := sumW_filter_le_total items (fun _ => false) hw
    rw [List.filter_eq_nil_iff.2 (by intro x _; simp)] at this
    simpa [sumW] using this
  have ht1 : out.lastMin ≤ (out.lastMin + out.lastMax) / 2 := by omega
  have ht2 : (out.lastMin + out.lastMax) / 2 ≤ out.lastMax := by omega
  -- a key `v` with more than half strictly left of it is impossible below the target
  have hlowkey : ∀ y ∈ items, y.key coord < (out.lastMin + out.lastMax) / 2 →
      2 * Lw items coord (y.key coord) ≤ sumW items := by
    intro y hy hyt
    by_cases hmn : out.lastMin ≤ y.key coord
    · have hyin : InIv out.lastMin out.lastMax out.maxMoved (y.key coord) := by
        refine ⟨hmn, ?_⟩
        split <;> omega
      have : Lw items coord (y.key coord) = Lw items coord out.lastMin := by
        apply sumW_filter_congr
        intro x hx
        by_cases hc : x.key coord < out.lastMin
        · have : x.key coord < y.key coord := by omega
          simp [hc, this]
        · by_cases hc2 : x.key coord < y.key coord
          · have hxin : InIv out.lastMin out.lastMax out.maxMoved (x.key coord) := by
              refine ⟨by omega, ?_⟩
              split <;> omega
            have := hres x hx y hy hxin hyin
            omega
          · simp [hc, hc2]
      omega
    · have := Lw_mono items coord hw (y.key coord) out.lastMin (by omega)
      omega
  unfold bracketsHalf
  rw [Bool.and_eq_true, List.contains_iff_mem, List.all_eq_true]
  rcases hf with ⟨_, h1, h2, h3, hall⟩ | ⟨_, p, hpm, hpt, hpmin, hperm, hl, hr, hwl⟩
  · -- everything on the low side
    rw [h1]
    refine ⟨by simp [achievableItems], ?_⟩
    intro a ha
    simp only [achievableItems, List.mem_cons, List.mem_map] at ha
    rcases ha with rfl | ⟨y, hy, rfl⟩
    · simp
    · have h1 : Lw items coord (y.key coord) ≤ sumW items :=
        sumW_filter_le_total items (fun x => decide (x.key coord < y.key coord)) hw
      have h2 := hlowkey y hy (hall y hy)
      simp only [Bool.and_eq_true, Bool.not_eq_true', Bool.and_eq_false_iff]
      simp only [decide_eq_false_iff_not]
      constructor <;> omega
  · have e1 := left_weight items out.left out.right coord _ hperm hl hr
    rw [e1]
    refine ⟨by
      simp only [achievableItems, List.mem_cons, List.mem_map]
      exact Or.inr ⟨p, hpm, rfl⟩, ?_⟩
    intro a ha
    simp only [achievableItems, List.mem_cons, List.mem_map] at ha
    simp only [Bool.and_eq_true, Bool.not_eq_true', Bool.and_eq_false_iff]
    simp only [decide_eq_false_iff_not]
    have hpW : Lw items coord (p.key coord) ≤ sumW items :=
      sumW_filter_le_total items (fun x => decide (x.key coord < p.key coord)) hw
    rcases ha with rfl | ⟨y, hy, rfl⟩
    · constructor <;> omega
    · constructor
      · -- an achievable weight above the cut and strictly below the half
        by_cases hlt : Lw items coord (p.key coord) < Lw items coord (y.key coord)
        · right
          have hyp : p.key coord < y.key coord := by
            rcases Int.lt_or_le (p.key coord) (y.key coord) with h | h
            · exact h
            · have := Lw_mono items coord hw _ _ h; omega
          have hpin1 : out.lastMin ≤ p.key coord := by omega
          -- `y` is outside the interval (else two distinct values inside)
          by_cases hyin : InIv out.lastMin out.lastMax out.maxMoved (y.key coord)
          · have hpin : InIv out.lastMin out.lastMax out.maxMoved (p.key coord) := by
              refine ⟨hpin1, ?_⟩
              have := hyin.2
              split at this <;> split <;> simp_all <;> omega
            have := hres p hpm y hy hpin hyin
            omega
          · cases hmv : out.maxMoved with
            | true =>
              rw [hmv] at hJ3 hyin
              simp only [InIv, if_true] at hyin hJ3
              have : out.lastMax ≤ y.key coord := by
                rcases Int.lt_or_le (y.key coord) out.lastMax with h | h
                · exact absurd ⟨by omega, h⟩ hyin
                · exact h
              have := Lw_mono items coord hw _ _ this
              omega
            | false =>
              rw [hmv] at hJ3 hyin
              simp only [InIv, Bool.false_eq_true, if_false] at hyin hJ3
              have hgt : out.lastMax < y.key coord := by
                rcases Int.lt_or_le out.lastMax (y.key coord) with h | h
                · exact h
                · exact absurd ⟨by omega, h⟩ hyin
              have : Lle items coord out.lastMax ≤ Lw items coord (y.key coord) :=
                sumW_filter_le items _ _ hw (by intro x _ hx; simp at hx ⊢; omega)
              omega
        · left; exact hlt
      · -- an achievable weight below the cut and strictly above the half
        by_cases hlt : Lw items coord (y.key coord) < Lw items coord (p.key coord)
        · right
          have hyp : y.key coord < p.key coord := by
            rcases Int.lt_or_le (y.key coord) (p.key coord) with h | h
            · exact h
            · have := Lw_mono items coord hw _ _ h; omega
          have hyt : y.key coord < (out.lastMin + out.lastMax) / 2 := by
            rcases Int.lt_or_le (y.key coord) ((out.lastMin + out.lastMax) / 2) with h | h
            · exact h
            · have := hpmin y hy h; omega
          have := hlowkey y hy hyt
          omega
        · left; exact hlt

end Coupe.Rcb
