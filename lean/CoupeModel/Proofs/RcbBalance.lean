import CoupeModel.Model.Rcb
import CoupeModel.Proofs.Rcb

/-!
# C04 vocabulary and lemmas: balance of every bisection

`wOf`, `achievable`, `bracketsHalf`, `nodeOk`, `balanced` are the *specification* (all
decidable, written over the input points/weights and the member lists of the tree only –
nothing the cut search reports is believed).
-/

namespace Coupe.Rcb

variable {α : Type} [Coord α]

/-- Total weight of the points `ids`. -/
def wOf (ws : List Int) (ids : List Nat) : Int := (ids.map (fun i => ws.getD i 0)).sum

/-- The low-side weights of all achievable cuts of the node holding the points `ids`,
on axis `coord`: for every coordinate value `v` present, the weight of the points with a
strictly smaller coordinate; and the whole node (cut above everything). -/
def achievable (pts : List (List α)) (ws : List Int) (coord : Nat) (ids : List Nat) : List Int :=
  wOf ws ids :: ids.map (fun i =>
    wOf ws (ids.filter (fun j => Coord.lt (ptKey pts j coord) (ptKey pts i coord))))

/-- `wl` is one of the two achievable low-side weights that bracket `W/2`: it is achievable
and no achievable weight lies strictly between it and the half (so moving the cut past one
more distinct coordinate value, towards the half, crosses the half). -/
def bracketsHalf (A : List Int) (wl W : Int) : Bool :=
  A.contains wl &&
    A.all (fun a => !(decide (wl < a) && decide (2 * a < W)) && !(decide (a < wl) && decide (W < 2 * a)))

/-- C04 at one bisection: low side `lo`, high side `hi`, axis `coord`; `wt wl W` is the
tolerance test `|wl − W/2| ≤ tolerance · W/2`. -/
def nodeOk (wt : Int → Int → Bool) (pts : List (List α)) (ws : List Int) (coord : Nat)
    (lo hi : List Nat) : Bool :=
  let wl := wOf ws lo
  let W := wOf ws (lo ++ hi)
  wt wl W || bracketsHalf (achievable pts ws coord (lo ++ hi)) wl W

/-- C04 at every bisection of a tree. -/
def balanced (wt : Int → Int → Bool) (pts : List (List α)) (ws : List Int) :
    Tree (NodeInfo α) → Bool
  | .empty => true
  | .leaf _ _ => true
  | .node i lo hi =>
    nodeOk wt pts ws i.coord lo.members hi.members && balanced wt pts ws lo && balanced wt pts ws hi

/-- The nodes of a tree in pre-order: `(exit, ok?)`. -/
def verdicts (wt : Int → Int → Bool) (pts : List (List α)) (ws : List Int) :
    Tree (NodeInfo α) → List (Exit × Bool)
  | .empty => []
  | .leaf _ _ => []
  | .node i lo hi =>
    (i.exit, nodeOk wt pts ws i.coord lo.members hi.members) ::
      (verdicts wt pts ws lo ++ verdicts wt pts ws hi)

/-- Run `rcb` (bounding box of the points) and judge every bisection. -/
def judge (wt : Int → Int → Bool) (cfg : Cfg) (iter : Nat) (pts : List (List α)) (ws : List Int) :
    Option (List (Exit × Bool)) :=
  let bb := bbox cfg.dim pts
  match runTree wt cfg iter pts ws bb.1 bb.2 with
  | .ok t => some (verdicts wt pts ws t)
  | _ => none

theorem balanced_iff_verdicts (wt : Int → Int → Bool) (pts : List (List α)) (ws : List Int)
    (t : Tree (NodeInfo α)) :
    balanced wt pts ws t = true ↔ ∀ v ∈ verdicts wt pts ws t, v.2 = true := by
  induction t with
  | empty => simp [balanced, verdicts]
  | leaf p ids => simp [balanced, verdicts]
  | node i lo hi ihl ihh =>
    simp only [balanced, verdicts, Bool.and_eq_true, ihl, ihh, List.mem_cons, List.mem_append]
    constructor
    · rintro ⟨⟨h1, h2⟩, h3⟩ v (rfl | hv | hv)
      · exact h1
      · exact h2 v hv
      · exact h3 v hv
    · intro h
      exact ⟨⟨h _ (Or.inl rfl), fun v hv => h v (Or.inr (Or.inl hv))⟩,
        fun v hv => h v (Or.inr (Or.inr hv))⟩

/-- Exact tolerance tests for the integer witnesses: tolerance 0 and tolerance 1/20. -/
def tolZero (wl sum : Int) : Bool := decide (2 * wl = sum)
def tolTwentieth (wl sum : Int) : Bool := decide (20 * (2 * wl - sum).natAbs ≤ sum)

/-! ## The tolerance exit -/

/-- `imbalance <= tolerance` is the only way to the `tolerance` exit. -/
theorem split_exit_tol_aux (wt : Int → Int → Bool) (coord : Nat) (sum : Int) (items : List (Item α)) :
    ∀ (fuel it : Nat) (mn mx : α) (prev : Option Nat) (out : SplitOut α),
      split wt coord sum items fuel it mn mx prev = .ok out → out.exit = .tolerance →
      wt out.weightLeft sum = true := by
  intro fuel
  induction fuel with
  | zero => intro it mn mx prev out h; simp [split] at h
  | succ fuel ih =>
    intro it mn mx prev out h he
    simp only [split] at h
    split at h
    · split at h
      · cases h; cases he
      · exact ih _ _ _ _ _ h he
    · next idx nd hn =>
      split at h
      · next e hex =>
        split at h
        · cases h
        · cases h
        · next l r hr =>
          cases h
          simp only at he
          subst he
          split at hex
          · cases hex
          · split at hex
            · cases hex
            · split at hex
              · next hw => exact hw
              · cases hex
      · split at h
        · exact ih _ _ _ _ _ h he
        · exact ih _ _ _ _ _ h he

end Coupe.Rcb
