import CoupeModel.Model.Par
import CoupeModel.Model.Sfc
import CoupeModel.Proofs.Par
import CoupeModel.Proofs.Sfc
import CoupeModel.Props.C06
import CoupeModel.Props.C09

/-!
# Schedule independence of whole algorithms (C06, second layer): ZCurve and HilbertCurve

Both algorithms compute, per point, a value that depends only on the point (its position
in the sorted permutation / its curve index and the split positions) and store it in the
point's own cell.  What rayon decides is the order of the stores, how `map(..).collect()`
is cut, and (Hilbert) the split trees of the `part_weights` fold in every pass of
`weighted_quantiles` and of the `min_by`/`max_by` of the indices.
-/

namespace Coupe.ParAlgos

open Coupe.Par Coupe.Sfc

/-! ## ZCurve -/

/-- The stores of `z_curve_partition`'s `for_each`: `partition[perm[pos]] = chunkId pos`. -/
def zWrites (n k : Nat) (perm : List Nat) : List (Nat × Nat) :=
  perm.zipIdx.map (fun x => (x.1, ZCurve.chunkId n k x.2))

/-- `ZCurve.writeIds` with the stores performed in the order `stores` puts them. -/
def zWriteIdsT (stores : List (Nat × Nat) → List (Nat × Nat)) (n k : Nat) (perm p0 : List Nat) :
    List Nat :=
  disjointWrites p0 (stores (zWrites n k perm))

/-- `ZCurve.partition` under a store order (`z_curve_partition_recurse` has no other schedule
dependence: its `for_each` over the sub-slices runs a pure function on disjoint slices, and
`par_sort_unstable_by_key` is the parameter `sortBy`). -/
def zPartitionT (stores : List (Nat × Nat) → List (Nat × Nat)) (dim order k : Nat)
    (sortBy : (Nat → Nat) → List Nat → List Nat) (region : List Nat → Nat → Nat) (n : Nat)
    (p0 : List Nat) : ZCurve.Outcome :=
  if p0.length ≠ n then .panic "assertion `left == right` failed"
  else if ZCurve.maxOrder dim < order then .panic "Cannot use the z-curve partition algorithm"
  else if n = 0 then .ok p0
  else
    match ZCurve.sortRec (2 ^ dim) sortBy region order [] (List.range n) with
    | none => .panic "z_curve_partition_recurse"
    | some perm =>
      if k = 0 then .panic "attempt to divide by zero"
      else .ok (zWriteIdsT stores n k perm p0)

theorem writeIds_eq_disjointWrites (n k : Nat) (perm p0 : List Nat) :
    ZCurve.writeIds n k perm p0 = disjointWrites p0 (zWrites n k perm) := by
  simp only [ZCurve.writeIds, disjointWrites, zWrites, List.foldl_map, write]

theorem zWrites_targets (n k : Nat) (perm : List Nat) : (zWrites n k perm).map (·.1) = perm := by
  simp only [zWrites, List.map_map]
  have : ((fun x : Nat × Nat => x.1) ∘ fun x : Nat × Nat => (x.1, ZCurve.chunkId n k x.2)) = Prod.fst := rfl
  rw [this, List.zipIdx_map_fst]

theorem zWriteIdsT_eq (stores : List (Nat × Nat) → List (Nat × Nat))
    (hst : ∀ ws : List (Nat × Nat), ws.Perm (stores ws)) (n k : Nat) (perm p0 : List Nat)
    (hnd : perm.Nodup) : zWriteIdsT stores n k perm p0 = ZCurve.writeIds n k perm p0 := by
  rw [writeIds_eq_disjointWrites]
  unfold zWriteIdsT
  symm
  apply disjointWrites_comm _ _ _ _ (hst _)
  rw [zWrites_targets]
  exact hnd

theorem zPartitionT_eq (stores : List (Nat × Nat) → List (Nat × Nat))
    (hst : ∀ ws : List (Nat × Nat), ws.Perm (stores ws)) (dim order k : Nat)
    (sortBy : (Nat → Nat) → List Nat → List Nat) (hs : ZCurve.SortSpec sortBy)
    (region : List Nat → Nat → Nat) (hreg : ∀ path i, region path i < 2 ^ dim) (n : Nat)
    (p0 : List Nat) :
    zPartitionT stores dim order k sortBy region n p0 = ZCurve.partition dim order k sortBy region n p0 := by
  unfold zPartitionT ZCurve.partition
  obtain ⟨perm, hsome, hperm, _⟩ := ZCurve.zsort_sorted dim sortBy hs region hreg order (List.range n)
  rw [hsome]
  simp only
  rw [zWriteIdsT_eq stores hst n k perm p0 (hperm.nodup_iff.2 List.nodup_range)]
  -- `ZCurve.partition` may write through the array-backed `writeIdsA` (same function:
  -- `ZCurve.writeIdsA_toList`); with the list version the rewrite above already closes the goal
  all_goals (first | rfl | simp only [ZCurve.writeIdsA_toList])

/-! ## HilbertCurve -/

/-- Minimum of two `Option`s (`None` = no item yet): the reduce operator of `min_by`. -/
def optMin : Option Nat → Option Nat → Option Nat
  | none, b => b
  | a, none => a
  | some a, some b => some (min a b)

def optMax : Option Nat → Option Nat → Option Nat
  | none, b => b
  | a, none => a
  | some a, some b => some (max a b)

/-- `points.par_iter().min_by(partial_cmp)` on `u64`s along a split tree (value level: equal
minima are indistinguishable). -/
def parMin (t : SplitTree) (xs : List Nat) : Option (Option Nat) :=
  parFoldWith (fun a x => optMin a (some x)) optMin none t xs

def parMax (t : SplitTree) (xs : List Nat) : Option (Option Nat) :=
  parFoldWith (fun a x => optMax a (some x)) optMax none t xs

theorem parMin_schedule_free (t : SplitTree) (xs : List Nat) :
    parMin t xs = some (xs.foldl (fun a x => optMin a (some x)) none) := by
  unfold parMin
  refine parFoldWith_eq_foldl_of_comm_idem optMin none some _ ?_ ?_ rfl (fun _ _ => rfl) t xs
  · intro a b c
    cases a <;> cases b <;> cases c <;> simp [optMin, Nat.min_assoc]
  · intro a b
    cases a <;> cases b <;> simp [optMin, Nat.min_comm]

theorem parMax_schedule_free (t : SplitTree) (xs : List Nat) :
    parMax t xs = some (xs.foldl (fun a x => optMax a (some x)) none) := by
  unfold parMax
  refine parFoldWith_eq_foldl_of_comm_idem optMax none some _ ?_ ?_ rfl (fun _ _ => rfl) t xs
  · intro a b c
    cases a <;> cases b <;> cases c <;> simp [optMax, Nat.max_assoc]
  · intro a b
    cases a <;> cases b <;> simp [optMax, Nat.max_comm]

/-- Everything rayon decides during one call of `hilbert_curve_partition`. -/
structure HilbertSched where
  /-- `points.par_iter().map(index_fn).collect()` -/
  idxTree : SplitTree
  /-- `min_by` / `max_by` of the indices (`rayon::join`) -/
  minTree : SplitTree
  maxTree : SplitTree
  /-- pass number of the `while todo_split_count > 0` loop ↦ split tree of its `part_weights` fold -/
  pwTree : Nat → SplitTree
  /-- order of the stores `*part = part_id` -/
  stores : List (Nat × Nat) → List (Nat × Nat)

def HilbertSched.Valid (s : HilbertSched) : Prop := ∀ ws : List (Nat × Nat), ws.Perm (s.stores ws)

/-- `splits.binary_search_by(|split| partial_cmp(&split.position, p))`: the slot of a point
(as in `Sfc.Hilbert.partWeights`). -/
def bucketOf (positions : List Nat) (x : Nat) : Nat :=
  (bsearchBy positions.length (fun i => if positions.getD i 0 < x then .lt else .gt)).idx

/-- The only access the refinement loop of `weighted_quantiles` has to points and weights:
pass number, current split positions ↦ per-part weights (integer weights). -/
def pwOracle (pwTree : Nat → SplitTree) (n : Nat) (idxs : List Nat) (ws : List Int) :
    Nat → List Nat → Option (List Int) :=
  fun pass positions => parPartWeights (bucketOf positions) n (pwTree pass) (idxs.zip ws)

/-- The stores of `partition_indexed`'s last `for_each`. -/
def hWrites (ids : List Nat) : List (Nat × Nat) := ids.zipIdx.map (fun x => (x.2, x.1))

/-- `hilbert_curve.rs: partition_indexed` under the schedule `s`.  `indexFn` is the encoder
(C08), `loop` the sequential part of `weighted_quantiles`' refinement – ANY function of the
extreme indices and of the part-weight oracle (the real loop is one: everything it does
between two `part_weights` folds is sequential code on `splits` and `part_weights`); the
final sort and the lookup are `Sfc.Hilbert.partitionIndexed`. -/
def hilbertT {P : Type} (s : HilbertSched) (indexFn : P → Nat)
    (loop : Option (Option Nat) → Option (Option Nat) → (Nat → List Nat → Option (List Int)) → List Nat)
    (pts : List P) (ws : List Int) (n : Nat) (p0 : List Nat) : List Nat :=
  let idxs := parMapCollect indexFn s.idxTree pts
  let positions := loop (parMin s.minTree idxs) (parMax s.maxTree idxs) (pwOracle s.pwTree n idxs ws)
  disjointWrites p0 (s.stores (hWrites (Hilbert.partitionIndexed idxs positions)))

/-- The sequential schedule. -/
def HilbertSched.seq : HilbertSched := ⟨.leaf, .leaf, .leaf, fun _ => .leaf, id⟩

theorem pwOracle_schedule_free (t t' : Nat → SplitTree) (n : Nat) (idxs : List Nat) (ws : List Int) :
    pwOracle t n idxs ws = pwOracle t' n idxs ws := by
  funext pass positions
  exact (hilbert_partweights_schedule_free _ n (t pass) (t' pass) _).1

theorem hWrites_targets (ids : List Nat) : (hWrites ids).map (·.1) = List.range ids.length := by
  simp only [hWrites, List.map_map]
  have : ((fun x : Nat × Nat => x.1) ∘ fun x : Nat × Nat => (x.2, x.1)) = Prod.snd := rfl
  rw [this, List.zipIdx_map_snd, List.range_eq_range']

/-- Writing `ids[i]` to cell `i` for every `i` leaves `ids`. -/
theorem disjointWrites_hWrites (p0 ids : List Nat) (h : p0.length = ids.length) :
    disjointWrites p0 (hWrites ids) = ids := by
  have hnd : ((hWrites ids).map (·.1)).Nodup := by rw [hWrites_targets]; exact List.nodup_range
  apply List.ext_getElem?
  intro i
  by_cases hi : i < ids.length
  · rw [disjointWrites_get_of_mem (hWrites ids) i ids[i] p0 hnd ?_ (by omega)]
    · simp [hi]
    · simp only [hWrites, List.mem_map, Prod.mk.injEq, Prod.exists, List.mem_zipIdx_iff_getElem?]
      exact ⟨ids[i], i, by simp [hi], rfl, rfl⟩
  · rw [List.getElem?_eq_none (by rw [disjointWrites_length]; omega), List.getElem?_eq_none (by omega)]

theorem hilbertT_schedule_free {P : Type} (s s' : HilbertSched) (hs : s.Valid) (hs' : s'.Valid)
    (indexFn : P → Nat)
    (loop : Option (Option Nat) → Option (Option Nat) → (Nat → List Nat → Option (List Int)) → List Nat)
    (pts : List P) (ws : List Int) (n : Nat) (p0 : List Nat) :
    hilbertT s indexFn loop pts ws n p0 = hilbertT s' indexFn loop pts ws n p0 := by
  unfold hilbertT
  simp only [parMapCollect_order_free, parMin_schedule_free, parMax_schedule_free,
    pwOracle_schedule_free s.pwTree s'.pwTree]
  have hnd : ∀ ids : List Nat, ((hWrites ids).map (·.1)).Nodup := by
    intro ids; rw [hWrites_targets]; exact List.nodup_range
  rw [← disjointWrites_comm p0 _ _ (hnd _) (hs _), ← disjointWrites_comm p0 _ _ (hnd _) (hs' _)]

theorem hilbertT_seq {P : Type} (s : HilbertSched) (hs : s.Valid) (indexFn : P → Nat)
    (loop : Option (Option Nat) → Option (Option Nat) → (Nat → List Nat → Option (List Int)) → List Nat)
    (pts : List P) (ws : List Int) (n : Nat) (p0 : List Nat) (hp0 : p0.length = pts.length) :
    hilbertT s indexFn loop pts ws n p0 =
      Hilbert.partitionIndexed (pts.map indexFn)
        (loop (some ((pts.map indexFn).foldl (fun a x => optMin a (some x)) none))
          (some ((pts.map indexFn).foldl (fun a x => optMax a (some x)) none))
          (pwOracle (fun _ => .leaf) n (pts.map indexFn) ws)) := by
  unfold hilbertT
  simp only [parMapCollect_order_free, parMin_schedule_free, parMax_schedule_free,
    pwOracle_schedule_free s.pwTree (fun _ => .leaf)]
  have hnd : ∀ ids : List Nat, ((hWrites ids).map (·.1)).Nodup := by
    intro ids; rw [hWrites_targets]; exact List.nodup_range
  rw [← disjointWrites_comm p0 _ _ (hnd _) (hs _)]
  apply disjointWrites_hWrites
  simp [Hilbert.partitionIndexed, Hilbert.assign, hp0]

end Coupe.ParAlgos
