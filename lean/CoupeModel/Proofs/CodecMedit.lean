import CoupeModel.Proofs.Codec

/-!
# Lemmas for C19: MEDIT binary (version 4, little-endian) writer → reader
-/

namespace Coupe.Codec

/-- the closures `parse_binary` selects for what the writer emits. -/
def fmt4 : BinFmt := ⟨true, 8, 8⟩

def InI64 (i : Int) : Prop := -9223372036854775808 ≤ i ∧ i < 9223372036854775808

instance (i : Int) : Decidable (InI64 i) :=
  inferInstanceAs (Decidable (-9223372036854775808 ≤ i ∧ i < 9223372036854775808))

theorem asUsize_nat (n : Nat) (h : n < 18446744073709551616) : asUsize (n : Int) = n := by
  unfold asUsize ofI64; omega

theorem readInt8_encI64 (i : Int) (rest : List Nat) (h : InI64 i) :
    fmt4.readInt 8 (encI64 i ++ rest) = some (i, rest) := by
  unfold BinFmt.readInt encI64
  rw [readN_toLE]
  simp only [fmt4, BinFmt.nat, if_true, fromLE_toLE8 _ (ofI64_lt i), toI64_ofI64 i h.1 h.2]
  rfl

theorem readInt8_toLE (n : Nat) (rest : List Nat) (h : n < 9223372036854775808) :
    fmt4.readInt 8 (toLE 8 n ++ rest) = some ((n : Int), rest) := by
  unfold BinFmt.readInt
  rw [readN_toLE]
  simp only [fmt4, BinFmt.nat, if_true, fromLE_toLE8 n (by omega)]
  have : toI64 n = (n : Int) := by unfold toI64; rw [if_pos h]
  rw [this]; rfl

theorem readInt4_toLE (f : BinFmt) (hf : f.le = true) (n : Nat) (rest : List Nat)
    (h : n < 2147483648) :
    f.readInt 4 (toLE 4 n ++ rest) = some ((n : Int), rest) := by
  unfold BinFmt.readInt
  rw [readN_toLE]
  simp only [BinFmt.nat, hf, if_true, fromLE_toLE4 n (by omega)]
  have : toI32 n = (n : Int) := by unfold toI32; rw [if_pos h]
  rw [this]

theorem readInt4_lit (f : BinFmt) (hf : f.le = true) (n : Nat) (i : Int) (hi : i = (n : Int))
    (rest : List Nat) (h : n < 2147483648) :
    f.readInt 4 (toLE 4 n ++ rest) = some (i, rest) := by
  rw [hi]; exact readInt4_toLE f hf n rest h

theorem readFloats_enc (cs rest : List Nat) (h : ∀ x ∈ cs, x < 18446744073709551616) :
    readFloats fmt4 cs.length (cs.flatMap (toLE 8) ++ rest) = .ok (cs, rest) := by
  induction cs with
  | nil => rfl
  | cons a as ih =>
    simp only [List.flatMap_cons, List.length_cons, List.append_assoc, readFloats, readN_toLE]
    rw [ih (fun x hx => h x (List.mem_cons_of_mem _ hx))]
    simp only [fmt4, BinFmt.nat, if_true, fromLE_toLE8 a (h a List.mem_cons_self)]

theorem readVertsB_enc (d : Nat) (rs : List Int) : ∀ (cs rest : List Nat),
    cs.length = d * rs.length → (∀ x ∈ cs, x < 18446744073709551616) → (∀ r ∈ rs, InI64 r) →
    readVertsB fmt4 d rs.length (encVerts d cs rs ++ rest) = .ok (cs, rs, rest) := by
  induction rs with
  | nil =>
    intro cs rest hl _ _
    have : cs = [] := List.eq_nil_of_length_eq_zero (by simpa using hl)
    subst this; rfl
  | cons r rs ih =>
    intro cs rest hl hc hr
    have hd : d ≤ cs.length := by
      rw [hl, List.length_cons, Nat.mul_succ]; omega
    have htl : (cs.take d).length = d := by rw [List.length_take]; omega
    have hdl : (cs.drop d).length = d * rs.length := by
      rw [List.length_drop, hl, List.length_cons, Nat.mul_succ]; omega
    simp only [encVerts, if_neg (Nat.not_lt.mpr hd), List.length_cons, readVertsB,
      List.append_assoc]
    have h1 := readFloats_enc (cs.take d)
      (encI64 r ++ (encVerts d (cs.drop d) rs ++ rest))
      (fun x hx => hc x (List.mem_of_mem_take hx))
    rw [htl] at h1
    rw [h1]
    simp only [fmt4] at *
    have h2 := readInt8_encI64 r (encVerts d (cs.drop d) rs ++ rest) (hr r List.mem_cons_self)
    simp only [fmt4] at h2
    rw [h2]
    simp only []
    rw [ih (cs.drop d) rest hdl (fun x hx => hc x (List.mem_of_mem_drop hx))
      (fun r' hr' => hr r' (List.mem_cons_of_mem _ hr'))]
    simp only [List.take_append_drop]

theorem readNodesB_enc (ns rest : List Nat) (h : ∀ n ∈ ns, n + 1 < 9223372036854775808) :
    readNodesB fmt4 ns.length (ns.flatMap encNode ++ rest) = .ok (ns, rest) := by
  induction ns with
  | nil => rfl
  | cons a as ih =>
    have ha := h a List.mem_cons_self
    simp only [List.flatMap_cons, List.length_cons, List.append_assoc, readNodesB, encNode]
    have h2 := readInt8_toLE (a + 1) (List.flatMap encNode as ++ rest) ha
    simp only [fmt4] at h2 ih ⊢
    rw [h2]
    simp only []
    have h3 : asUsize ((a + 1 : Nat) : Int) = a + 1 := asUsize_nat _ (by omega)
    rw [h3, if_neg (by omega), ih (fun n hn => h n (List.mem_cons_of_mem _ hn))]
    simp

theorem readElemsB_enc (k : Nat) (hk : 1 ≤ k) (rs : List Int) : ∀ (ns rest : List Nat),
    ns.length = k * rs.length → (∀ n ∈ ns, n + 1 < 9223372036854775808) → (∀ r ∈ rs, InI64 r) →
    readElemsB fmt4 k rs.length (encElems k ns rs ++ rest) = .ok (ns, rs, rest) := by
  induction rs with
  | nil =>
    intro ns rest hl _ _
    have : ns = [] := List.eq_nil_of_length_eq_zero (by simpa using hl)
    subst this; rfl
  | cons r rs ih =>
    intro ns rest hl hc hr
    have hd : k ≤ ns.length := by
      rw [hl, List.length_cons, Nat.mul_succ]; omega
    have hne : ns ≠ [] := by
      intro h0; subst h0; simp at hd; omega
    have htl : (ns.take k).length = k := by rw [List.length_take]; omega
    have hdl : (ns.drop k).length = k * rs.length := by
      rw [List.length_drop, hl, List.length_cons, Nat.mul_succ]; omega
    simp only [encElems, if_neg hne, List.length_cons, readElemsB, List.append_assoc]
    have h1 := readNodesB_enc (ns.take k)
      (encI64 r ++ (encElems k (ns.drop k) rs ++ rest))
      (fun x hx => hc x (List.mem_of_mem_take hx))
    rw [htl] at h1
    rw [h1]
    have h2 := readInt8_encI64 r (encElems k (ns.drop k) rs ++ rest) (hr r List.mem_cons_self)
    simp only [fmt4] at h2 ⊢
    rw [h2]
    simp only []
    have h3 := ih (ns.drop k) rest hdl (fun x hx => hc x (List.mem_of_mem_drop hx))
      (fun r' hr' => hr r' (List.mem_cons_of_mem _ hr'))
    simp only [fmt4] at h3
    rw [h3]
    simp only [List.take_append_drop]

/-- the element types of the property's quantifier. -/
def Quantified (t : ElemType) : Prop :=
  t = .edge ∨ t = .triangle ∨ t = .quadrilateral ∨ t = .tetrahedron ∨ t = .hexahedron

/-- what `Mesh::from_raw_parts` asserts of a block, plus the ranges of `usize`
node indices (`node + 1` must fit `i64`), `isize` references and `Vec` sizes. -/
structure GoodBlock (b : Block) : Prop where
  ty : Quantified b.ty
  len : b.nodes.length = b.ty.nodeCount * b.refs.length
  nodes : ∀ n ∈ b.nodes, n + 1 < 9223372036854775808
  refs : ∀ r ∈ b.refs, InI64 r
  size : b.nodes.length < 1152921504606846976

theorem nodeCount_pos (t : ElemType) : 1 ≤ t.nodeCount := by cases t <;> decide
theorem nodeCount_le (t : ElemType) : t.nodeCount ≤ 8 := by cases t <;> decide

theorem encBlocks_length (pos : Nat) (blocks : List Block) (h : ∀ b ∈ blocks, b.ty ≠ .vertex) :
    blocks.length < (encBlocks pos blocks).length := by
  induction blocks generalizing pos with
  | nil => simp [encBlocks, toLE_length]
  | cons b bs ih =>
    have := ih (pos + 8 * b.refs.length * (b.ty.nodeCount + 1) + 20)
      (fun b' hb' => h b' (List.mem_cons_of_mem _ hb'))
    simp only [encBlocks, if_neg (h b List.mem_cons_self), List.length_append, toLE_length,
      List.length_cons]
    omega

theorem Quantified.ne_vertex {t : ElemType} (h : Quantified t) : t ≠ .vertex := by
  rcases h with h | h | h | h | h <;> subst h <;> decide

theorem binLoop_encBlocks (blocks : List Block) : ∀ (pos fuel : Nat) (m : Mesh),
    blocks.length < fuel → (∀ b ∈ blocks, GoodBlock b) →
    binLoop fmt4 fuel (encBlocks pos blocks) m = .ok { m with topo := m.topo ++ blocks } := by
  induction blocks with
  | nil =>
    intro pos fuel m hf _
    obtain ⟨f, rfl⟩ : ∃ f, fuel = f + 1 := ⟨fuel - 1, by simp at hf; omega⟩
    have := readInt4_toLE fmt4 rfl 54 [] (by decide)
    simp only [List.append_nil] at this
    simp only [encBlocks, binLoop, this]
    simp
  | cons b bs ih =>
    intro pos fuel m hf hg
    obtain ⟨f, rfl⟩ : ∃ f, fuel = f + 1 := ⟨fuel - 1, by simp at hf; omega⟩
    have g := hg b List.mem_cons_self
    have hcnt : b.refs.length < 1152921504606846976 := by
      have := g.len; have := g.size; have := nodeCount_pos b.ty
      rcases Nat.lt_or_ge b.refs.length 1152921504606846976 with h | h
      · exact h
      · have : b.ty.nodeCount * b.refs.length ≥ 1 * b.refs.length := Nat.mul_le_mul_right _ ‹_›
        omega
    have hcode : b.ty.code < 2147483648 ∧ (b.ty.code : Int) ≠ 54 ∧ (b.ty.code : Int) ≠ 4 ∧
        ElemType.fromCode (b.ty.code : Int) = some b.ty := by
      rcases g.ty with h | h | h | h | h <;> rw [h] <;> decide
    obtain ⟨hc1, hc2, hc3, hc4⟩ := hcode
    simp only [encBlocks, if_neg g.ty.ne_vertex, List.append_assoc, binLoop]
    rw [readInt4_toLE fmt4 rfl _ _ hc1]
    simp only [if_neg hc2, if_neg hc3, hc4]
    have hp : ∀ (n : Nat) (rest : List Nat), ∃ v, fmt4.readInt 8 (toLE 8 n ++ rest) = some (v, rest) := by
      intro n rest
      unfold BinFmt.readInt; rw [readN_toLE]; exact ⟨_, rfl⟩
    obtain ⟨v, hv⟩ := hp (pos + 8 * b.refs.length * (b.ty.nodeCount + 1) + 20)
      (toLE 8 b.refs.length ++ (encElems b.ty.nodeCount b.nodes b.refs ++
        encBlocks (pos + 8 * b.refs.length * (b.ty.nodeCount + 1) + 20) bs))
    have hv' := hv
    simp only [fmt4] at hv' ⊢
    rw [hv']
    simp only []
    have h2 := readInt8_toLE b.refs.length (encElems b.ty.nodeCount b.nodes b.refs ++
        encBlocks (pos + 8 * b.refs.length * (b.ty.nodeCount + 1) + 20) bs) (by omega)
    simp only [fmt4] at h2
    rw [h2]
    simp only [asUsize_nat b.refs.length (by omega)]
    have hmul : mulCap b.ty.nodeCount b.refs.length = .ok () := by
      have := g.len; have := g.size
      unfold mulCap capOk
      rw [if_neg (by omega), if_neg (by simp only [decide_eq_true_eq]; omega)]
    have hcap : capOk 8 b.refs.length = true := by
      unfold capOk; simp only [decide_eq_true_eq]; omega
    simp only [hmul, hcap, not_true_eq_false, if_false]
    have h3 := readElemsB_enc b.ty.nodeCount (nodeCount_pos _) b.refs b.nodes
      (encBlocks (pos + 8 * b.refs.length * (b.ty.nodeCount + 1) + 20) bs) g.len g.nodes g.refs
    simp only [fmt4] at h3
    rw [h3]
    simp only []
    have h4 := ih (pos + 8 * b.refs.length * (b.ty.nodeCount + 1) + 20) f
      { m with topo := m.topo ++ [⟨b.ty, b.nodes, b.refs⟩] }
      (by simp at hf; omega) (fun b' hb' => hg b' (List.mem_cons_of_mem _ hb'))
    simp only [fmt4] at h4
    rw [h4]
    simp

/-- a mesh as `Mesh::from_raw_parts` accepts it, with the value ranges of the
Rust types (`f64` patterns, `isize` refs, `Vec` sizes). -/
structure GoodMesh (m : Mesh) : Prop where
  dim1 : 1 ≤ m.dim
  dim2 : m.dim < 2147483648
  clen : m.coords.length = m.dim * m.nodeRefs.length
  coords : ∀ x ∈ m.coords, x < 18446744073709551616
  nrefs : ∀ r ∈ m.nodeRefs, InI64 r
  size : m.coords.length < 1152921504606846976
  blocks : ∀ b ∈ m.topo, GoodBlock b

theorem decode_encodeMeditBin (m : Mesh) (g : GoodMesh m) :
    decodeMeditBin (encodeMeditBin m) = .ok m := by
  have hnv : m.nodeRefs.length < 1152921504606846976 := by
    have := g.clen; have := g.size; have := g.dim1
    rcases Nat.lt_or_ge m.nodeRefs.length 1152921504606846976 with h | h
    · exact h
    · have : m.dim * m.nodeRefs.length ≥ 1 * m.nodeRefs.length := Nat.mul_le_mul_right _ ‹_›
      omega
  simp only [decodeMeditBin, encodeMeditBin, List.append_assoc, readN_toLE]
  have hm : fromLE (toLE 4 1) = 1 := by decide
  simp only [hm, ne_eq, not_true_eq_false, false_and, if_false, decide_true]
  rw [readInt4_lit ⟨true, 4, 4⟩ rfl 4 4 rfl _ (by decide)]
  simp only [Int.reduceEq, if_false, if_true, not_true_eq_false, and_false, not_false_eq_true]
  rw [readInt4_lit ⟨true, 8, 8⟩ rfl 3 3 rfl _ (by decide)]
  simp only [not_true_eq_false, if_false]
  have h24 := readInt8_toLE 24 (toLE 4 m.dim ++ (toLE 4 4 ++ (toLE 8 (24 + 8 * m.nodeRefs.length * (m.dim + 1) + 20) ++
      (toLE 8 m.nodeRefs.length ++ (encVerts m.dim m.coords m.nodeRefs ++
        encBlocks (24 + 8 * m.nodeRefs.length * (m.dim + 1) + 20) m.topo))))) (by decide)
  simp only [fmt4] at h24
  rw [h24]
  simp only []
  rw [readInt4_toLE ⟨true, 8, 8⟩ rfl m.dim _ g.dim2]
  simp only [asUsize_nat m.dim (by have := g.dim2; omega)]
  -- the loop: first the vertex section
  have hlen : m.topo.length + 1 <
      (toLE 4 4 ++ (toLE 8 (24 + 8 * m.nodeRefs.length * (m.dim + 1) + 20) ++
      (toLE 8 m.nodeRefs.length ++ (encVerts m.dim m.coords m.nodeRefs ++
        encBlocks (24 + 8 * m.nodeRefs.length * (m.dim + 1) + 20) m.topo)))).length + 1 := by
    have := encBlocks_length (24 + 8 * m.nodeRefs.length * (m.dim + 1) + 20) m.topo
      (fun b hb => (g.blocks b hb).ty.ne_vertex)
    simp only [List.length_append, toLE_length]
    omega
  generalize hfu : (toLE 4 4 ++ (toLE 8 (24 + 8 * m.nodeRefs.length * (m.dim + 1) + 20) ++
      (toLE 8 m.nodeRefs.length ++ (encVerts m.dim m.coords m.nodeRefs ++
        encBlocks (24 + 8 * m.nodeRefs.length * (m.dim + 1) + 20) m.topo)))).length + 1 = fuel at hlen ⊢
  obtain ⟨f, rfl⟩ : ∃ f, fuel = f + 1 := ⟨fuel - 1, by omega⟩
  simp only [binLoop]
  rw [readInt4_lit ⟨true, 8, 8⟩ rfl 4 4 rfl _ (by decide)]
  simp only [Int.reduceEq, if_false, if_true]
  have hp : ∀ (n : Nat) (rest : List Nat), ∃ v, fmt4.readInt 8 (toLE 8 n ++ rest) = some (v, rest) := by
    intro n rest
    unfold BinFmt.readInt; rw [readN_toLE]; exact ⟨_, rfl⟩
  obtain ⟨v, hv⟩ := hp (24 + 8 * m.nodeRefs.length * (m.dim + 1) + 20)
    (toLE 8 m.nodeRefs.length ++ (encVerts m.dim m.coords m.nodeRefs ++
        encBlocks (24 + 8 * m.nodeRefs.length * (m.dim + 1) + 20) m.topo))
  simp only [fmt4] at hv
  rw [hv]
  simp only []
  have h2 := readInt8_toLE m.nodeRefs.length (encVerts m.dim m.coords m.nodeRefs ++
        encBlocks (24 + 8 * m.nodeRefs.length * (m.dim + 1) + 20) m.topo) (by omega)
  simp only [fmt4] at h2
  rw [h2]
  simp only [asUsize_nat m.nodeRefs.length (by omega)]
  have hmul : mulCap m.nodeRefs.length m.dim = .ok () := by
    have := g.clen; have := g.size
    have : m.nodeRefs.length * m.dim = m.coords.length := by rw [Nat.mul_comm]; omega
    unfold mulCap capOk
    rw [if_neg (by omega), if_neg (by simp only [decide_eq_true_eq]; omega)]
  have hcap : capOk 8 m.nodeRefs.length = true := by
    unfold capOk; simp only [decide_eq_true_eq]; omega
  simp only [hmul, hcap, not_true_eq_false, if_false]
  have h3 := readVertsB_enc m.dim m.nodeRefs m.coords
    (encBlocks (24 + 8 * m.nodeRefs.length * (m.dim + 1) + 20) m.topo) g.clen g.coords g.nrefs
  simp only [fmt4] at h3
  rw [h3]
  simp only []
  have h4 := binLoop_encBlocks m.topo (24 + 8 * m.nodeRefs.length * (m.dim + 1) + 20) f
    { dim := m.dim, coords := m.coords, nodeRefs := m.nodeRefs, topo := [] } (by omega) g.blocks
  simp only [fmt4] at h4
  rw [h4]
  simp

end Coupe.Codec
