#!/bin/sh
# Builds the framework from files on disk only (offline): Lean library + theorem modules +
# model driver, and the Rust harness against /repo's working tree.
set -e
cd "$(dirname "$0")"
export CARGO_NET_OFFLINE=true
mkdir -p .build out evidence
python3 tools/extract.py
(cd lean && lake build CoupeModel driver $(ls CoupeModel/Props/*.lean | sed 's|/|.|g; s|\.lean$||'))
cp -n /repo/Cargo.lock harness/Cargo.lock 2>/dev/null || true
(cd harness && cargo build --offline)
echo setup done
