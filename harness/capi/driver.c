/*
 * C17 — C driver of the differential run through the real coupe C library.
 *
 * Compiled against /repo/ffi/include/coupe.h and linked with the library built
 * from /repo/ffi (see harness/src/props/c17.rs).  Every function the header
 * declares is referenced here, so a declaration without a matching exported
 * symbol is a link error (defect D9).
 *
 * Protocol: one op per line on stdin (the op lines of harness/src/props/c17.rs,
 * without the property prefix; everything from a token `R` on is ignored), one
 * canonical result line per op on stdout, flushed:
 *
 *   <CODE>(<n>) | p_0 … p_{n-1}      every code but CRASH
 *   CRASH(2)                         the array contents after a panic are not compared
 *   NULL_ADJNCY                      coupe_adjncy_csr refused the matrix
 *   strerror <n> <message>           op `strerror <n>`
 *   bad-op                           the op is malformed or would read/write out of bounds
 *
 *   reuse <op> ;; <op> [;; <op> …]   HANDLE REUSE: the ops are executed in order inside one pool of
 *                                    coupe_data handles; a data set of a later op with the same role
 *                                    (P/W), representation, type, arity and length as an earlier one
 *                                    is NOT built again: the values behind the EXISTING handle (the
 *                                    caller's array, the constant, the memory the callback reads) are
 *                                    overwritten with the new values and the same handle is passed
 *                                    again.  Result: the result lines of the ops joined by " ;; ".
 *
 * data set:  <arr|const|fn> <int|i64|f64> <arity> <len> <k> <v_0> … <v_{k-1}>
 *            (f64 values: IEEE-754 bit patterns in hex; `fn` data is served by a
 *            callback from a padded buffer so that it cannot be mistaken for an array)
 */
#include <inttypes.h>
#include <stdint.h>
#include <stdio.h>
#include <stdlib.h>
#include <string.h>

#include "coupe.h"

#define GUARD 8
#define GUARD_WORD ((uintptr_t)0xA5A5A5A5A5A5A5A5ull)

/* ------------------------------------------------------------------ tokens */

struct toks {
	char **v;
	size_t n, pos;
};

static const char *next(struct toks *t)
{
	if (t->pos >= t->n)
		return NULL;
	return t->v[t->pos++];
}

static int next_is(struct toks *t, const char *lit)
{
	const char *s = next(t);
	return s != NULL && strcmp(s, lit) == 0;
}

static int next_u64(struct toks *t, uint64_t *out)
{
	const char *s = next(t);
	char *end;
	if (s == NULL || *s == '\0' || *s == '-')
		return 0;
	*out = strtoull(s, &end, 10);
	return *end == '\0';
}

static int next_i64(struct toks *t, int64_t *out)
{
	const char *s = next(t);
	char *end;
	if (s == NULL || *s == '\0')
		return 0;
	*out = strtoll(s, &end, 10);
	return *end == '\0';
}

static int next_hex(struct toks *t, uint64_t *out)
{
	const char *s = next(t);
	char *end;
	if (s == NULL || *s == '\0')
		return 0;
	*out = strtoull(s, &end, 16);
	return *end == '\0';
}

static int next_f64(struct toks *t, double *out)
{
	uint64_t bits;
	if (!next_hex(t, &bits))
		return 0;
	memcpy(out, &bits, sizeof bits);
	return 1;
}

/* --------------------------------------------------------------- data sets */

enum repr { R_ARR, R_CONST, R_FN };

struct fn_ctx {
	const char *base;
	size_t stride; /* bytes between two elements */
};

static const void *fn_ith(const void *context, uintptr_t i)
{
	const struct fn_ctx *c = context;
	return c->base + i * c->stride;
}

struct dataset {
	enum repr repr;
	enum coupe_type type;
	size_t arity, len, k, esize;
	void *buf;          /* values as given (k elements) */
	void *padded;       /* `fn`: element i at padded + i*stride */
	struct fn_ctx ctx;
	coupe_data *handle;
	int pooled;         /* owned by the handle pool of a `reuse` op */
};

/* Handle pool of a `reuse` op (inactive otherwise). */
#define POOL_MAX 32
static struct {
	struct dataset *v[POOL_MAX];
	char role[POOL_MAX];
	size_t n;
	int active;
} POOL;

static void dataset_destroy(struct dataset *d)
{
	if (d == NULL)
		return;
	coupe_data_free(d->handle); /* accepts NULL */
	free(d->buf);
	free(d->padded);
	free(d);
}

/* End of an op's use of a data set: pooled ones live on until the end of the `reuse` op. */
static void dataset_free(struct dataset *d)
{
	if (d != NULL && !d->pooled)
		dataset_destroy(d);
}

static void pool_clear(void)
{
	size_t i;
	for (i = 0; i < POOL.n; i++)
		dataset_destroy(POOL.v[i]);
	POOL.n = 0;
	POOL.active = 0;
}

/* Reads the k values of the data set into the memory the handle (present or future) reads. */
static int dataset_fill(struct toks *t, struct dataset *d)
{
	size_t i;

	for (i = 0; i < d->k; i++) {
		if (d->type == COUPE_DOUBLE) {
			double x;
			if (!next_f64(t, &x))
				return 0;
			((double *)d->buf)[i] = x;
		} else {
			int64_t x;
			if (!next_i64(t, &x))
				return 0;
			if (d->type == COUPE_INT) {
				if (x < INT32_MIN || x > INT32_MAX)
					return 0;
				((int *)d->buf)[i] = (int)x;
			} else
				((int64_t *)d->buf)[i] = x;
		}
	}
	if (d->repr == R_FN) {
		/* one poisoned pad value after each element */
		size_t stride = (d->arity + 1) * d->esize;
		memset(d->padded, 0xEE, (d->len + 1) * stride);
		for (i = 0; i < d->len; i++)
			memcpy((char *)d->padded + i * stride,
			       (char *)d->buf + i * d->arity * d->esize,
			       d->arity * d->esize);
	}
	return 1;
}

/* Parses a data set and builds the library handle — or, inside a `reuse` op, refills the
 * memory behind the pooled handle of the same role and shape and returns that one.
 * Returns NULL on a malformed or unsafe description. */
static struct dataset *dataset_parse(struct toks *t, char role)
{
	struct dataset h, *d;
	const char *s;
	uint64_t u;
	size_t i;

	memset(&h, 0, sizeof h);
	s = next(t);
	if (s == NULL)
		return NULL;
	if (strcmp(s, "arr") == 0)
		h.repr = R_ARR;
	else if (strcmp(s, "const") == 0)
		h.repr = R_CONST;
	else if (strcmp(s, "fn") == 0)
		h.repr = R_FN;
	else
		return NULL;
	s = next(t);
	if (s == NULL)
		return NULL;
	if (strcmp(s, "int") == 0) {
		h.type = COUPE_INT;
		h.esize = sizeof(int);
	} else if (strcmp(s, "i64") == 0) {
		h.type = COUPE_INT64;
		h.esize = sizeof(int64_t);
	} else if (strcmp(s, "f64") == 0) {
		h.type = COUPE_DOUBLE;
		h.esize = sizeof(double);
	} else
		return NULL;
	if (!next_u64(t, &u) || u == 0 || u > 8)
		return NULL;
	h.arity = u;
	if (!next_u64(t, &u) || u > 1000000)
		return NULL;
	h.len = u;
	if (!next_u64(t, &u) || u > 8000000)
		return NULL;
	h.k = u;
	if (h.repr == R_CONST ? h.k != h.arity : h.k != h.len * h.arity)
		return NULL;

	if (POOL.active) {
		for (i = 0; i < POOL.n; i++) {
			d = POOL.v[i];
			if (POOL.role[i] == role && d->repr == h.repr && d->type == h.type
			    && d->arity == h.arity && d->len == h.len)
				return dataset_fill(t, d) ? d : NULL;
		}
	}

	d = malloc(sizeof *d);
	if (d == NULL)
		return NULL;
	*d = h;
	d->buf = calloc(d->k + 1, d->esize); /* never NULL-sized: the header forbids NULL */
	if (d->repr == R_FN)
		d->padded = malloc((d->len + 1) * (d->arity + 1) * d->esize);
	if (d->buf == NULL || (d->repr == R_FN && d->padded == NULL) || !dataset_fill(t, d)) {
		dataset_destroy(d);
		return NULL;
	}
	switch (d->repr) {
	case R_ARR:
		d->handle = coupe_data_array(d->len, d->type, d->buf);
		break;
	case R_CONST:
		d->handle = coupe_data_constant(d->len, d->type, d->buf);
		break;
	case R_FN:
		d->ctx.base = d->padded;
		d->ctx.stride = (d->arity + 1) * d->esize;
		d->handle = coupe_data_fn(&d->ctx, d->len, d->type, fn_ith);
		break;
	}
	if (d->handle == NULL) {
		dataset_destroy(d);
		return NULL;
	}
	if (POOL.active && POOL.n < POOL_MAX) {
		d->pooled = 1;
		POOL.v[POOL.n] = d;
		POOL.role[POOL.n++] = role;
	}
	return d;
}

/* --------------------------------------------------------- partition array */

struct part {
	uintptr_t *p;
	size_t n;
};

static int part_parse(struct toks *t, struct part *pa)
{
	uint64_t u;
	size_t i;

	memset(pa, 0, sizeof *pa);
	if (!next_is(t, "I") || !next_u64(t, &u) || u > 1000000)
		return 0;
	pa->n = u;
	pa->p = malloc((pa->n + GUARD) * sizeof *pa->p);
	if (pa->p == NULL)
		return 0;
	for (i = 0; i < pa->n; i++) {
		if (!next_u64(t, &u))
			return 0;
		pa->p[i] = (uintptr_t)u;
	}
	for (i = 0; i < GUARD; i++)
		pa->p[pa->n + i] = GUARD_WORD;
	return 1;
}

/* The op must end here (or continue with the reference part `R …`, ignored). */
static int at_end(struct toks *t)
{
	return t->pos == t->n || strcmp(t->v[t->pos], "R") == 0;
}

static const char *err_name(enum coupe_err e)
{
	switch (e) {
	case COUPE_ERR_OK: return "OK";
	case COUPE_ERR_ALLOC: return "ALLOC";
	case COUPE_ERR_CRASH: return "CRASH";
	case COUPE_ERR_BAD_DIMENSION: return "BAD_DIMENSION";
	case COUPE_ERR_BAD_TYPE: return "BAD_TYPE";
	case COUPE_ERR_BIPART_ONLY: return "BIPART_ONLY";
	case COUPE_ERR_LEN_MISMATCH: return "LEN_MISMATCH";
	case COUPE_ERR_NOT_FOUND: return "NOT_FOUND";
	case COUPE_ERR_NEG_VALUES: return "NEG_VALUES";
	}
	return "UNKNOWN";
}

static void report(enum coupe_err e, const struct part *pa)
{
	size_t i;
	int overrun = 0;
	const char *msg = coupe_strerror(e);

	printf("%s(%d)", err_name(e), (int)e);
	if (msg == NULL || *msg == '\0')
		printf(" STRERROR_EMPTY");
	for (i = 0; i < GUARD; i++)
		if (pa->p[pa->n + i] != GUARD_WORD)
			overrun = 1;
	if (overrun)
		printf(" OVERRUN");
	if (e != COUPE_ERR_CRASH) {
		printf(" |");
		for (i = 0; i < pa->n; i++)
			printf(" %" PRIuPTR, pa->p[i]);
	}
}

/* ------------------------------------------------------------ entry points */

static int op_geometric(struct toks *t, const char *name)
{
	struct dataset *pts = NULL, *ws = NULL;
	struct part pa = {0};
	uint64_t dim = 2, iter = 0, parts = 0, order = 0;
	double tol = 0;
	int ok = 0, hilbert = strcmp(name, "hilbert") == 0;

	if (hilbert) {
		if (!next_u64(t, &parts) || !next_u64(t, &order) || order > UINT32_MAX)
			goto out;
	} else {
		if (!next_u64(t, &dim) || !next_u64(t, &iter) || !next_f64(t, &tol))
			goto out;
	}
	if (!next_is(t, "P") || (pts = dataset_parse(t, 'P')) == NULL)
		goto out;
	if (!next_is(t, "W") || (ws = dataset_parse(t, 'W')) == NULL)
		goto out;
	if (!part_parse(t, &pa) || !at_end(t))
		goto out;
	/* memory safety of the call */
	if (pts->type != COUPE_DOUBLE || ws->arity != 1)
		goto out;
	if (hilbert ? pts->arity != 2 : ((dim == 2 || dim == 3) && pts->arity != dim))
		goto out;
	if (pa.n != pts->len)
		goto out;
	ok = 1;
	if (hilbert)
		report(coupe_hilbert(pa.p, pts->handle, ws->handle, parts, (uint32_t)order), &pa);
	else if (strcmp(name, "rcb") == 0)
		report(coupe_rcb(pa.p, dim, pts->handle, ws->handle, iter, tol), &pa);
	else
		report(coupe_rib(pa.p, dim, pts->handle, ws->handle, iter, tol), &pa);
out:
	dataset_free(pts);
	dataset_free(ws);
	free(pa.p);
	return ok;
}

static int op_numbers(struct toks *t, const char *name)
{
	struct dataset *ws = NULL;
	struct part pa = {0};
	uint64_t parts = 0;
	double tol = 0;
	int ok = 0, ckk = strcmp(name, "ckk") == 0;

	if (ckk ? !next_f64(t, &tol) : !next_u64(t, &parts))
		goto out;
	if (!next_is(t, "W") || (ws = dataset_parse(t, 'W')) == NULL)
		goto out;
	if (!part_parse(t, &pa) || !at_end(t))
		goto out;
	if (ws->arity != 1 || pa.n != ws->len)
		goto out;
	ok = 1;
	if (ckk)
		report(coupe_karmarkar_karp_complete(pa.p, ws->handle, tol), &pa);
	else if (strcmp(name, "kk") == 0)
		report(coupe_karmarkar_karp(pa.p, ws->handle, parts), &pa);
	else
		report(coupe_greedy(pa.p, ws->handle, parts), &pa);
out:
	dataset_free(ws);
	free(pa.p);
	return ok;
}

static int op_fm(struct toks *t)
{
	struct dataset *ws = NULL;
	struct part pa = {0};
	uint64_t max_passes, max_moves, max_bad, size, nx, na, nd, u;
	double imb;
	uintptr_t *xadj = NULL, *adjncy = NULL;
	void *data = NULL;
	coupe_adjncy *adj = NULL;
	enum coupe_type atype;
	const char *s;
	int ok = 0, checked;
	size_t i;

	if (!next_u64(t, &max_passes) || !next_u64(t, &max_moves) || !next_f64(t, &imb)
	    || !next_u64(t, &max_bad))
		goto out;
	if (!next_is(t, "A"))
		goto out;
	s = next(t);
	if (s == NULL)
		goto out;
	if (strcmp(s, "checked") == 0)
		checked = 1;
	else if (strcmp(s, "unchecked") == 0)
		checked = 0;
	else
		goto out;
	s = next(t);
	if (s == NULL)
		goto out;
	if (strcmp(s, "int") == 0)
		atype = COUPE_INT;
	else if (strcmp(s, "i64") == 0)
		atype = COUPE_INT64;
	else if (strcmp(s, "f64") == 0)
		atype = COUPE_DOUBLE;
	else
		goto out;
	if (!next_u64(t, &size) || size > 100000)
		goto out;
	if (!next_u64(t, &nx) || nx != size + 1)
		goto out;
	xadj = calloc(nx + 1, sizeof *xadj);
	if (xadj == NULL)
		goto out;
	for (i = 0; i < nx; i++) {
		if (!next_u64(t, &u))
			goto out;
		xadj[i] = (uintptr_t)u;
	}
	if (!next_u64(t, &na) || na > 4000000 || xadj[size] != na)
		goto out;
	adjncy = calloc(na + 1, sizeof *adjncy);
	if (adjncy == NULL)
		goto out;
	for (i = 0; i < na; i++) {
		if (!next_u64(t, &u))
			goto out;
		adjncy[i] = (uintptr_t)u;
	}
	if (!next_u64(t, &nd) || nd != na)
		goto out;
	data = calloc(nd + 1, sizeof(int64_t));
	if (data == NULL)
		goto out;
	for (i = 0; i < nd; i++) {
		if (atype == COUPE_DOUBLE) {
			double x;
			if (!next_f64(t, &x))
				goto out;
			((double *)data)[i] = x;
		} else {
			int64_t x;
			if (!next_i64(t, &x))
				goto out;
			if (atype == COUPE_INT) {
				if (x < INT32_MIN || x > INT32_MAX)
					goto out;
				((int *)data)[i] = (int)x;
			} else
				((int64_t *)data)[i] = x;
		}
	}
	/* the unchecked constructor is only given structures that are valid:
	 * monotone offsets, indices below `size` (sortedness is the generator's
	 * business, it is not a memory-safety matter) */
	if (!checked) {
		for (i = 0; i < size; i++)
			if (xadj[i] > xadj[i + 1])
				goto out;
		if (xadj[0] != 0)
			goto out;
		for (i = 0; i < na; i++)
			if (adjncy[i] >= size)
				goto out;
	}
	if (!next_is(t, "W") || (ws = dataset_parse(t, 'W')) == NULL)
		goto out;
	if (!part_parse(t, &pa) || !at_end(t))
		goto out;
	if (ws->arity != 1 || pa.n != ws->len)
		goto out;
	ok = 1;
	adj = checked ? coupe_adjncy_csr(size, xadj, adjncy, atype, data)
		      : coupe_adjncy_csr_unchecked(size, xadj, adjncy, atype, data);
	if (adj == NULL) {
		printf("NULL_ADJNCY");
		goto out;
	}
	report(coupe_fiduccia_mattheyses(pa.p, adj, ws->handle, max_passes, max_moves, imb, max_bad),
	       &pa);
out:
	coupe_adjncy_free(adj); /* accepts NULL */
	dataset_free(ws);
	free(pa.p);
	free(xadj);
	free(adjncy);
	free(data);
	return ok;
}

static int op_strerror(struct toks *t)
{
	uint64_t code;
	const char *msg;

	if (!next_u64(t, &code) || !at_end(t) || code > COUPE_ERR_NEG_VALUES)
		return 0;
	msg = coupe_strerror((enum coupe_err)code);
	printf("strerror %d %s", (int)code, msg == NULL ? "<null>" : msg);
	return 1;
}

/* One algorithm op (tokens of `t` from its name on). Prints its result without newline. */
static int dispatch(struct toks *t, int allow_strerror)
{
	const char *name = next(t);

	if (name == NULL)
		return 0;
	if (strcmp(name, "rcb") == 0 || strcmp(name, "rib") == 0 || strcmp(name, "hilbert") == 0)
		return op_geometric(t, name);
	if (strcmp(name, "greedy") == 0 || strcmp(name, "kk") == 0 || strcmp(name, "ckk") == 0)
		return op_numbers(t, name);
	if (strcmp(name, "fm") == 0)
		return op_fm(t);
	if (allow_strerror && strcmp(name, "strerror") == 0)
		return op_strerror(t);
	return 0;
}

/* `reuse <op> ;; <op> …`: the ops share one pool of data set handles. */
static int op_reuse(struct toks *t)
{
	size_t start = t->pos, i, segs = 0;

	if (start >= t->n)
		return 0;
	POOL.active = 1;
	for (i = start; i <= t->n; i++) {
		if (i == t->n || strcmp(t->v[i], ";;") == 0) {
			struct toks sub;
			sub.v = t->v + start;
			sub.n = i - start;
			sub.pos = 0;
			if (segs++ > 0)
				printf(" ;; ");
			if (!dispatch(&sub, 0))
				printf("bad-op");
			start = i + 1;
		}
	}
	pool_clear();
	return 1;
}

int main(void)
{
	char *line = NULL;
	size_t cap = 0;
	ssize_t got;

	while ((got = getline(&line, &cap, stdin)) >= 0) {
		struct toks t = {0};
		size_t maxtok = (size_t)got / 2 + 2;
		char *save = NULL, *tok;
		int ok = 0;

		t.v = malloc(maxtok * sizeof *t.v);
		if (t.v == NULL)
			return 3;
		for (tok = strtok_r(line, " \t\r\n", &save); tok != NULL;
		     tok = strtok_r(NULL, " \t\r\n", &save))
			t.v[t.n++] = tok;
		if (t.n > 0 && strcmp(t.v[0], "reuse") == 0) {
			t.pos = 1;
			ok = op_reuse(&t);
		} else
			ok = dispatch(&t, 1);
		if (!ok)
			printf("bad-op");
		printf("\n");
		fflush(stdout);
		free(t.v);
	}
	free(line);
	return 0;
}
