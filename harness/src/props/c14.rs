//! C14 — VnBest and VnFirst never worsen the load gap.
//!
//! op:  `best|first <i64|u64|f64> <threads> <n> <w…> <m> <ids…>`
//!      (weights are integers in every weight type; `f64` weights are the same integers
//!      converted exactly; `f64e971` = the same integers times 2^971, i.e. f64 weights up to
//!      2^1023 with finite totals – exact too, every operation of the code is homogeneous;
//!      `threads` = size of the rayon pool the call runs in)
//!      `twice best|first <case A> <case B>` (case = `<ty> <threads> <n> <w…> <m> <ids…>`):
//!      two successive calls through the SAME algorithm value and the SAME array buffer
//!      type token grammar: `<base>[e<k>][@<variant>]`, base in i64 u64 f64 i32 u32 f32 usize i128
//!      (every type the trait bounds admit that is cheap to try); `f64e<k>`: the integers times
//!      2^k, -1073 <= k <= 971 (subnormal … near-overflow f64 weights, exact and homogeneous);
//!      `@<variant>`: the Rust input type the weights are handed over in (VnBest: vec
//!      slice_copied map filter flat_map from_fn chain deque boxdyn array rev_rev tools;
//!      VnFirst: vec boxed subslice array tools; `tools` = through coupe_tools::parse_algorithm);
//!      `f64bits`: RAW f64 weights, every weight token is the hex bit pattern (oracle only: the
//!      model line is `skip`); a weight token `-0` is the float -0.0; threads token: `<n>` = inside pool.install,
//!      `g` = global pool, `<n>j` = inside a rayon::join task, `<n>s` = inside a scope spawn
//!      `many best|first <pool> <k> <case>*k`: k calls at once (par_iter().for_each) in one pool
//!      further weight types (typed-large stream): u16 i16 u8 i8 u128 isize – every primitive
//!      numeric type meets the trait bounds; totals must fit the type
//!      `loads <case>`: the shared `coupe::imbalance::compute_parts_load` alone, 1 + max id parts;
//!      variants `vec` (Vec into_par_iter) `cloned` (par_iter().cloned(), as vn_first calls it)
//!      `map` (par_iter over (w, index) pairs mapped to w, as vn_best calls it)
//! out: `ok <returned count> | <ids afterwards>` | `negative` | `lenmismatch` | `panic …` | `hang`
//!      (`twice`: the two outputs joined by ` ;; `); `loads`: `loads <l_0> … <l_{k-1}>`

use crate::common::*;
use coupe::Partition as _;
use std::collections::HashMap;
use std::sync::{Arc, Mutex, OnceLock};

type Pool = Arc<coupe::rayon::ThreadPool>;

/// Pools are built once per size (building one per case would dominate the run time).
fn pool(threads: usize) -> Pool {
    static POOLS: OnceLock<Mutex<HashMap<usize, Pool>>> = OnceLock::new();
    let m = POOLS.get_or_init(|| Mutex::new(HashMap::new()));
    let mut g = m.lock().unwrap();
    g.entry(threads)
        .or_insert_with(|| {
            Arc::new(
                coupe::rayon::ThreadPoolBuilder::new()
                    .num_threads(threads.max(1))
                    .build()
                    .expect("pool"),
            )
        })
        .clone()
}

/// One input: weight type, pool size, weights (exact integers), part ids.
#[derive(Clone)]
struct Case {
    /// full type token `<base>[e<k>][@<variant>]`
    ty: String,
    /// pool size of the call (context `install` unless `ctxt` says otherwise)
    threads: usize,
    /// calling context: "" = pool.install, "g" = global pool, "j" = inside rayon::join, "s" = scope spawn
    ctxt: &'static str,
    ws: Vec<i128>,
    /// positions whose zero weight is the float -0.0
    nz: Vec<bool>,
    ids: Vec<usize>,
    /// `f64bits`: the weights themselves; `ws` then holds the SAME values exactly, in units of
    /// 2^E (E = smallest exponent present), so that the oracle's loads and gaps are exact
    raw: Option<Vec<f64>>,
}

/// Exact integer image of finite f64 values in units of a common power of two (`None`: not finite,
/// or the exponents are more than 60 binades apart / the sums would not fit i128).
fn exact_units(v: &[f64]) -> Option<Vec<i128>> {
    let mut parts: Vec<(i128, i32)> = Vec::with_capacity(v.len());
    for &x in v {
        if !x.is_finite() {
            return None;
        }
        let b = x.to_bits();
        let e = ((b >> 52) & 0x7ff) as i32;
        let f = (b & ((1u64 << 52) - 1)) as i128;
        let (m, e) = if e == 0 { (f, -1074) } else { (f | (1i128 << 52), e - 1075) };
        parts.push((if x.is_sign_negative() { -m } else { m }, e));
    }
    let emin = parts.iter().filter(|p| p.0 != 0).map(|p| p.1).min().unwrap_or(0);
    let mut out = Vec::with_capacity(v.len());
    for (m, e) in parts {
        if m == 0 {
            out.push(0);
        } else {
            let sh = e - emin;
            if sh > 60 {
                return None;
            }
            out.push(m << sh);
        }
    }
    if v.len() > 1024 {
        return None;
    }
    Some(out)
}

fn raw_case(algo_ty: &str, threads: usize, v: Vec<f64>, ids: Vec<usize>) -> Option<Case> {
    let ws = exact_units(&v)?;
    let n = v.len();
    Some(Case { ty: algo_ty.to_string(), threads, ctxt: "", ws, nz: vec![false; n], ids, raw: Some(v) })
}

/// Parsed type token.
struct TySpec<'a> {
    base: &'a str,
    /// `f64e<k>`: weights are the integers times 2^k
    scale: Option<i32>,
    variant: &'a str,
}

const BEST_VARIANTS: [&str; 12] =
    ["vec", "slice_copied", "map", "filter", "flat_map", "from_fn", "chain", "deque", "boxdyn", "array", "rev_rev", "tools"];
const FIRST_VARIANTS: [&str; 5] = ["vec", "boxed", "subslice", "array", "tools"];

fn ty_spec(ty: &str) -> Option<TySpec<'_>> {
    let (head, variant) = match ty.split_once('@') {
        Some((h, v)) => (h, v),
        None => (ty, "vec"),
    };
    let (base, scale) = if let Some(k) = head.strip_prefix("f64e") {
        let k: i32 = k.parse().ok()?;
        if !(-1073..=971).contains(&k) {
            return None;
        }
        ("f64", Some(k))
    } else {
        (head, None)
    };
    if !["i64", "u64", "f64", "i32", "u32", "f32", "usize", "i128", "f64bits", "u16", "i16", "u8", "i8", "u128", "isize"]
        .contains(&base)
    {
        return None;
    }
    Some(TySpec { base, scale, variant })
}

fn is_float(base: &str) -> bool {
    base == "f64" || base == "f32" || base == "f64bits"
}

/// the 64-bit type of the same class (signed / unsigned / float)
fn base64(base: &str) -> &'static str {
    match base {
        "i64" | "i32" | "i128" | "i16" | "i8" | "isize" => "i64",
        "u64" | "u32" | "usize" | "u16" | "u8" | "u128" => "u64",
        _ => "f64",
    }
}

fn plain(ty: &str, threads: usize, ws: Vec<i128>, ids: Vec<usize>) -> Case {
    let n = ws.len();
    Case { ty: ty.to_string(), threads, ctxt: "", ws, nz: vec![false; n], ids, raw: None }
}

fn push_case(s: &mut String, c: &Case) {
    use std::fmt::Write as _;
    if c.ctxt == "g" {
        write!(s, " {} g {}", c.ty, c.ws.len()).unwrap();
    } else {
        write!(s, " {} {}{} {}", c.ty, c.threads, c.ctxt, c.ws.len()).unwrap();
    }
    if let Some(raw) = &c.raw {
        for x in raw {
            write!(s, " {:016x}", x.to_bits()).unwrap();
        }
    }
    for (j, w) in c.ws.iter().enumerate() {
        if c.raw.is_some() {
            break;
        }
        if c.nz.get(j).copied().unwrap_or(false) && *w == 0 {
            s.push_str(" -0");
        } else {
            write!(s, " {}", w).unwrap();
        }
    }
    write!(s, " {}", c.ids.len()).unwrap();
    for p in &c.ids {
        write!(s, " {}", p).unwrap();
    }
}

fn format_case(algo: &str, c: &Case) -> String {
    let mut s = String::with_capacity(16 + 8 * (c.ws.len() + c.ids.len()));
    s.push_str(algo);
    push_case(&mut s, c);
    s
}

fn format_op(algo: &str, ty: &str, threads: usize, ws: &[i64], ids: &[usize]) -> String {
    format_case(algo, &plain(ty, threads, ws.iter().map(|&w| w as i128).collect(), ids.to_vec()))
}

fn format_twice(algo: &str, a: &Case, b: &Case) -> String {
    let mut s = String::from("twice ");
    s.push_str(algo);
    push_case(&mut s, a);
    push_case(&mut s, b);
    s
}

/// The exactness contract of the protocol ("sums that do not overflow", integers exact in the
/// float types): signed: the sum of the absolute values fits the type; unsigned: no negative
/// weight, the total fits; f64 (any scale): the sum of the absolute values stays below 2^53;
/// f32: below 2^24.  The variant must exist for the algorithm (`array`: 4 or 8 weights).
fn in_contract(algo: &str, c: &Case) -> bool {
    let Some(t) = ty_spec(&c.ty) else { return false };
    let variants: &[&str] = if algo == "best" { &BEST_VARIANTS } else { &FIRST_VARIANTS };
    if !variants.contains(&t.variant) {
        return false;
    }
    if t.variant == "array" && !(c.ws.len() == 4 || c.ws.len() == 8) {
        return false;
    }
    if t.variant == "tools" && !(t.base == "i64" || (t.base == "f64")) {
        return false;
    }
    if c.nz.iter().any(|&z| z) && !is_float(t.base) {
        return false;
    }
    if t.base == "f64bits" {
        // finite weights with a finite total (exactness of the oracle was checked when parsing)
        return match &c.raw {
            Some(v) => v.iter().map(|x| x.abs()).sum::<f64>().is_finite() && t.variant != "tools",
            None => false,
        };
    }
    fits_type(t.base, &c.ws)
}

/// The totals fit the weight type (see [in_contract]).
fn fits_type(base: &str, ws: &[i128]) -> bool {
    let mut abs: i128 = 0;
    for w in ws {
        abs = match abs.checked_add(w.abs()) {
            Some(a) => a,
            None => return false,
        };
    }
    let nonneg = ws.iter().all(|&w| w >= 0);
    match base {
        "i64" => abs <= i64::MAX as i128,
        "u64" | "usize" => nonneg && abs <= u64::MAX as i128,
        "i32" => abs <= i32::MAX as i128,
        "u32" => nonneg && abs <= u32::MAX as i128,
        "i128" => abs < (1i128 << 100),
        "u128" => nonneg && abs < (1i128 << 100),
        "isize" => abs <= isize::MAX as i128,
        "i16" => abs <= i16::MAX as i128,
        "u16" => nonneg && abs <= u16::MAX as i128,
        "i8" => abs <= i8::MAX as i128,
        "u8" => nonneg && abs <= u8::MAX as i128,
        "f32" => abs < (1i128 << 24),
        _ => abs < (1i128 << 53),
    }
}

const LOADS_VARIANTS: [&str; 3] = ["vec", "cloned", "map"];

/// Contract of the `loads` op: a plain (unscaled, integer-valued) weight type handed over in one
/// of the three ways the algorithms call `compute_parts_load`, matching lengths, totals that fit.
fn in_contract_loads(c: &Case) -> bool {
    let Some(t) = ty_spec(&c.ty) else { return false };
    t.scale.is_none()
        && t.base != "f64bits"
        && LOADS_VARIANTS.contains(&t.variant)
        && !c.nz.iter().any(|&z| z)
        && c.ws.len() == c.ids.len()
        && fits_type(t.base, &c.ws)
}

fn parse_case<'a>(it: &mut impl Iterator<Item = &'a str>) -> Option<Case> {
    let ty = it.next()?.to_string();
    ty_spec(&ty)?;
    let tt = it.next()?;
    let (threads, ctxt): (usize, &'static str) = if tt == "g" {
        (1, "g")
    } else if let Some(n) = tt.strip_suffix('j') {
        (n.parse().ok()?, "j")
    } else if let Some(n) = tt.strip_suffix('s') {
        (n.parse().ok()?, "s")
    } else {
        (tt.parse().ok()?, "")
    };
    let n: usize = it.next()?.parse().ok()?;
    let mut ws = Vec::with_capacity(n.min(1 << 20));
    let mut nz = Vec::with_capacity(n.min(1 << 20));
    let mut raw = None;
    if ty.starts_with("f64bits") {
        let mut v = Vec::with_capacity(n.min(1 << 20));
        for _ in 0..n {
            v.push(f64::from_bits(u64::from_str_radix(it.next()?, 16).ok()?));
        }
        ws = exact_units(&v)?;
        nz = vec![false; n];
        raw = Some(v);
    } else {
        for _ in 0..n {
            let t = it.next()?;
            nz.push(t == "-0");
            ws.push(t.parse::<i128>().ok()?);
        }
    }
    let m: usize = it.next()?.parse().ok()?;
    let mut ids = Vec::with_capacity(m.min(1 << 20));
    for _ in 0..m {
        ids.push(it.next()?.parse().ok()?);
    }
    Some(Case { ty, threads, ctxt, ws, nz, ids, raw })
}

enum Op {
    One(String, Case),
    Twice(String, Case, Case),
    /// k calls at once in one pool of the given size
    Many(String, usize, Vec<Case>),
    /// `compute_parts_load` alone
    Loads(Case),
}

fn parse_op(op: &str) -> Option<Op> {
    let mut it = op.split_whitespace();
    let first = it.next()?;
    let is_algo = |a: &str| a == "best" || a == "first";
    let r = if first == "twice" {
        let algo = it.next()?.to_string();
        if !is_algo(&algo) {
            return None;
        }
        let a = parse_case(&mut it)?;
        let b = parse_case(&mut it)?;
        Op::Twice(algo, a, b)
    } else if first == "many" {
        let algo = it.next()?.to_string();
        if !is_algo(&algo) {
            return None;
        }
        let pool: usize = it.next()?.parse().ok()?;
        let k: usize = it.next()?.parse().ok()?;
        if k > 256 {
            return None;
        }
        let mut cases = Vec::new();
        for _ in 0..k {
            cases.push(parse_case(&mut it)?);
        }
        Op::Many(algo, pool, cases)
    } else if first == "loads" {
        Op::Loads(parse_case(&mut it)?)
    } else {
        if !is_algo(first) {
            return None;
        }
        Op::One(first.to_string(), parse_case(&mut it)?)
    };
    if it.next().is_some() {
        return None;
    }
    Some(r)
}

type Res = (Result<usize, coupe::Error>, Vec<usize>);

/// Hands `w` to the algorithm as the Rust input type named by `variant`.
fn call_t<T>(best: bool, variant: &str, w: Vec<T>, ids: &mut [usize]) -> Result<usize, coupe::Error>
where
    T: coupe::VnBestWeight + coupe::VnFirstWeight + 'static,
{
    use std::convert::TryFrom;
    let n = w.len();
    if best {
        match variant {
            "slice_copied" => coupe::VnBest.partition(ids, w.iter().copied()),
            "map" => coupe::VnBest.partition(ids, w.into_iter().map(|x| x)),
            // inexact size_hint from here on
            "filter" => coupe::VnBest.partition(ids, w.into_iter().filter(|_| true)),
            "flat_map" => coupe::VnBest.partition(ids, w.into_iter().flat_map(std::iter::once)),
            "from_fn" => {
                let mut it = w.into_iter();
                coupe::VnBest.partition(ids, std::iter::from_fn(move || it.next()))
            }
            "chain" => {
                let (a, b) = w.split_at(n / 3);
                coupe::VnBest.partition(ids, a.iter().copied().chain(b.iter().copied()))
            }
            "deque" => coupe::VnBest.partition(ids, std::collections::VecDeque::from(w)),
            "boxdyn" => {
                let it: Box<dyn Iterator<Item = T>> = Box::new(w.into_iter());
                coupe::VnBest.partition(ids, it)
            }
            "rev_rev" => coupe::VnBest.partition(ids, w.into_iter().rev().rev()),
            "array" if n == 4 => match <[T; 4]>::try_from(w) {
                Ok(a) => coupe::VnBest.partition(ids, a),
                Err(w) => coupe::VnBest.partition(ids, w),
            },
            "array" if n == 8 => match <[T; 8]>::try_from(w) {
                Ok(a) => coupe::VnBest.partition(ids, a),
                Err(w) => coupe::VnBest.partition(ids, w),
            },
            _ => coupe::VnBest.partition(ids, w),
        }
    } else {
        match variant {
            "boxed" => {
                let b: Box<[T]> = w.into_boxed_slice();
                coupe::VnFirst.partition(ids, &b[..])
            }
            "subslice" => {
                // a window into a larger allocation (offset start, trailing element)
                let mut big: Vec<T> = vec![T::one(); 3];
                big.extend(w);
                big.push(T::one());
                coupe::VnFirst.partition(ids, &big[3..3 + n])
            }
            "array" if n == 4 => match <[T; 4]>::try_from(w) {
                Ok(a) => coupe::VnFirst.partition(ids, &a[..]),
                Err(w) => coupe::VnFirst.partition(ids, &w[..]),
            },
            "array" if n == 8 => match <[T; 8]>::try_from(w) {
                Ok(a) => coupe::VnFirst.partition(ids, &a[..]),
                Err(w) => coupe::VnFirst.partition(ids, &w[..]),
            },
            _ => coupe::VnFirst.partition(ids, &w[..]),
        }
    }
}

/// The repository's TOOLS entry point (`coupe_tools::parse_algorithm("vn-best" | "vn-first")`):
/// weights go in as a one-criterion `weight::Array`.
fn call_tools(best: bool, arr: mesh_io::weight::Array, ids: &mut [usize]) -> Result<usize, coupe::Error> {
    let mut algo = coupe_tools::parse_algorithm::<2>(if best { "vn-best" } else { "vn-first" })
        .unwrap_or_else(|e| panic!("tools: parse_algorithm: {}", e));
    let problem = coupe_tools::Problem::<2>::without_mesh(arr);
    let mut runner = algo.to_runner(&problem);
    match runner(ids) {
        Ok(meta) => {
            let s = meta.map(|m| format!("{:?}", m)).unwrap_or_default();
            Ok(s.trim().parse::<usize>().unwrap_or_else(|_| panic!("tools: metadata {:?} is not a count", s)))
        }
        Err(e) => match e.downcast::<coupe::Error>() {
            Ok(ce) => Err(ce),
            Err(e) => panic!("tools: unexpected error {}", e),
        },
    }
}

fn f64_weights(c: &Case, scale: Option<i32>) -> Vec<f64> {
    let f = 2f64.powi(scale.unwrap_or(0).max(-1000)) * 2f64.powi(scale.unwrap_or(0).min(-1000) + 1000);
    c.ws
        .iter()
        .zip(&c.nz)
        .map(|(&x, &z)| if z && x == 0 { -0.0 } else { x as f64 * f })
        .collect()
}

/// One call of the real implementation on `ids` (in place).
fn call(best: bool, c: &Case, ids: &mut [usize]) -> Result<usize, coupe::Error> {
    let t = ty_spec(&c.ty).expect("type token");
    let v = t.variant;
    if v == "tools" {
        let arr = if t.base == "f64" {
            mesh_io::weight::Array::Floats(f64_weights(c, t.scale).into_iter().map(|w| vec![w]).collect())
        } else {
            mesh_io::weight::Array::Integers(c.ws.iter().map(|&x| vec![x as i64]).collect())
        };
        return call_tools(best, arr, ids);
    }
    match t.base {
        "i64" => call_t(best, v, c.ws.iter().map(|&x| x as i64).collect::<Vec<_>>(), ids),
        "u64" => call_t(best, v, c.ws.iter().map(|&x| x as u64).collect::<Vec<_>>(), ids),
        "i32" => call_t(best, v, c.ws.iter().map(|&x| x as i32).collect::<Vec<_>>(), ids),
        "u32" => call_t(best, v, c.ws.iter().map(|&x| x as u32).collect::<Vec<_>>(), ids),
        "usize" => call_t(best, v, c.ws.iter().map(|&x| x as usize).collect::<Vec<_>>(), ids),
        "i128" => call_t(best, v, c.ws.clone(), ids),
        "u128" => call_t(best, v, c.ws.iter().map(|&x| x as u128).collect::<Vec<_>>(), ids),
        "isize" => call_t(best, v, c.ws.iter().map(|&x| x as isize).collect::<Vec<_>>(), ids),
        "i16" => call_t(best, v, c.ws.iter().map(|&x| x as i16).collect::<Vec<_>>(), ids),
        "u16" => call_t(best, v, c.ws.iter().map(|&x| x as u16).collect::<Vec<_>>(), ids),
        "i8" => call_t(best, v, c.ws.iter().map(|&x| x as i8).collect::<Vec<_>>(), ids),
        "u8" => call_t(best, v, c.ws.iter().map(|&x| x as u8).collect::<Vec<_>>(), ids),
        "f32" => call_t(
            best,
            v,
            c.ws.iter().zip(&c.nz).map(|(&x, &z)| if z && x == 0 { -0.0f32 } else { x as f32 }).collect::<Vec<_>>(),
            ids,
        ),
        "f64bits" => call_t(best, v, c.raw.clone().expect("raw weights"), ids),
        _ => call_t(best, v, f64_weights(c, t.scale), ids),
    }
}

/// Runs the real implementation in the calling context the case names; returns the result and
/// the array afterwards.
fn run_impl(algo: &str, c: &Case, watchdog: bool) -> Caught<Res> {
    let p = pool(c.threads);
    let best = algo == "best";
    let cc = c.clone();
    let threads = c.threads.max(1);
    let ctxt = c.ctxt;
    let work = move || {
        let mut ids = cc.ids.clone();
        let r = call(best, &cc, &mut ids);
        (r, ids)
    };
    // already on a worker of a pool of the requested size (exhaustive sweep): call directly
    let in_pool = ctxt.is_empty()
        && coupe::rayon::current_thread_index().is_some()
        && coupe::rayon::current_num_threads() == threads;
    if in_pool {
        return catch(work);
    }
    let placed = move || match ctxt {
        // the global pool: this helper thread belongs to no pool
        "g" => work(),
        // from INSIDE a rayon task
        "j" => p.install(move || coupe::rayon::join(work, || ()).0),
        "s" => p.install(move || {
            let mut out = None;
            coupe::rayon::scope(|s| s.spawn(|_| out = Some(work())));
            out.expect("scope ran the task")
        }),
        _ => p.install(work),
    };
    if watchdog || ctxt == "g" {
        catch_timeout(60, placed)
    } else {
        catch(placed)
    }
}

/// `many`: all calls at once, `cases.par_iter()` inside one pool (a worker that waits inside one
/// call steals and runs another call on the same thread).
fn run_many(algo: &str, pool_size: usize, cases: &[Case]) -> Caught<Vec<Option<Res>>> {
    use coupe::rayon::iter::{IntoParallelRefIterator, ParallelIterator};
    let best = algo == "best";
    let cases = cases.to_vec();
    let p = pool(pool_size);
    catch_timeout(60, move || {
        p.install(|| {
            cases
                .par_iter()
                .map(|c| {
                    std::panic::catch_unwind(std::panic::AssertUnwindSafe(|| {
                        let mut ids = c.ids.clone();
                        let r = call(best, c, &mut ids);
                        (r, ids)
                    }))
                    .ok()
                })
                .collect()
        })
    })
}

/// `twice`: the same algorithm VALUE (`&mut` to one instance) and the same `Vec` buffer serve two
/// successive calls (the buffer is cleared and refilled with the second input, possibly with
/// more parts and another length); each call in the pool its case asks for.
fn run_twice(algo: &str, a: &Case, b: &Case) -> Caught<(Res, Res)> {
    let best = algo == "best";
    let (a, b) = (a.clone(), b.clone());
    let (pa, pb) = (pool(a.threads), pool(b.threads));
    catch_timeout(60, move || {
        // VnBest / VnFirst are unit structs: "the same value" is the same (only) value; what can
        // carry history is the buffer and process-level state
        let mut buf: Vec<usize> = Vec::with_capacity(a.ids.len().max(b.ids.len()));
        let one = |c: &Case, p: &Pool, buf: &mut Vec<usize>| -> Res {
            buf.clear();
            buf.extend_from_slice(&c.ids);
            let r = p.install(|| call(best, c, &mut buf[..]));
            (r, buf.clone())
        };
        let ra = one(&a, &pa, &mut buf);
        let rb = one(&b, &pb, &mut buf);
        (ra, rb)
    })
}

/// Conversions of the protocol's integers to and from every weight type.
trait WtConv: Copy + Send + Sync + coupe::num_traits::Zero + std::ops::AddAssign + 'static {
    fn from_i(x: i128) -> Self;
    fn to_i(self) -> i128;
}
macro_rules! wt_conv {
    ($($t:ty),*) => { $(impl WtConv for $t {
        fn from_i(x: i128) -> Self { x as $t }
        fn to_i(self) -> i128 { self as i128 }
    })* };
}
wt_conv!(i8, i16, i32, i64, i128, isize, u8, u16, u32, u64, u128, usize, f32, f64);

/// `coupe::imbalance::compute_parts_load` on weights of type `T`, handed over the way `variant` names.
fn loads_t<T: WtConv>(variant: &str, ws: &[i128], ids: &[usize], k: usize) -> Vec<i128> {
    use coupe::rayon::iter::{IntoParallelRefIterator, ParallelIterator};
    let w: Vec<T> = ws.iter().map(|&x| T::from_i(x)).collect();
    let l: Vec<T> = match variant {
        // as vn_first calls it
        "cloned" => coupe::imbalance::compute_parts_load(ids, k, w.par_iter().cloned()),
        // as vn_best calls it
        "map" => {
            let pairs: Vec<(T, usize)> = w.into_iter().zip(0..).collect();
            coupe::imbalance::compute_parts_load(ids, k, pairs.par_iter().map(|(w, _)| *w))
        }
        _ => coupe::imbalance::compute_parts_load(ids, k, w),
    };
    l.into_iter().map(|x| x.to_i()).collect()
}

fn run_loads(c: &Case) -> Caught<Vec<i128>> {
    let p = pool(c.threads);
    let cc = c.clone();
    catch_timeout(60, move || {
        let t = ty_spec(&cc.ty).expect("type token");
        let k = 1 + cc.ids.iter().copied().max().unwrap_or(0);
        let (v, ws, ids) = (t.variant, &cc.ws[..], &cc.ids[..]);
        p.install(|| match t.base {
            "i64" => loads_t::<i64>(v, ws, ids, k),
            "u64" => loads_t::<u64>(v, ws, ids, k),
            "i32" => loads_t::<i32>(v, ws, ids, k),
            "u32" => loads_t::<u32>(v, ws, ids, k),
            "i16" => loads_t::<i16>(v, ws, ids, k),
            "u16" => loads_t::<u16>(v, ws, ids, k),
            "i8" => loads_t::<i8>(v, ws, ids, k),
            "u8" => loads_t::<u8>(v, ws, ids, k),
            "i128" => loads_t::<i128>(v, ws, ids, k),
            "u128" => loads_t::<u128>(v, ws, ids, k),
            "isize" => loads_t::<isize>(v, ws, ids, k),
            "usize" => loads_t::<usize>(v, ws, ids, k),
            "f32" => loads_t::<f32>(v, ws, ids, k),
            _ => loads_t::<f64>(v, ws, ids, k),
        })
    })
}

/// Naive part loads for `k` parts (ids ≥ k are ignored – reported separately). O(n + k).
fn loads(ws: &[i128], ids: &[usize], k: usize) -> Vec<i128> {
    let mut l = vec![0i128; k];
    for (w, &p) in ws.iter().zip(ids) {
        if p < k {
            l[p] += *w;
        }
    }
    l
}

fn gap(l: &[i128]) -> i128 {
    let mut mn = l[0];
    let mut mx = l[0];
    for &x in l {
        if x < mn {
            mn = x;
        }
        if x > mx {
            mx = x;
        }
    }
    mx - mn
}

fn nontrivial(c: &Case) -> bool {
    let k = 1 + c.ids.iter().copied().max().unwrap_or(0);
    let total: i128 = c.ws.iter().sum();
    c.ws.len() == c.ids.len() && k >= 2 && c.ws.len() >= 2 && (c.ws.iter().any(|&w| w < 0) || total > 0)
}

/// The ORACLE on one call: canonical output line and the verdict (cause signature, description).
fn judge(ctx: &mut Ctx, algo: &str, c: &Case, res: Caught<Res>) -> (String, Option<(&'static str, String)>) {
    let len_ok = c.ws.len() == c.ids.len();
    let k = 1 + c.ids.iter().copied().max().unwrap_or(0);
    let neg = c.ws.iter().position(|&w| w < 0);
    let total: i128 = c.ws.iter().sum();
    let best = algo == "best";
    let mut verdict: Option<(&'static str, String)> = None;
    let out = match res {
        Caught::Ok((Ok(count), ids)) => {
            if !len_ok {
                verdict = Some(("vn-len-mismatch-ok", "Ok despite a length mismatch".into()));
            } else if best && neg.is_some() {
                verdict = Some((
                    "vnbest-negative-accepted",
                    format!("Ok({}) although weight #{} is negative", count, neg.unwrap()),
                ));
            } else if ids.len() != c.ids.len() {
                verdict = Some(("vn-length-changed", "array length changed".into()));
            } else if let Some(bad) = ids.iter().find(|&&p| p >= k) {
                verdict = Some(("vn-id-out-of-range", format!("part id {} with {} parts", bad, k)));
            } else if neg.is_none() {
                // the property: gap not larger, total only redistributed
                let before = loads(&c.ws, &c.ids, k);
                let after = loads(&c.ws, &ids, k);
                let (gb, ga) = (gap(&before), gap(&after));
                let sa: i128 = after.iter().sum();
                // raw floats: the code sees ROUNDED loads; an exact excess within the rounding
                // error of the load sums ((n+2) ulp of the heaviest load) is counted, not failed
                let tol: i128 = if c.raw.is_some() {
                    let mx = before.iter().chain(after.iter()).map(|x| x.abs()).max().unwrap_or(0);
                    let bits = 128 - mx.leading_zeros() as i32;
                    (c.ws.len() as i128 + 2) << (bits - 53).max(0)
                } else {
                    0
                };
                if ga > gb && ga - gb <= tol {
                    ctx.count(&format!("special:float_gap_worse_within_rounding@{}", algo));
                }
                if ga > gb + tol {
                    let show = |l: &[i128]| if l.len() <= 16 { format!("{:?}", l) } else { format!("[{} parts]", l.len()) };
                    verdict = Some((
                        "vn-gap-worse",
                        format!("gap {} -> {} (loads {} -> {})", gb, ga, show(&before), show(&after)),
                    ));
                } else if sa != total {
                    verdict = Some(("vn-total-changed", format!("total {} -> {}", total, sa)));
                }
                let moved = ids.iter().zip(&c.ids).filter(|(a, b)| a != b).count();
                ctx.count(&format!(
                    "{}_moved_{}",
                    algo,
                    match moved {
                        0 | 1 => moved.to_string(),
                        2..=8192 => "2+".to_string(),
                        8193..=20000 => "8193+".to_string(),
                        _ => "20001+".to_string(),
                    }
                ));
                if best {
                    if count > 20000 {
                        ctx.count("best_returned_moves_20001+");
                    } else if count > 8192 {
                        ctx.count("best_returned_moves_8193+");
                    }
                }
                if nontrivial(c) {
                    ctx.count(if ga < gb { "gap_decreased" } else { "gap_unchanged" });
                }
            } else {
                ctx.count("first_negative_weights_outside_property");
            }
            format!("ok {} | {}", count, join(&ids))
        }
        Caught::Ok((Err(coupe::Error::NegativeValues), ids)) => {
            if !best || neg.is_none() {
                verdict = Some(("vn-spurious-negative", "NegativeValues without a negative weight".into()));
            } else if ids != c.ids {
                verdict = Some(("vnbest-negative-wrote", "array modified before NegativeValues".into()));
            }
            "negative".to_string()
        }
        Caught::Ok((Err(coupe::Error::InputLenMismatch { .. }), ids)) => {
            if len_ok {
                verdict = Some(("vn-spurious-lenmismatch", "InputLenMismatch on matching lengths".into()));
            } else if ids != c.ids {
                verdict = Some(("vn-lenmismatch-wrote", "array modified before InputLenMismatch".into()));
            }
            "lenmismatch".to_string()
        }
        Caught::Ok((Err(e), _)) => {
            verdict = Some(("vn-unexpected-error", format!("{:?}", e)));
            format!("err {:?}", e)
        }
        Caught::Panic(m) => {
            let sig = panic_sig(&m);
            verdict = Some(("panic", format!("{} [{}]", m, sig)));
            format!("panic {}", m)
        }
        Caught::Hang => {
            verdict = Some(("hang", "no answer within 60 s".into()));
            "hang".into()
        }
    };
    ctx.count(&format!("{}_{}", algo, out.split(' ').next().unwrap_or("")));
    ctx.count(&format!("type_{}", ty_spec(&c.ty).map(|t| if t.scale.is_some() { "f64_scaled" } else { t.base }).unwrap_or("?")));
    if c.raw.is_some() {
        ctx.count("special:raw_float_case");
    }
    ctx.count(&format!("threads_{}", c.threads));
    if len_ok {
        ctx.count(&format!("parts_{}", if k <= 8 { k.to_string() } else if k <= 64 { "9..64".into() } else if k <= 257 { "65..257".into() } else { "258+".into() }));
    }
    (out, verdict)
}

pub fn run_op(ctx: &mut Ctx, op: &str) {
    if ctx.hang_limit_reached() {
        return;
    }
    run_op_w(ctx, op, true)
}

/// The reference run of a special case: same integers, +0.0 instead of -0.0, no scaling, the
/// 64-bit type of the same class, a `Vec`, inside `pool.install`.  `None`: the case IS plain.
fn baseline_of(c: &Case) -> Option<(Case, &'static str)> {
    let t = ty_spec(&c.ty)?;
    if t.base == "f64bits" {
        return None;
    }
    let class = if c.nz.iter().any(|&z| z) {
        "negzero-dependent"
    } else if t.scale.is_some() {
        "scale-dependent"
    } else if t.variant != "vec" || base64(t.base) != t.base {
        "input-type-dependent"
    } else if !c.ctxt.is_empty() {
        "context-dependent"
    } else {
        return None;
    };
    Some((plain(base64(t.base), c.threads, c.ws.clone(), c.ids.clone()), class))
}

/// Canonical line of a result without judging it.
fn canon(res: &Caught<Res>) -> String {
    match res {
        Caught::Ok((Ok(count), ids)) => format!("ok {} | {}", count, join(ids)),
        Caught::Ok((Err(coupe::Error::NegativeValues), _)) => "negative".into(),
        Caught::Ok((Err(coupe::Error::InputLenMismatch { .. }), _)) => "lenmismatch".into(),
        Caught::Ok((Err(e), _)) => format!("err {:?}", e),
        Caught::Panic(m) => format!("panic {}", m),
        Caught::Hang => "hang".into(),
    }
}

/// Counters of the special / plumbing / context classes a case belongs to.
fn count_classes(ctx: &mut Ctx, c: &Case) {
    let Some(t) = ty_spec(&c.ty) else { return };
    if c.nz.iter().any(|&z| z) {
        ctx.count(&format!("special:negzero_{}", if c.nz.iter().filter(|&&z| z).count() % 2 == 1 { "odd" } else { "even" }));
    }
    if let Some(k) = t.scale {
        ctx.count(&format!("special:f64_scaled_2^{}", k));
    }
    if t.variant != "vec" {
        ctx.count(&format!("plumbing:{}", t.variant));
    }
    if base64(t.base) != t.base {
        ctx.count(&format!("plumbing:type_{}", t.base));
    }
    match c.ctxt {
        "g" => ctx.count("context:global_pool"),
        "j" => ctx.count("context:inside_join"),
        "s" => ctx.count("context:inside_scope_spawn"),
        _ => {}
    }
}

/// Special cases must give the result of their plain counterpart (run here, fresh).
fn against_baseline(algo: &str, c: &Case, out: &str) -> Option<(String, String)> {
    let (b, class) = baseline_of(c)?;
    // 128-bit weights beyond the 64-bit range have no 64-bit counterpart (judged by the oracle only)
    if !in_contract(algo, &b) {
        return None;
    }
    let bout = canon(&run_impl(algo, &b, true));
    if bout != out && !(bout.starts_with("panic") && out.starts_with("panic")) {
        let cut = |s: &str| if s.len() > 300 { format!("{}…", &s[..300]) } else { s.to_string() };
        Some((format!("{}@{}", class, algo), format!("special run: {} / plain run ({}): {}", cut(out), b.ty, cut(&bout))))
    } else {
        None
    }
}

fn run_op_w(ctx: &mut Ctx, op: &str, watchdog: bool) {
    match parse_op(op) {
        Some(Op::One(algo, c)) if in_contract(&algo, &c) => {
            let res = run_impl(&algo, &c, watchdog);
            let (out, verdict) = judge(ctx, &algo, &c, res);
            count_classes(ctx, &c);
            let dep = against_baseline(&algo, &c, &out);
            let idx = ctx.record(op.to_string(), out, nontrivial(&c));
            if let Some((sig, what)) = verdict {
                ctx.fail(idx, sig, what);
            } else if let Some((sig, what)) = dep {
                ctx.fail(idx, &sig, what);
            }
        }
        Some(Op::Twice(algo, a, b)) if in_contract(&algo, &a) && in_contract(&algo, &b) => {
            let (ra, rb) = match run_twice(&algo, &a, &b) {
                Caught::Ok((ra, rb)) => (Caught::Ok(ra), Caught::Ok(rb)),
                Caught::Panic(m) => (Caught::Panic(m.clone()), Caught::Panic(m)),
                Caught::Hang => (Caught::Hang, Caught::Hang),
            };
            let (oa, va) = judge(ctx, &algo, &a, ra);
            let (ob, vb) = judge(ctx, &algo, &b, rb);
            ctx.count("reuse");
            let idx = ctx.record(op.to_string(), format!("{} ;; {}", oa, ob), nontrivial(&a) || nontrivial(&b));
            if let Some((sig, what)) = va.or(vb) {
                ctx.fail(idx, sig, what);
            }
        }
        Some(Op::Many(algo, pool_size, cases)) if cases.iter().all(|c| in_contract(&algo, c)) => {
            // (d) many calls at once; every result must be the sequential one
            let rs: Vec<Caught<Res>> = match run_many(&algo, pool_size, &cases) {
                Caught::Ok(v) => v
                    .into_iter()
                    .map(|r| match r {
                        Some(r) => Caught::Ok(r),
                        None => Caught::Panic("? (a concurrent call panicked)".into()),
                    })
                    .collect(),
                Caught::Panic(m) => cases.iter().map(|_| Caught::Panic(m.clone())).collect(),
                Caught::Hang => cases.iter().map(|_| Caught::Hang).collect(),
            };
            let mut outs = Vec::new();
            let mut fails: Vec<(String, String)> = Vec::new();
            for (c, r) in cases.iter().zip(rs) {
                let (out, verdict) = judge(ctx, &algo, c, r);
                if let Some((sig, what)) = verdict {
                    fails.push((sig.to_string(), what));
                } else {
                    let mut c1 = c.clone();
                    c1.threads = 1;
                    c1.ctxt = "";
                    let seq = canon(&run_impl(&algo, &c1, true));
                    if seq != out {
                        fails.push((format!("context-dependent@{}", algo), format!("concurrent: {} / sequential: {}", out, seq)));
                    }
                }
                outs.push(out);
            }
            ctx.count(&format!("context:many_at_once_pool{}", pool_size));
            let idx = ctx.record(op.to_string(), outs.join(" ;; "), cases.iter().any(nontrivial));
            if let Some((sig, what)) = fails.into_iter().next() {
                ctx.fail(idx, &sig, what);
            }
        }
        Some(Op::Loads(c)) if in_contract_loads(&c) => {
            let k = 1 + c.ids.iter().copied().max().unwrap_or(0);
            let want = loads(&c.ws, &c.ids, k);
            let mut verdict: Option<(&'static str, String)> = None;
            let out = match run_loads(&c) {
                Caught::Ok(got) => {
                    if got != want {
                        let j = got.iter().zip(&want).position(|(a, b)| a != b).unwrap_or(got.len().min(want.len()));
                        verdict = Some((
                            "parts-load-wrong",
                            format!(
                                "compute_parts_load: {} parts returned for {}; first difference at part {}: {:?} instead of {:?}",
                                got.len(), k, j, got.get(j), want.get(j)
                            ),
                        ));
                    }
                    format!("loads {}", got.iter().map(|x| x.to_string()).collect::<Vec<_>>().join(" "))
                }
                Caught::Panic(m) => {
                    verdict = Some(("panic", format!("{} [{}]", m, panic_sig(&m))));
                    format!("panic {}", m)
                }
                Caught::Hang => {
                    verdict = Some(("hang", "no answer within 60 s".into()));
                    "hang".into()
                }
            };
            ctx.count(&format!("loads_{}", out.split(' ').next().unwrap_or("")));
            if let Some(t) = ty_spec(&c.ty) {
                ctx.count(&format!("loads_type_{}", t.base));
                ctx.count(&format!("loads_variant_{}", t.variant));
            }
            let idx = ctx.record(op.to_string(), out, c.ws.len() >= 2 && k >= 2);
            if let Some((sig, what)) = verdict {
                ctx.fail(idx, sig, what);
            }
        }
        _ => {
            // unparsable, or outside the exactness contract (overflowing sums, inexact floats)
            ctx.record(op.to_string(), "bad-op".into(), false);
        }
    }
}

const TYPES: [&str; 3] = ["i64", "u64", "f64"];
const ALGOS: [&str; 2] = ["best", "first"];

/// Odometer over `{0..base}^len`; returns false after the last vector.
fn next_vec(v: &mut [usize], base: usize) -> bool {
    for x in v.iter_mut() {
        if *x + 1 < base {
            *x += 1;
            return true;
        }
        *x = 0;
    }
    false
}

fn exhaustive_pass(ctx: &mut Ctx, maxlen: usize, pass_threads: usize) {
    let mut case_no = 0usize;
    for len in 0..=maxlen {
        let mut w = vec![0usize; len];
        loop {
            let ws: Vec<i64> = w.iter().map(|&x| x as i64).collect();
            let mut ids = vec![0usize; len];
            loop {
                for algo in ALGOS {
                    let ty = TYPES[(case_no / 2) % 3];
                    let threads = if (case_no / 6) % 2 == 0 { 1 } else { 4 };
                    if len <= 3 {
                        // tiny: every type in both pool sizes
                        for t in TYPES {
                            run_op_w(ctx, &format_op(algo, t, pass_threads, &ws, &ids), false);
                        }
                    } else if threads == pass_threads {
                        run_op_w(ctx, &format_op(algo, ty, threads, &ws, &ids), false);
                    }
                    case_no += 1;
                }
                if !next_vec(&mut ids, 3) {
                    break;
                }
            }
            if !next_vec(&mut w, 4) {
                break;
            }
        }
    }
}

// ------------------------------------------------------------------ large-n / corner stream

#[derive(Clone, Copy, PartialEq, Debug)]
enum IdShape {
    /// uniformly random part of every element
    Random,
    /// all of part 0 first, then part 1, …: equal blocks
    Blocked,
    /// ascending, block lengths random (a sorted random id vector)
    Sorted,
    /// ascending in blocks of 8192 elements (part = index / 8192, as many parts as it takes)
    Blocks8192,
}

fn make_ids(rng: &mut Rng, n: usize, parts: usize, shape: IdShape) -> Vec<usize> {
    match shape {
        IdShape::Random => {
            let mut v: Vec<usize> = (0..n).map(|_| rng.usize(parts)).collect();
            // every part id occurs (the part count is 1 + max id)
            if n >= parts {
                v[n - 1] = parts - 1;
            }
            v
        }
        IdShape::Blocked => (0..n).map(|j| (j * parts / n.max(1)).min(parts - 1)).collect(),
        IdShape::Sorted => {
            let mut v: Vec<usize> = (0..n).map(|_| rng.usize(parts)).collect();
            if n >= parts {
                v[n - 1] = parts - 1;
            }
            v.sort_unstable();
            v
        }
        IdShape::Blocks8192 => (0..n).map(|j| j / 8192).collect(),
    }
}

fn make_weights(rng: &mut Rng, n: usize, shape: usize) -> Vec<i128> {
    (0..n)
        .map(|_| {
            (match shape % 4 {
                0 => rng.range(0, 1000),
                1 => rng.range(1, 3),
                2 => rng.range(0, 1 << 30),
                _ => {
                    if rng.chance(1, 2) {
                        0
                    } else {
                        rng.range(1, 9)
                    }
                }
            }) as i128
        })
        .collect()
}

fn size_class(n: usize) -> &'static str {
    match n {
        0..=4096 => "<=4096",
        4097..=8192 => "4097..8192",
        8193..=16384 => "8193..16384",
        16385..=32768 => "16385..32768",
        32769..=65536 => "32769..65536",
        65537..=131072 => "65537..131072",
        _ => "131073+",
    }
}

fn run_large(ctx: &mut Ctx, algo: &str, c: &Case) {
    ctx.count(&format!("large:{}", size_class(c.ws.len())));
    run_op(ctx, &format_case(algo, c));
}

/// Many moves in ONE VnBest call: `heavy_per_part` weights of 10^6 in every part (evenly spread,
/// never moved) and `units` unit weights all in part 0: the levelling takes about
/// `units * (parts-1) / parts` moves of one unit each.
fn many_moves_case(rng: &mut Rng, parts: usize, heavy_per_part: usize, units: usize, ty: &str, threads: usize) -> Case {
    let mut items: Vec<(i128, usize)> = Vec::new();
    for p in 0..parts {
        for _ in 0..heavy_per_part {
            items.push((1_000_000, p));
        }
    }
    for _ in 0..units {
        items.push((1, 0));
    }
    rng.shuffle(&mut items);
    plain(ty, threads, items.iter().map(|x| x.0).collect(), items.iter().map(|x| x.1).collect())
}

/// Largest total of the weight type, in protocol units (f64: exact integers; `f64e971`: the
/// unit is 2^971, so 2^53 - 1 units = f64::MAX).
fn type_max(ty: &str) -> i128 {
    match ty {
        "i64" => i64::MAX as i128,
        "u64" => u64::MAX as i128,
        _ => (1i128 << 53) - 1,
    }
}

/// HALF-RANGE stream: one weight above half of the type's range (so `w + w`, `2 * w`, `w - (-w)`
/// … do not fit although every total does), or two weights just below half of it, among a few
/// small weights whose moves are what improves the gap.  Systematic over: both algorithms,
/// 2 and 3 parts, i64 / u64 / f64 near 2^53 / f64 near 2^1023, the big weight first / at index 1
/// (the first index `vn_first` visits) / in the middle / last, and three placements of the small
/// weights (spread over the parts; all in the other parts; those visited before the big weight
/// in the other parts – so that the scan of `vn_first` reaches the big weight).  A weight above
/// half of the range is necessarily in the heaviest part (the other parts hold at most the
/// rest of the total); "in the lighter part" is covered by the pairs just below half.
fn half_range_stream(ctx: &mut Ctx) {
    let mut rng = ctx.rng.clone();
    let pools = [1usize, 2, 3, 4];
    let mut no = 0usize;
    for ty in ["i64", "u64", "f64", "f64e971"] {
        let tmax = type_max(ty);
        let half = tmax / 2;
        for parts in [2usize, 3] {
            for n in [3usize, 8] {
                let mut positions = vec![0usize, 1, n / 2, n - 1];
                positions.dedup();
                for &pos in &positions {
                    for placement in 0..3usize {
                        for big_kind in 0..3usize {
                            let smalls: Vec<i128> = (0..n).map(|_| rng.range(1, 1000) as i128).collect();
                            let ssum: i128 = smalls.iter().sum::<i128>() - smalls[pos];
                            let big = match big_kind {
                                0 => half + 1,
                                1 => half + 1 + rng.range(1, 1 << 20) as i128,
                                _ => tmax - ssum, // the total is exactly the type's maximum
                            };
                            let bp = rng.usize(parts); // part of the big weight
                            let other = |rng: &mut Rng| (bp + 1 + rng.usize(parts - 1)) % parts;
                            let mut ws = smalls.clone();
                            ws[pos] = big;
                            // visiting order of vn_first: 1, 2, …, n-1, 0
                            let before_big = |j: usize| (j + n - 1) % n < (pos + n - 1) % n;
                            let mut ids: Vec<usize> = (0..n)
                                .map(|j| match placement {
                                    0 => rng.usize(parts),
                                    1 => other(&mut rng),
                                    _ => if before_big(j) { other(&mut rng) } else { rng.usize(parts) },
                                })
                                .collect();
                            ids[pos] = bp;
                            // the part count is 1 + max id: make the last part occur
                            if !ids.contains(&(parts - 1)) {
                                let j = (pos + 1) % n;
                                ids[j] = parts - 1;
                            }
                            for algo in ALGOS {
                                no += 1;
                                ctx.count(&format!("corner:half_range_{}", ty));
                                run_op(ctx, &format_case(algo, &plain(ty, pools[no % 4], ws.clone(), ids.clone())));
                            }
                        }
                    }
                }
            }
            // two weights just below half of the range: same part / different parts, every pair of
            // the positions first / 1 / middle / last
            let n = 7usize;
            let spots = [0usize, 1, n / 2, n - 1];
            for a in 0..spots.len() {
                for b in 0..spots.len() {
                    if a == b {
                        continue;
                    }
                    for same in [false, true] {
                        let mut ws: Vec<i128> = (0..n).map(|_| rng.range(1, 1000) as i128).collect();
                        let ssum: i128 = ws.iter().sum::<i128>() - ws[spots[a]] - ws[spots[b]];
                        // w1 + w2 + ssum <= tmax - 0/1
                        ws[spots[a]] = half - rng.range(0, 3) as i128;
                        ws[spots[b]] = half - ssum + rng.range(0, 1) as i128 - 1;
                        let pa = rng.usize(parts);
                        let pb = if same { pa } else { (pa + 1 + rng.usize(parts - 1)) % parts };
                        let mut ids: Vec<usize> = (0..n).map(|_| rng.usize(parts)).collect();
                        ids[spots[a]] = pa;
                        ids[spots[b]] = pb;
                        if !ids.contains(&(parts - 1)) {
                            ids[2] = parts - 1;
                        }
                        for algo in ALGOS {
                            no += 1;
                            ctx.count(&format!("corner:two_below_half_{}", ty));
                            run_op(ctx, &format_case(algo, &plain(ty, pools[no % 4], ws.clone(), ids.clone())));
                        }
                    }
                }
            }
        }
    }
    ctx.rng = rng;
    ctx.notes.push("half-range stream: one weight above half of the type's range (half+1, half+random, total exactly the type's maximum) or two weights just below half, systematic over both algorithms x 2/3 parts x i64/u64/f64 (2^53 regime)/f64 scaled by 2^971 (weights up to 2^1023, finite totals) x position first/1/middle/last x three placements of the small weights".to_string());
}

// ------------------------------------------------- special values / plumbing / context streams

fn small_case(rng: &mut Rng, ty: &str, threads: usize, n: usize, parts: usize, wmax: i64) -> Case {
    let ws: Vec<i128> = (0..n).map(|_| rng.range(0, wmax) as i128).collect();
    let mut ids: Vec<usize> = (0..n).map(|_| rng.usize(parts)).collect();
    if n > 0 {
        let j = rng.usize(n);
        ids[j] = parts - 1;
    }
    plain(ty, threads, ws, ids)
}

/// Runs `ops` in a fresh child process (`verif-harness replay`), so that the FIRST call of that
/// process is `ops[0]`; returns the child's canonical output lines.
fn child_outputs(ops: &[String], tag: usize) -> Option<Vec<String>> {
    let exe = std::env::current_exe().ok()?;
    let dir = std::env::temp_dir().join(format!("c14-child-{}-{}", std::process::id(), tag));
    std::fs::create_dir_all(&dir).ok()?;
    let f = dir.join("ops.txt");
    let text: String = ops.iter().map(|o| format!("C14 {}\n", o)).collect();
    std::fs::write(&f, text).ok()?;
    let out = dir.join("out");
    let mut child = std::process::Command::new(exe)
        .arg("replay")
        .arg("C14")
        .arg("--ops")
        .arg(&f)
        .arg("--out")
        .arg(&out)
        .stdout(std::process::Stdio::null())
        .stderr(std::process::Stdio::null())
        .spawn()
        .ok()?;
    let t0 = std::time::Instant::now();
    let ok = loop {
        match child.try_wait() {
            Ok(Some(st)) => break st.success(),
            Ok(None) => {
                if t0.elapsed() > std::time::Duration::from_secs(120) {
                    let _ = child.kill();
                    let _ = child.wait();
                    break false;
                }
                std::thread::sleep(std::time::Duration::from_millis(10));
            }
            Err(_) => break false,
        }
    };
    let lines = if ok {
        std::fs::read_to_string(out.join("impl.txt")).ok().map(|t| t.lines().map(|l| l.to_string()).collect())
    } else {
        None
    };
    let _ = std::fs::remove_dir_all(&dir);
    lines
}

fn special_stream(ctx: &mut Ctx) {
    let quick = ctx.quick();
    let mut rng = ctx.rng.clone();
    let pools = [1usize, 2, 3, 4, 16];
    let mut no = 0usize;

    // ---- 1. signed zero: -0.0 is a legal non-negative weight (an odd and an even number of them)
    for algo in ALGOS {
        for ty in ["f64", "f32", "f64e-1073", "f64e971", "f64@tools"] {
            for (n, parts) in [(6usize, 2usize), (9, 3), (10, 4)] {
                for shape in 0..4usize {
                    no += 1;
                    let mut c = small_case(&mut rng, ty, pools[no % 5], n, parts, 9);
                    // zeros at about half of the positions
                    let zeros: Vec<usize> = (0..n).filter(|j| (j + shape) % 2 == 0).collect();
                    for &j in &zeros {
                        c.ws[j] = 0;
                    }
                    match shape {
                        // an odd number of -0.0
                        0 => { for &j in zeros.iter().take(1 + 2 * (zeros.len().saturating_sub(1) / 2).min(1)) { c.nz[j] = true; } }
                        // an even number
                        1 => { for &j in zeros.iter().take(2) { c.nz[j] = true; } }
                        // one part holds nothing but -0.0 weights
                        2 => { for j in 0..n { if c.ids[j] == 0 { c.ws[j] = 0; c.nz[j] = true; } } }
                        // every weight is -0.0 (zero total: Ok(0), array untouched)
                        _ => { for j in 0..n { c.ws[j] = 0; c.nz[j] = true; } }
                    }
                    run_op(ctx, &format_case(algo, &c));
                }
            }
        }
    }

    // ---- 2. subnormal and extreme magnitudes: the integers times an exact power of two
    for algo in ALGOS {
        for parts in [2usize, 3, 5] {
            no += 1;
            let th = pools[no % 5];
            // 64 weights of about 1e-310 (subnormal; unit 2^-1073)
            let ids: Vec<usize> = (0..64).map(|j| if j == 7 { parts - 1 } else { rng.usize(parts) }).collect();
            let ws: Vec<i128> = (0..64).map(|_| 10_000_000_000_000 + rng.range(0, 1000) as i128).collect();
            run_op(ctx, &format_case(algo, &plain("f64e-1073", th, ws, ids)));
            // tiny subnormals: 5e-324 .. 1e-320 (all even multiples of the smallest subnormal)
            run_op(ctx, &format_case(algo, &small_case(&mut rng, "f64e-1073", th, 12, parts, 1000)));
            // the smallest normal 2^-1022 (= 2^51 units) on both sides, subnormal and normal mixed
            let mut c = small_case(&mut rng, "f64e-1073", th, 10, parts, 1 << 20);
            for (j, d) in [(1usize, -1i128), (4, 0), (6, 1)] {
                c.ws[j] = (1i128 << 51) + d;
            }
            run_op(ctx, &format_case(algo, &c));
            // the same around 2^-1022 as the TOTAL
            let mut c = small_case(&mut rng, "f64e-1073", th, 10, parts, 1 << 47);
            c.ws[3] += (1i128 << 51) - c.ws.iter().sum::<i128>().min(1 << 51);
            run_op(ctx, &format_case(algo, &c));
            // a few weights around 5e307 (2^1021.5), finite total, total x 1.01 overflows
            let mut c = small_case(&mut rng, "f64e971", th, 9, parts, 1 << 30);
            for j in [1usize, 2, 5] {
                c.ws[j] = 2_500_000_000_000_000 + rng.range(0, 1 << 40) as i128; // ~ 2^51.15 units
            }
            let rest = (1i128 << 53) - 1 - c.ws.iter().sum::<i128>();
            c.ws[7] = rest - rng.range(0, 1 << 44) as i128; // total within 0.2 % of f64::MAX
            run_op(ctx, &format_case(algo, &c));
            // one weight f64::MAX/2 (within one unit), the rest tiny relative to it
            for big in [(1i128 << 52) - 1, 1i128 << 52] {
                let mut c = small_case(&mut rng, "f64e971", th, 7, parts, 1000);
                c.ws[1] = big;
                run_op(ctx, &format_case(algo, &c));
            }
            // middle scales, both directions
            for k in [-1050i32, -1022, -537, 511, 900, 970] {
                run_op(ctx, &format_case(algo, &small_case(&mut rng, &format!("f64e{}", k), th, 11, parts, 1 << 30)));
            }
        }
    }

    // ---- 4. input-type plumbing: every input type / weight type the impl accepts, same data
    for algo in ALGOS {
        let variants: &[&str] = if algo == "best" { &BEST_VARIANTS } else { &FIRST_VARIANTS };
        for &v in variants {
            for base in ["i64", "u64", "f64", "i32", "u32", "f32", "usize", "i128"] {
                if v == "tools" && !(base == "i64" || base == "f64") {
                    continue;
                }
                if v == "vec" && base64(base) == base {
                    continue; // the plain case
                }
                let sizes: &[usize] = if v == "array" { &[4, 8] } else if quick { &[5, 37] } else { &[2, 5, 37, 300] };
                for &n in sizes {
                    no += 1;
                    let parts = 2 + no % 4;
                    let c = small_case(&mut rng, &format!("{}@{}", base, v), pools[no % 5], n, parts.min(n.max(1)), 60);
                    run_op(ctx, &format_case(algo, &c));
                }
            }
        }
        // errors through inexact-size iterators / odd slices: negative weight, length mismatch
        for &v in variants {
            if v == "array" {
                continue;
            }
            let mut c = small_case(&mut rng, &format!("i64@{}", v), 2, 7, 3, 9);
            c.ws[rng.usize(7)] = -3;
            run_op(ctx, &format_case(algo, &c));
            let mut c = small_case(&mut rng, &format!("f64@{}", v), 3, 7, 3, 9);
            c.ids.truncate(5);
            run_op(ctx, &format_case(algo, &c));
        }
    }

    // ---- 5. calling context: global pool, inside a join task, inside a scope spawn
    for algo in ALGOS {
        for ctxt in ["g", "j", "s"] {
            for &th in if ctxt == "g" { &[1usize][..] } else { &[1usize, 2, 3, 16][..] } {
                for n in [9usize, 700, 5003] {
                    no += 1;
                    let mut c = small_case(&mut rng, TYPES[no % 3], th, n, 2 + no % 5, 1000);
                    c.ctxt = ctxt;
                    run_op(ctx, &format_case(algo, &c));
                }
            }
        }
        // (d) many calls at once on pools of 4 and 16 threads, 8-32 concurrent calls
        for pool_size in [4usize, 16] {
            for k in if quick { &[8usize, 32][..] } else { &[8usize, 16, 32, 64][..] } {
                let mut s = format!("many {} {} {}", algo, pool_size, k);
                for j in 0..*k {
                    no += 1;
                    let n = match j % 4 {
                        0 => 3 + rng.usize(20),
                        1 => 100 + rng.usize(400),
                        2 => 1000 + rng.usize(2000),
                        _ => 4097 + rng.usize(500),
                    };
                    let c = small_case(&mut rng, TYPES[no % 3], 1, n, 2 + no % 7, 1000);
                    push_case(&mut s, &c);
                }
                run_op(ctx, &s);
            }
        }
    }

    // ---- 6. process-level state: the first call of a fresh process is X, then other
    //         instantiations; every line must equal the in-process result
    let firsts: [(&str, &str); 6] =
        [("best", "f64"), ("first", "f64"), ("best", "u64"), ("first", "i32"), ("best", "f32@filter"), ("first", "i64@tools")];
    for (tag, (a0, t0)) in firsts.iter().enumerate() {
        let mut ops: Vec<String> = Vec::new();
        ops.push(format_case(a0, &small_case(&mut rng, t0, 2, 12, 3, 50)));
        for j in 0..5usize {
            let algo = ALGOS[(tag + j) % 2];
            let ty = ["i64", "f64", "u64", "f32", "i128", "f64e-1073", "u32"][(tag * 3 + j) % 7];
            ops.push(format_case(algo, &small_case(&mut rng, ty, pools[(tag + j) % 5], 8 + 3 * j, 2 + j % 3, 50)));
        }
        let child = child_outputs(&ops, tag);
        for (j, op) in ops.iter().enumerate() {
            let idx = ctx.ops.len();
            run_op(ctx, op);
            match &child {
                Some(lines) => {
                    ctx.count("context:fresh_process_sequence_op");
                    if ctx.ops.len() > idx && lines.get(j) != ctx.impl_out.get(idx) {
                        let algo = op.split(' ').next().unwrap_or("?").to_string();
                        ctx.fail(
                            idx,
                            &format!("process-state-dependent@{}", algo),
                            format!(
                                "op #{} of a fresh process whose first call is `{} {}`: {:?}; in this process: {:?}",
                                j, a0, t0, lines.get(j), ctx.impl_out.get(idx)
                            ),
                        );
                    }
                }
                None => ctx.count("context:fresh_process_unavailable"),
            }
        }
    }
    ctx.rng = rng;
    ctx.notes.push("special / plumbing / context stream: -0.0 weights (odd and even counts, a part of only -0.0, all -0.0) compared with the +0.0 run; f64 weights scaled by exact powers of two from 2^-1073 (subnormal weights and totals, the smallest normal on both sides) to 2^971 (f64::MAX/2, totals within 0.2 % of f64::MAX) compared with the unscaled run; every input type the Partition impls accept (VnBest: Vec, slice iterators, arrays, VecDeque, boxed dyn iterator, adaptors with inexact size_hint: filter / flat_map / from_fn / chain; VnFirst: Vec, boxed slice, window of a larger allocation, array) and weight types i32 / u32 / f32 / usize / i128 next to i64 / u64 / f64, and the tools entry point coupe_tools::parse_algorithm(\"vn-best\" | \"vn-first\"), compared with the Vec / 64-bit run; calling contexts: global pool, inside rayon::join, inside a scope spawn, 8-32 (thorough 64) calls at once in pools of 4 and 16 threads compared with the sequential result; six fresh child processes whose first call is a given instantiation followed by other types / algorithms, compared line by line with this process".to_string());
}

// ------------------------------------------------------------ raw-float ("ping-pong") stream

fn ulps(x: f64, d: i64) -> f64 {
    f64::from_bits((x.to_bits() as i64 + d) as u64)
}

/// Non-integer-valued f64 weights whose part loads ROUND: 1.0 and its neighbours, tenths, thirds,
/// sevenths, at magnitudes 1e-300 … 1e300.  Before commit bff6050 VnBest never returned on
/// `[1.0, 0.9999999999999999, 1.0]` / `[1,0,0]` (the middle weight went back and forth).
/// Oracle (exact arithmetic on the f64 values): returns within the watchdog, ids in range, the gap
/// between the exact part loads is not larger.  The model line is `skip` (see the driver).
fn raw_float_stream(ctx: &mut Ctx) {
    let quick = ctx.quick();
    let mut rng = ctx.rng.clone();
    let pools = [1usize, 1, 4, 2];
    let mut no = 0usize;
    let mut emit = |ctx: &mut Ctx, no: &mut usize, algo: &str, v: Vec<f64>, ids: Vec<usize>| {
        *no += 1;
        if let Some(c) = raw_case("f64bits", pools[*no % 4], v, ids) {
            ctx.count("special:float_ping_pong");
            run_op(ctx, &format_case(algo, &c));
        } else {
            ctx.count("special:float_ping_pong_not_exact_skipped");
        }
    };
    let one = 1.0f64;
    let near_one = [ulps(one, -2), ulps(one, -1), one, ulps(one, 1), ulps(one, 2)];
    // exhaustive: 3 weights around 1.0 x all two-part id vectors, at several magnitudes
    let mags: &[f64] = if quick { &[1.0, 1e-300, 1e300, 3.0] } else { &[1.0, 1e-300, 1e-100, 1e-10, 0.1, 3.0, 1e10, 1e100, 1e300] };
    for &mag in mags {
        for a in [1usize, 2, 3] {
            for b in 0..5usize {
                for c in [1usize, 2, 3] {
                    for idbits in 0..8usize {
                        let v = vec![near_one[a] * mag, near_one[b] * mag, near_one[c] * mag];
                        let ids: Vec<usize> = (0..3).map(|j| (idbits >> j) & 1).collect();
                        for algo in ALGOS {
                            emit(ctx, &mut no, algo, v.clone(), ids.clone());
                        }
                    }
                }
            }
        }
    }
    // exhaustive: 4 weights from tenths / thirds, two and three parts
    let frac = [0.1f64, 0.2, 0.3, 1.0 / 3.0, 2.0 / 3.0, 0.7];
    let nfr = if quick { 4 } else { 6 };
    let mut w = vec![0usize; 4];
    loop {
        let v: Vec<f64> = w.iter().map(|&j| frac[j]).collect();
        for idv in [[0usize, 1, 0, 1], [1, 0, 0, 0], [0, 0, 1, 1], [0, 1, 2, 0], [2, 0, 0, 1], [0, 0, 0, 1]] {
            for algo in ALGOS {
                emit(ctx, &mut no, algo, v.clone(), idv.to_vec());
            }
        }
        if !next_vec(&mut w, nfr) {
            break;
        }
    }
    // random: k/10, k/3, k/7 and 1-ulp perturbations at decimal magnitudes 1e-300 … 1e300
    for _ in 0..ctx.budget(1500, 30000) {
        let long = rng.chance(1, 5);
        let n = 3 + rng.usize(if long { 40 } else { 9 });
        let parts = 2 + rng.usize(3);
        let mag = match rng.usize(8) {
            0 => 1e-300,
            1 => 1e300 / 64.0,
            2 => 10f64.powi(rng.range(-290, 290) as i32),
            3 => 2f64.powi(rng.range(-1000, 1000) as i32),
            _ => 1.0,
        };
        let style = rng.usize(5);
        let v: Vec<f64> = (0..n)
            .map(|_| {
                let x = match style {
                    0 => rng.range(0, 12) as f64 / 10.0,
                    1 => rng.range(0, 7) as f64 / 3.0,
                    2 => rng.range(1, 9) as f64 / 7.0,
                    3 => ulps(1.0, rng.range(-3, 3)),
                    _ => *rng.pick(&[0.1, 0.2, 0.3, 1.0 / 3.0, 1.0, 0.9999999999999999, 0.5, 0.7]),
                };
                x * mag
            })
            .collect();
        let ids: Vec<usize> = (0..n).map(|j| if j == n - 1 { parts - 1 } else { rng.usize(parts) }).collect();
        let algo = *rng.pick(&ALGOS);
        emit(ctx, &mut no, algo, v, ids);
    }
    ctx.rng = rng;
    ctx.notes.push("raw-float stream: non-integer-valued f64 weights whose part loads round (1.0 and its 1-2 ulp neighbours, tenths, thirds, sevenths, magnitudes 1e-300..1e300; exhaustive over 3 weights around 1.0 x 2-part ids and over 4 weights from the tenths/thirds x 6 id vectors, plus random vectors of 3-42 weights), under the 60 s watchdog; oracle in exact arithmetic on the f64 values (terminates, ids in range, gap not larger); the model declines these (rounded part loads depend on rayon's summation order)".to_string());
}

// ------------------------------------------------------------ typed-large stream

/// The weight types that are NOT eight bytes wide (1, 2, 4, 16 bytes) and the pointer-sized pair.
const OTHER_TYPES: [&str; 11] = ["u32", "i32", "f32", "u16", "i16", "u8", "i8", "u128", "i128", "usize", "isize"];

/// Largest total the protocol admits in a weight type (see [fits_type]).
fn type_total_max(base: &str) -> i128 {
    match base {
        "i64" => i64::MAX as i128,
        "u64" => u64::MAX as i128,
        "isize" => isize::MAX as i128,
        "usize" => usize::MAX as i128,
        "i32" => i32::MAX as i128,
        "u32" => u32::MAX as i128,
        "i16" => i16::MAX as i128,
        "u16" => u16::MAX as i128,
        "i8" => i8::MAX as i128,
        "u8" => u8::MAX as i128,
        "i128" | "u128" => (1i128 << 100) - 1,
        "f32" => (1i128 << 24) - 1,
        _ => (1i128 << 53) - 1,
    }
}

/// If the total exceeds `tmax`: keep the weights of a RANDOM subset of the positions (spread over
/// the whole input) up to a budget of `tmax` (half of the time exactly `tmax`), zero elsewhere.
fn fit_total(rng: &mut Rng, ws: &mut [i128], tmax: i128) {
    let total: i128 = ws.iter().sum();
    if total <= tmax {
        return;
    }
    let mut order: Vec<usize> = (0..ws.len()).collect();
    rng.shuffle(&mut order);
    let slack = if rng.chance(1, 2) { 0 } else { rng.range(0, (tmax / 4).min(1000) as i64) as i128 };
    let mut budget = tmax - slack;
    let mut keep = vec![0i128; ws.len()];
    for j in order {
        if budget == 0 {
            break;
        }
        let w = ws[j].min(budget);
        keep[j] = w;
        budget -= w;
    }
    ws.copy_from_slice(&keep);
}

/// `n` non-negative weights whose total fits the type `base`, in one of five shapes scaled to the
/// type's range (narrow types and long inputs end up with sparse unit weights).
fn typed_weights(rng: &mut Rng, base: &str, n: usize, shape: usize) -> Vec<i128> {
    let tmax = type_total_max(base);
    let per = (tmax / n.max(1) as i128).max(1);
    let mut ws: Vec<i128> = (0..n)
        .map(|_| match shape % 5 {
            // dense, the total fits by construction
            0 => rng.range(0, per.min(1000) as i64) as i128,
            // four times that: cut down to a total of (nearly) exactly the type's maximum
            1 => rng.range(0, (4 * per).min(1000) as i64) as i128,
            // ties
            2 => rng.range(1, 2) as i128,
            // mostly zeros
            3 => {
                if rng.chance(1, 2) {
                    0
                } else {
                    rng.range(1, 9) as i128
                }
            }
            // as wide as the type allows on average (up to 2^80 in the 128-bit types)
            _ => {
                let hi = per.min(1i128 << 80) as u128;
                ((((rng.next() as u128) << 64) | rng.next() as u128) % (hi + 1)) as i128
            }
        })
        .collect();
    fit_total(rng, &mut ws, tmax);
    ws
}

/// An already balanced input: `m` weights of `c` (m a multiple of the part count, dealt round
/// robin to the parts in input order), one of them `c - 1`, zeros elsewhere: the gap is 1 and every
/// move of a positive weight makes it larger – both algorithms must leave the part loads alone
/// (an implementation that starts from a wrong load table moves something and worsens the gap).
fn balanced_case(rng: &mut Rng, ty: &str, threads: usize, n: usize, parts: usize) -> Option<Case> {
    let tmax = type_total_max(ty);
    let c: i128 = 2 + rng.usize(2) as i128;
    let mut m = n.min((tmax / c).min(1 << 40) as usize);
    if rng.chance(1, 2) {
        m = m * 2 / 3;
    }
    m = m / parts * parts;
    if m == 0 {
        return None;
    }
    let mut pos: Vec<usize> = (0..n).collect();
    rng.shuffle(&mut pos);
    pos.truncate(m);
    pos.sort_unstable();
    let mut ws = vec![0i128; n];
    let mut ids: Vec<usize> = (0..n).map(|_| rng.usize(parts)).collect();
    for (j, &p) in pos.iter().enumerate() {
        ws[p] = c;
        ids[p] = j % parts;
    }
    ws[pos[rng.usize(m)]] -= 1;
    Some(plain(ty, threads, ws, ids))
}

fn typed_size_class(n: usize) -> &'static str {
    match n {
        0..=2048 => "<=2048",
        2049..=4096 => "2049..4096",
        4097..=8192 => "4097..8192",
        8193..=16384 => "8193..16384",
        16385..=32768 => "16385..32768",
        32769..=65536 => "32769..65536",
        _ => "65537+",
    }
}

/// TYPED-LARGE stream: the same algorithms (and the shared `compute_parts_load`) instantiated with
/// every OTHER legal weight type – 1, 2, 4 and 16 bytes wide, and usize / isize – on inputs of
/// thousands of elements (the type-plumbing part of the special stream stops at 300 elements, the
/// large-n stream runs the three 8-byte types only).  Judged by the O(n) oracle (gap computed in
/// i128 from the returned ids, total redistributed), compared with the run of the same data in
/// the 64-bit type of the same class (input-type-dependent@algo: same count and ids expected,
/// nothing overflows inside the contract) and compared exactly with the model.  `loads` ops run
/// `compute_parts_load` alone on the same data in the three ways the algorithms hand it the weights.
fn typed_large_stream(ctx: &mut Ctx) {
    let quick = ctx.quick();
    // an own generator derived from the run's: the streams after this one see the same inputs
    // whether or not this stream is there
    let mut rng = Rng::new(ctx.rng.0 ^ 0x7C14_7C14_7C14_7C14);
    let pools = [1usize, 2, 3, 4, 16];
    let shapes = [IdShape::Random, IdShape::Blocked, IdShape::Sorted];
    let mut no = rng.usize(60);
    let emit = |ctx: &mut Ctx, rng: &mut Rng, no: &mut usize, what: &str, ty: &str, n: usize, parts: usize| {
        *no += 1;
        let ws = typed_weights(rng, ty, n, *no);
        let ids = make_ids(rng, n, parts.max(1), shapes[*no % 3]);
        ctx.count(&format!("typed_large:type_{}", ty));
        ctx.count(&format!("typed_large:n_{}", typed_size_class(n)));
        ctx.count(&format!("typed_large:parts_{}", if parts <= 8 { parts.to_string() } else { "9+".into() }));
        if ws.iter().sum::<i128>() > type_total_max(base64(ty)) {
            ctx.count("typed_large:beyond_64_bits_no_baseline_run");
        }
        for (j, op) in what.split(',').enumerate() {
            let threads = pools[(*no + 2 * j) % 5];
            if op == "loads" {
                let c = plain(&format!("{}@{}", ty, LOADS_VARIANTS[(*no + j) % 3]), threads, ws.clone(), ids.clone());
                if !in_contract_loads(&c) {
                    ctx.count("typed_large:outside_contract_not_run");
                    continue;
                }
                run_op(ctx, &format_case("loads", &c));
            } else {
                let c = plain(ty, threads, ws.clone(), ids.clone());
                if !in_contract(op, &c) {
                    ctx.count("typed_large:outside_contract_not_run");
                    continue;
                }
                run_op(ctx, &format_case(op, &c));
            }
        }
    };

    // ---- systematic: sizes x types (both algorithms and the load table on the same data);
    //      part counts, pools, id orders and weight shapes rotate
    let sizes: &[usize] = if quick { &[2049, 4097, 8193, 20001, 70001] } else { &[2048, 2049, 4096, 4097, 8193, 16385, 20001, 32769, 65537, 70001, 140003] };
    let part_counts: &[usize] = if quick { &[2, 3, 5, 8] } else { &[2, 3, 4, 5, 7, 8] };
    let mut rot = rng.usize(12);
    for &n in sizes {
        for ty in OTHER_TYPES {
            let rounds = if quick { 1 } else { 3 };
            for _ in 0..rounds {
                rot += 1;
                emit(ctx, &mut rng, &mut no, "best,first,loads", ty, n, part_counts[rot % part_counts.len()]);
            }
        }
        // the load table in the 8-byte types as well
        for ty in TYPES {
            rot += 1;
            emit(ctx, &mut rng, &mut no, "loads", ty, n, part_counts[rot % part_counts.len()]);
        }
    }
    // many parts (VnFirst costs parts^2 per element of the heaviest part: moderate sizes)
    for (j, ty) in OTHER_TYPES.iter().enumerate() {
        let (n, parts) = [(4097usize, 64usize), (8193, 257), (20001, 65), (2049, 256)][j % 4];
        emit(ctx, &mut rng, &mut no, "best,first,loads", ty, n, parts);
    }

    // ---- already balanced inputs (gap 1): nothing may move
    for (j, ty) in OTHER_TYPES.iter().enumerate() {
        let all = [2049usize, 4097, 8193, 20001, 70001];
        let ns: Vec<usize> = if quick { vec![all[(j + rot) % 5], all[(j + rot + 2) % 5]] } else { all.to_vec() };
        for n in ns {
            rot += 1;
            let parts = part_counts[rot % part_counts.len()];
            if let Some(c) = balanced_case(&mut rng, ty, pools[rot % 5], n, parts) {
                for algo in ALGOS {
                    if in_contract(algo, &c) {
                        ctx.count("typed_large:already_balanced");
                        ctx.count(&format!("typed_large:type_{}", ty));
                        ctx.count(&format!("typed_large:n_{}", typed_size_class(n)));
                        run_op(ctx, &format_case(algo, &c));
                    } else {
                        ctx.count("typed_large:outside_contract_not_run");
                    }
                }
            }
        }
    }

    // ---- randomised: sizes at and around the multiples of the power-of-two block lengths, or
    //      anywhere in the range; random type, part count, pool, id order, weight shape
    for _ in 0..ctx.budget(60, 700) {
        let n = if rng.chance(1, 2) {
            let b = *rng.pick(&[2048usize, 4096, 8192, 16384, 32768]);
            let k = 1 + rng.usize(if quick { 2 } else { 4 });
            (b * k + 2).saturating_sub(rng.usize(5)).max(2049)
        } else {
            2049 + rng.usize(if quick { 30000 } else { 110000 })
        };
        let ty = *rng.pick(&OTHER_TYPES);
        let parts = if n <= 20001 && rng.chance(1, 8) { *rng.pick(&[16usize, 64, 257]) } else { 2 + rng.usize(7) };
        let what = *rng.pick(&["best", "first", "best,loads", "first,loads", "best,first"]);
        emit(ctx, &mut rng, &mut no, what, ty, n, parts);
    }
    ctx.notes.push("typed-large stream: VnBest / VnFirst / compute_parts_load with the weight types u32 i32 f32 u16 i16 u8 i8 u128 i128 usize isize on 2049..70001 elements (thorough 2048..140003; systematic sizes x types, plus random sizes at and around multiples of 2048..32768), 2-8 / 16 / 64 / 257 parts, pools 1/2/3/4/16, random / blocked / sorted ids, five weight shapes scaled to the type's range (totals up to exactly the type's maximum; sparse unit weights in the 1- and 2-byte types) and already balanced inputs (gap 1: nothing may move); O(n) oracle in i128 + comparison with the 64-bit run of the same data + exact comparison with the model; `loads` ops check compute_parts_load alone against the naive table".to_string());
}

fn large_stream(ctx: &mut Ctx) {
    let quick = ctx.quick();
    let mut rng = ctx.rng.clone();
    let pools = [1usize, 2, 3, 16];
    let mut rot = rng.usize(12); // the order of the instantiations differs from run to run
    let mut next = |rot: &mut usize| {
        *rot += 1;
        (TYPES[*rot % 3], pools[*rot % 4])
    };

    // (a)/(b) sizes just above and far above block thresholds x id order x part counts
    let mut plan: Vec<(usize, usize, IdShape)> = vec![
        (8193, 257, IdShape::Random),
        (16384, 8, IdShape::Blocked),
        (20001, 64, IdShape::Sorted),
        (70001, 5, IdShape::Random),
        (70001, 0, IdShape::Blocks8192),
        (16422, 257, IdShape::Blocked),
        (20001, 3, IdShape::Blocked),
    ];
    if !quick {
        for &n in &[8193usize, 16384, 16422, 20001, 65548, 70001, 131077, 140003] {
            for &(parts, shape) in &[
                (2usize, IdShape::Blocked),
                (7, IdShape::Sorted),
                (8, IdShape::Random),
                (64, IdShape::Blocked),
                (64, IdShape::Random),
                (257, IdShape::Sorted),
                (0, IdShape::Blocks8192),
            ] {
                plan.push((n, parts, shape));
            }
        }
    }
    for (j, &(n, parts, shape)) in plan.iter().enumerate() {
        let ids = make_ids(&mut rng, n, parts.max(1), shape);
        let ws = make_weights(&mut rng, n, j);
        ctx.count(&format!("corner:ids_{:?}", shape).to_lowercase());
        for algo in ALGOS {
            let (ty, threads) = next(&mut rot);
            run_large(ctx, algo, &plain(ty, threads, ws.clone(), ids.clone()));
        }
    }

    // more than 8192 / more than 20000 moves in one VnBest call
    let mut mm: Vec<(usize, usize, usize)> = vec![(2, 1000, 18001), (2, 13000, 44001)];
    if !quick {
        mm.push((4, 2500, 30001));
        mm.push((3, 10001, 80000));
        mm.push((2, 1, 50001));
    }
    for &(parts, heavy, units) in &mm {
        let (ty, threads) = next(&mut rot);
        let c = many_moves_case(&mut rng, parts, heavy, units, ty, threads);
        ctx.count("corner:many_moves");
        run_large(ctx, "best", &c);
        if !quick {
            run_large(ctx, "first", &c);
        }
    }

    // VnFirst: a FULL cycle of the scan (no target accepted for 1..n-1), then the zero weight at
    // index 0 is accepted as the very last element; and the same without any acceptable move
    for &n in if quick { &[70001usize][..] } else { &[20001usize, 70001, 140003][..] } {
        let mut ws = vec![1i128; n];
        ws[0] = 0;
        let ids: Vec<usize> = (0..n).map(|j| if j == 0 { 0 } else { j % 2 }).collect();
        let (ty, threads) = next(&mut rot);
        ctx.count("corner:first_full_cycle");
        run_large(ctx, "first", &plain(ty, threads, ws, ids));
        let ws = vec![3i128; n + 1];
        let ids: Vec<usize> = (0..n + 1).map(|j| j * 2 / (n + 1)).collect();
        let (ty, threads) = next(&mut rot);
        run_large(ctx, "first", &plain(ty, threads, ws, ids));
    }

    // VnFirst: ~n/2 elements of the heaviest part are tried and rejected (too heavy to move)
    // before the light element at index 0 – visited last – is accepted
    for &m in if quick { &[10000usize][..] } else { &[4100usize, 10000, 35000][..] } {
        let mut items: Vec<(i128, usize)> = Vec::new();
        for _ in 0..m {
            items.push((1000, 0));
        }
        for _ in 0..m - 1 {
            items.push((1000, 1));
        }
        items.push((997, 1));
        rng.shuffle(&mut items);
        items.insert(0, (2, 0));
        let (ty, threads) = next(&mut rot);
        ctx.count("corner:first_late_accept");
        run_large(ctx, "first", &plain(ty, threads, items.iter().map(|x| x.0).collect(), items.iter().map(|x| x.1).collect()));
    }

    // part-count corners
    for &parts in &[63usize, 64, 65, 128, 255, 256, 257] {
        let n = 3 * parts + 1;
        for shape in [IdShape::Random, IdShape::Blocked] {
            let ids = make_ids(&mut rng, n, parts, shape);
            let ws = make_weights(&mut rng, n, parts);
            for algo in ALGOS {
                let (ty, threads) = next(&mut rot);
                ctx.count(&format!("corner:parts_{}", parts));
                run_op(ctx, &format_case(algo, &plain(ty, threads, ws.clone(), ids.clone())));
            }
        }
    }
    // thousands of parts (VnFirst costs (elements of the heaviest part) x parts^2: random weights only)
    for &(n, parts) in if quick { &[(20001usize, 5000usize), (8193, 2000)][..] } else { &[(20001usize, 5000usize), (8193, 2000), (30011, 9001), (16422, 4097)][..] } {
        let ids = make_ids(&mut rng, n, parts, IdShape::Random);
        let ws = make_weights(&mut rng, n, 0);
        let (ty, threads) = next(&mut rot);
        ctx.count("corner:thousands_of_parts");
        run_large(ctx, "best", &plain(ty, threads, ws.clone(), ids.clone()));
        if parts <= 5000 {
            let (ty, threads) = next(&mut rot);
            run_large(ctx, "first", &plain(ty, threads, ws, ids));
        }
    }
    // exactly two / three elements with far-apart part ids
    for ids in [vec![0usize, 63], vec![64, 0], vec![256, 0, 255], vec![0, 257, 257], vec![1, 0], vec![4097, 0, 1], vec![65536, 0, 1]] {
        for algo in ALGOS {
            if algo == "first" && ids[0] > 5000 {
                continue; // vn_first costs parts^2 per element of the heaviest part
            }
            let (ty, threads) = next(&mut rot);
            let ws: Vec<i128> = (0..ids.len()).map(|_| rng.range(1, 9) as i128).collect();
            ctx.count("corner:two_three_elements");
            run_op(ctx, &format_case(algo, &plain(ty, threads, ws, ids.clone())));
        }
    }
    // type corners: one weight above half of the type's headroom, total still fits
    for algo in ALGOS {
        for (ty, big) in [("i64", (1i128 << 62) + 12345), ("u64", (1i128 << 63) + 98765), ("f64", (1i128 << 52) + 3)] {
            for parts in [2usize, 3, 5] {
                let n = 40;
                let mut ws: Vec<i128> = (0..n).map(|_| rng.range(0, 1 << 20) as i128).collect();
                ws[rng.usize(n)] = big;
                if ty != "f64" {
                    ws[rng.usize(n)] = big / 3;
                }
                let ids = make_ids(&mut rng, n, parts, IdShape::Random);
                ctx.count(&format!("corner:headroom_{}", ty));
                run_op(ctx, &format_case(algo, &plain(ty, pools[parts % 4], ws, ids)));
            }
        }
    }
    // reuse: same algorithm value, same buffer, second input longer and with more parts
    for algo in ALGOS {
        for &(n1, p1, n2, p2) in &[(9usize, 3usize, 12usize, 5usize), (8193, 3, 9001, 65), (300, 257, 40, 2)] {
            let mk = |rng: &mut Rng, n: usize, p: usize, ty: &str, threads: usize, shape: IdShape| {
                plain(ty, threads, make_weights(rng, n, n), make_ids(rng, n, p, shape))
            };
            let (ty, threads) = next(&mut rot);
            let a = mk(&mut rng, n1, p1, ty, threads, IdShape::Random);
            let (ty, threads) = next(&mut rot);
            let b = mk(&mut rng, n2, p2, ty, threads, IdShape::Sorted);
            run_op(ctx, &format_twice(algo, &a, &b));
        }
    }
    ctx.rng = rng;
    ctx.notes.push(
        "large-n / corner stream: sizes 8193..70001 (thorough ..140003) with random, blocked, sorted and blocks-of-8192 id orders, 2-8/64/257 and thousands of parts, pools 1/2/3/16; VnBest calls with > 8192 and > 20000 moves; a full VnFirst cycle; part counts 63..257; 2-3 elements with far-apart ids; one weight above half of the type's headroom; reuse of the algorithm value and of the array buffer; all compared exactly with the model (array twin of the proven list model, cross-checked against it on every case up to 64 elements)".to_string(),
    );
}

pub fn generate(ctx: &mut Ctx) {
    // ---- large-n / corner / reuse stream first (its cases matter most if a watchdog limit stops the run)
    large_stream(ctx);
    typed_large_stream(ctx);
    half_range_stream(ctx);
    special_stream(ctx);
    raw_float_stream(ctx);

    // ---- exhaustive sub-space: weights 0..=3, ids 0..=2, every length up to maxlen,
    //      both algorithms on every case; weight type and pool size rotate with the case number
    let maxlen = ctx.budget(5, 6);
    // one pass per pool size, each run from inside the pool (one hand-over per pass, not per case)
    for pass_threads in [1usize, 4] {
        let pl = pool(pass_threads);
        let ctx_ref = &mut *ctx;
        pl.install(move || exhaustive_pass(ctx_ref, maxlen, pass_threads));
    }
    ctx.notes.push(format!(
        "exhaustive sub-space: every weight vector over 0..=3 x every id vector over 0..=2 of length 0..={}, both algorithms (weight type and pool size rotate; all three types in both pool sizes for length <= 3)",
        maxlen
    ));

    // ---- random valid inputs, 2..8 parts, several shapes
    let n = ctx.budget(6000, 150_000);
    for _ in 0..n {
        let parts = 2 + ctx.rng.usize(7);
        let len = match ctx.rng.usize(10) {
            0 => 1 + ctx.rng.usize(3),
            1..=6 => 2 + ctx.rng.usize(14),
            _ => 10 + ctx.rng.usize(if ctx.quick() { 30 } else { 90 }),
        };
        let shape = ctx.rng.usize(8);
        let mut ws: Vec<i64> = (0..len)
            .map(|_| match shape {
                0 => ctx.rng.range(0, 9),
                1 => ctx.rng.range(0, 1000),
                2 => ctx.rng.range(1, 3),                  // ties
                3 => ctx.rng.range(0, 1 << 40),            // huge (sums stay < 2^53)
                4 => ctx.rng.range(0, 50),                 // + one dominant, below
                5 => if ctx.rng.chance(2, 3) { 0 } else { ctx.rng.range(1, 5) }, // zeros
                6 => 7,                                    // all equal
                _ => ctx.rng.range(0, 100),
            })
            .collect();
        if shape == 4 {
            let j = ctx.rng.usize(len);
            ws[j] = ctx.rng.range(200, 5000);
        }
        let id_shape = ctx.rng.usize(5);
        let ids: Vec<usize> = (0..len)
            .map(|j| match id_shape {
                0 => ctx.rng.usize(parts),                 // uniform
                1 => if ctx.rng.chance(3, 4) { 0 } else { ctx.rng.usize(parts) }, // one heavy part
                2 => j % parts,                            // round robin (balanced counts)
                3 => if ctx.rng.chance(1, 2) { parts - 1 } else { 0 }, // empty middle parts
                _ => ctx.rng.usize(parts),
            })
            .collect();
        let algo = *ctx.rng.pick(&ALGOS);
        let ty = *ctx.rng.pick(&TYPES);
        let threads = if ctx.rng.chance(1, 2) { 1 } else { 4 };
        ctx.count(&format!("random_wshape_{}", shape));
        ctx.count(&format!("random_idshape_{}", id_shape));
        run_op(ctx, &format_op(algo, ty, threads, &ws, &ids));
    }

    // ---- negative weights: every position of a single negative weight, both signed types
    let n = ctx.budget(150, 3000);
    for _ in 0..n {
        let parts = 1 + ctx.rng.usize(4);
        let len = 1 + ctx.rng.usize(7);
        let ws0: Vec<i64> = (0..len).map(|_| ctx.rng.range(0, 9)).collect();
        let ids: Vec<usize> = (0..len).map(|_| ctx.rng.usize(parts)).collect();
        let ty = if ctx.rng.chance(1, 2) { "i64" } else { "f64" };
        let threads = if ctx.rng.chance(1, 2) { 1 } else { 4 };
        let v = -ctx.rng.range(1, 9);
        for pos in 0..len {
            let mut ws = ws0.clone();
            ws[pos] = v;
            ctx.count("negative_stream");
            for algo in ALGOS {
                run_op(ctx, &format_op(algo, ty, threads, &ws, &ids));
            }
        }
    }

    // ---- malformed: length mismatches (with and without negative weights), empty sides
    for _ in 0..ctx.budget(100, 1000) {
        let len = ctx.rng.usize(6);
        let plen = ctx.rng.usize(6);
        let lo = if ctx.rng.chance(1, 4) { -3 } else { 0 };
        let ty = *ctx.rng.pick(&TYPES);
        let ws: Vec<i64> = (0..len).map(|_| ctx.rng.range(if ty == "u64" { 0 } else { lo }, 9)).collect();
        let ids: Vec<usize> = (0..plen).map(|_| ctx.rng.usize(3)).collect();
        let algo = *ctx.rng.pick(&ALGOS);
        ctx.count("malformed_stream");
        run_op(ctx, &format_op(algo, ty, 1, &ws, &ids));
    }
}
