//! C14 — VnBest and VnFirst never worsen the load gap.
//!
//! op:  `best|first <i64|u64|f64> <threads> <n> <w…> <m> <ids…>`
//!      (weights are integers in every weight type; `f64` weights are the same integers
//!      converted exactly; `threads` = size of the rayon pool the call runs in)
//!      `twice best|first <case A> <case B>` (case = `<ty> <threads> <n> <w…> <m> <ids…>`):
//!      two successive calls through the SAME algorithm value and the SAME array buffer
//! out: `ok <returned count> | <ids afterwards>` | `negative` | `lenmismatch` | `panic …` | `hang`
//!      (`twice`: the two outputs joined by ` ;; `)

use crate::common::*;
use coupe::Partition as _;
use std::collections::HashMap;
use std::sync::{Arc, Mutex, OnceLock};

type Pool = Arc<coupe::rayon::ThreadPool>;

/// Pools are built once per size (building one per case would dominate the run time).
fn pool(threads: usize) -> Pool {
    static POOLS: OnceLock<Mutex<HashMap<usize, Pool>>> = OnceLock::new();
    let m = POOLS.get_or_init(|| Mutex::new(HashMap::new()));
    let mut g = m.lock().unwrap();
    g.entry(threads)
        .or_insert_with(|| {
            Arc::new(
                coupe::rayon::ThreadPoolBuilder::new()
                    .num_threads(threads.max(1))
                    .build()
                    .expect("pool"),
            )
        })
        .clone()
}

/// One input: weight type, pool size, weights (exact integers), part ids.
#[derive(Clone)]
struct Case {
    ty: String,
    threads: usize,
    ws: Vec<i128>,
    ids: Vec<usize>,
}

fn push_case(s: &mut String, c: &Case) {
    use std::fmt::Write as _;
    write!(s, " {} {} {}", c.ty, c.threads, c.ws.len()).unwrap();
    for w in &c.ws {
        write!(s, " {}", w).unwrap();
    }
    write!(s, " {}", c.ids.len()).unwrap();
    for p in &c.ids {
        write!(s, " {}", p).unwrap();
    }
}

fn format_case(algo: &str, c: &Case) -> String {
    let mut s = String::with_capacity(16 + 8 * (c.ws.len() + c.ids.len()));
    s.push_str(algo);
    push_case(&mut s, c);
    s
}

fn format_op(algo: &str, ty: &str, threads: usize, ws: &[i64], ids: &[usize]) -> String {
    format_case(
        algo,
        &Case { ty: ty.to_string(), threads, ws: ws.iter().map(|&w| w as i128).collect(), ids: ids.to_vec() },
    )
}

fn format_twice(algo: &str, a: &Case, b: &Case) -> String {
    let mut s = String::from("twice ");
    s.push_str(algo);
    push_case(&mut s, a);
    push_case(&mut s, b);
    s
}

/// The exactness contract of the protocol ("sums that do not overflow", integers exact in f64):
/// i64: the sum of the absolute values fits i64; u64: no negative weight, the total fits u64;
/// f64: the sum of the absolute values stays below 2^53.
fn in_contract(c: &Case) -> bool {
    let abs: i128 = c.ws.iter().map(|w| w.abs()).sum();
    match c.ty.as_str() {
        "i64" => abs <= i64::MAX as i128,
        "u64" => c.ws.iter().all(|&w| w >= 0) && abs <= u64::MAX as i128,
        _ => abs < (1i128 << 53),
    }
}

fn parse_case<'a>(it: &mut impl Iterator<Item = &'a str>) -> Option<Case> {
    let ty = it.next()?.to_string();
    if ty != "i64" && ty != "u64" && ty != "f64" {
        return None;
    }
    let threads: usize = it.next()?.parse().ok()?;
    let n: usize = it.next()?.parse().ok()?;
    let mut ws = Vec::with_capacity(n.min(1 << 20));
    for _ in 0..n {
        ws.push(it.next()?.parse::<i128>().ok()?);
    }
    let m: usize = it.next()?.parse().ok()?;
    let mut ids = Vec::with_capacity(m.min(1 << 20));
    for _ in 0..m {
        ids.push(it.next()?.parse().ok()?);
    }
    Some(Case { ty, threads, ws, ids })
}

enum Op {
    One(String, Case),
    Twice(String, Case, Case),
}

fn parse_op(op: &str) -> Option<Op> {
    let mut it = op.split_whitespace();
    let first = it.next()?;
    let is_algo = |a: &str| a == "best" || a == "first";
    let r = if first == "twice" {
        let algo = it.next()?.to_string();
        if !is_algo(&algo) {
            return None;
        }
        let a = parse_case(&mut it)?;
        let b = parse_case(&mut it)?;
        Op::Twice(algo, a, b)
    } else {
        if !is_algo(first) {
            return None;
        }
        Op::One(first.to_string(), parse_case(&mut it)?)
    };
    if it.next().is_some() {
        return None;
    }
    Some(r)
}

type Res = (Result<usize, coupe::Error>, Vec<usize>);

/// One call of the real implementation on `ids` (in place).
fn call(best: bool, ty: &str, ws: &[i128], ids: &mut [usize]) -> Result<usize, coupe::Error> {
    match ty {
        "i64" => {
            let w: Vec<i64> = ws.iter().map(|&x| x as i64).collect();
            if best {
                coupe::VnBest.partition(ids, w)
            } else {
                coupe::VnFirst.partition(ids, &w[..])
            }
        }
        "u64" => {
            let w: Vec<u64> = ws.iter().map(|&x| x as u64).collect();
            if best {
                coupe::VnBest.partition(ids, w)
            } else {
                coupe::VnFirst.partition(ids, &w[..])
            }
        }
        _ => {
            let w: Vec<f64> = ws.iter().map(|&x| x as f64).collect();
            if best {
                coupe::VnBest.partition(ids, w)
            } else {
                coupe::VnFirst.partition(ids, &w[..])
            }
        }
    }
}

/// Runs the real implementation; returns the result and the array afterwards.
fn run_impl(algo: &str, c: &Case, watchdog: bool) -> Caught<Res> {
    let p = pool(c.threads);
    let best = algo == "best";
    let ty = c.ty.clone();
    let ws = c.ws.clone();
    let mut ids = c.ids.clone();
    let threads = c.threads.max(1);
    let work = move || {
        let r = call(best, &ty, &ws, &mut ids);
        (r, ids)
    };
    // already on a worker of a pool of the requested size (exhaustive sweep): call directly
    let in_pool = coupe::rayon::current_thread_index().is_some()
        && coupe::rayon::current_num_threads() == threads;
    if in_pool {
        catch(work)
    } else if watchdog {
        catch_timeout(60, move || p.install(work))
    } else {
        catch(move || p.install(work))
    }
}

/// `twice`: the same algorithm VALUE (`&mut` to one instance) and the same `Vec` buffer serve two
/// successive calls (the buffer is cleared and refilled with the second input, possibly with
/// more parts and another length); each call in the pool its case asks for.
fn run_twice(algo: &str, a: &Case, b: &Case) -> Caught<(Res, Res)> {
    let best = algo == "best";
    let (a, b) = (a.clone(), b.clone());
    let (pa, pb) = (pool(a.threads), pool(b.threads));
    catch_timeout(60, move || {
        let mut vb = coupe::VnBest;
        let mut vf = coupe::VnFirst;
        let mut buf: Vec<usize> = Vec::with_capacity(a.ids.len().max(b.ids.len()));
        let mut one = |c: &Case, p: &Pool, buf: &mut Vec<usize>| -> Res {
            buf.clear();
            buf.extend_from_slice(&c.ids);
            let r = p.install(|| match c.ty.as_str() {
                "i64" => {
                    let w: Vec<i64> = c.ws.iter().map(|&x| x as i64).collect();
                    if best { vb.partition(buf, w) } else { vf.partition(buf, &w[..]) }
                }
                "u64" => {
                    let w: Vec<u64> = c.ws.iter().map(|&x| x as u64).collect();
                    if best { vb.partition(buf, w) } else { vf.partition(buf, &w[..]) }
                }
                _ => {
                    let w: Vec<f64> = c.ws.iter().map(|&x| x as f64).collect();
                    if best { vb.partition(buf, w) } else { vf.partition(buf, &w[..]) }
                }
            });
            (r, buf.clone())
        };
        let ra = one(&a, &pa, &mut buf);
        let rb = one(&b, &pb, &mut buf);
        (ra, rb)
    })
}

/// Naive part loads for `k` parts (ids ≥ k are ignored – reported separately). O(n + k).
fn loads(ws: &[i128], ids: &[usize], k: usize) -> Vec<i128> {
    let mut l = vec![0i128; k];
    for (w, &p) in ws.iter().zip(ids) {
        if p < k {
            l[p] += *w;
        }
    }
    l
}

fn gap(l: &[i128]) -> i128 {
    let mut mn = l[0];
    let mut mx = l[0];
    for &x in l {
        if x < mn {
            mn = x;
        }
        if x > mx {
            mx = x;
        }
    }
    mx - mn
}

fn nontrivial(c: &Case) -> bool {
    let k = 1 + c.ids.iter().copied().max().unwrap_or(0);
    let total: i128 = c.ws.iter().sum();
    c.ws.len() == c.ids.len() && k >= 2 && c.ws.len() >= 2 && (c.ws.iter().any(|&w| w < 0) || total > 0)
}

/// The ORACLE on one call: canonical output line and the verdict (cause signature, description).
fn judge(ctx: &mut Ctx, algo: &str, c: &Case, res: Caught<Res>) -> (String, Option<(&'static str, String)>) {
    let len_ok = c.ws.len() == c.ids.len();
    let k = 1 + c.ids.iter().copied().max().unwrap_or(0);
    let neg = c.ws.iter().position(|&w| w < 0);
    let total: i128 = c.ws.iter().sum();
    let best = algo == "best";
    let mut verdict: Option<(&'static str, String)> = None;
    let out = match res {
        Caught::Ok((Ok(count), ids)) => {
            if !len_ok {
                verdict = Some(("vn-len-mismatch-ok", "Ok despite a length mismatch".into()));
            } else if best && neg.is_some() {
                verdict = Some((
                    "vnbest-negative-accepted",
                    format!("Ok({}) although weight #{} is negative", count, neg.unwrap()),
                ));
            } else if ids.len() != c.ids.len() {
                verdict = Some(("vn-length-changed", "array length changed".into()));
            } else if let Some(bad) = ids.iter().find(|&&p| p >= k) {
                verdict = Some(("vn-id-out-of-range", format!("part id {} with {} parts", bad, k)));
            } else if neg.is_none() {
                // the property: gap not larger, total only redistributed
                let before = loads(&c.ws, &c.ids, k);
                let after = loads(&c.ws, &ids, k);
                let (gb, ga) = (gap(&before), gap(&after));
                let sa: i128 = after.iter().sum();
                if ga > gb {
                    let show = |l: &[i128]| if l.len() <= 16 { format!("{:?}", l) } else { format!("[{} parts]", l.len()) };
                    verdict = Some((
                        "vn-gap-worse",
                        format!("gap {} -> {} (loads {} -> {})", gb, ga, show(&before), show(&after)),
                    ));
                } else if sa != total {
                    verdict = Some(("vn-total-changed", format!("total {} -> {}", total, sa)));
                }
                let moved = ids.iter().zip(&c.ids).filter(|(a, b)| a != b).count();
                ctx.count(&format!(
                    "{}_moved_{}",
                    algo,
                    match moved {
                        0 | 1 => moved.to_string(),
                        2..=8192 => "2+".to_string(),
                        8193..=20000 => "8193+".to_string(),
                        _ => "20001+".to_string(),
                    }
                ));
                if best {
                    if count > 20000 {
                        ctx.count("best_returned_moves_20001+");
                    } else if count > 8192 {
                        ctx.count("best_returned_moves_8193+");
                    }
                }
                if nontrivial(c) {
                    ctx.count(if ga < gb { "gap_decreased" } else { "gap_unchanged" });
                }
            } else {
                ctx.count("first_negative_weights_outside_property");
            }
            format!("ok {} | {}", count, join(&ids))
        }
        Caught::Ok((Err(coupe::Error::NegativeValues), ids)) => {
            if !best || neg.is_none() {
                verdict = Some(("vn-spurious-negative", "NegativeValues without a negative weight".into()));
            } else if ids != c.ids {
                verdict = Some(("vnbest-negative-wrote", "array modified before NegativeValues".into()));
            }
            "negative".to_string()
        }
        Caught::Ok((Err(coupe::Error::InputLenMismatch { .. }), ids)) => {
            if len_ok {
                verdict = Some(("vn-spurious-lenmismatch", "InputLenMismatch on matching lengths".into()));
            } else if ids != c.ids {
                verdict = Some(("vn-lenmismatch-wrote", "array modified before InputLenMismatch".into()));
            }
            "lenmismatch".to_string()
        }
        Caught::Ok((Err(e), _)) => {
            verdict = Some(("vn-unexpected-error", format!("{:?}", e)));
            format!("err {:?}", e)
        }
        Caught::Panic(m) => {
            let sig = panic_sig(&m);
            verdict = Some(("panic", format!("{} [{}]", m, sig)));
            format!("panic {}", m)
        }
        Caught::Hang => {
            verdict = Some(("hang", "no answer within 60 s".into()));
            "hang".into()
        }
    };
    ctx.count(&format!("{}_{}", algo, out.split(' ').next().unwrap_or("")));
    ctx.count(&format!("type_{}", c.ty));
    ctx.count(&format!("threads_{}", c.threads));
    if len_ok {
        ctx.count(&format!("parts_{}", if k <= 8 { k.to_string() } else if k <= 64 { "9..64".into() } else if k <= 257 { "65..257".into() } else { "258+".into() }));
    }
    (out, verdict)
}

pub fn run_op(ctx: &mut Ctx, op: &str) {
    if ctx.hang_limit_reached() {
        return;
    }
    run_op_w(ctx, op, true)
}

fn run_op_w(ctx: &mut Ctx, op: &str, watchdog: bool) {
    match parse_op(op) {
        Some(Op::One(algo, c)) if in_contract(&c) => {
            let res = run_impl(&algo, &c, watchdog);
            let (out, verdict) = judge(ctx, &algo, &c, res);
            let idx = ctx.record(op.to_string(), out, nontrivial(&c));
            if let Some((sig, what)) = verdict {
                ctx.fail(idx, sig, what);
            }
        }
        Some(Op::Twice(algo, a, b)) if in_contract(&a) && in_contract(&b) => {
            let (ra, rb) = match run_twice(&algo, &a, &b) {
                Caught::Ok((ra, rb)) => (Caught::Ok(ra), Caught::Ok(rb)),
                Caught::Panic(m) => (Caught::Panic(m.clone()), Caught::Panic(m)),
                Caught::Hang => (Caught::Hang, Caught::Hang),
            };
            let (oa, va) = judge(ctx, &algo, &a, ra);
            let (ob, vb) = judge(ctx, &algo, &b, rb);
            ctx.count("reuse");
            let idx = ctx.record(op.to_string(), format!("{} ;; {}", oa, ob), nontrivial(&a) || nontrivial(&b));
            if let Some((sig, what)) = va.or(vb) {
                ctx.fail(idx, sig, what);
            }
        }
        _ => {
            // unparsable, or outside the exactness contract (overflowing sums, inexact f64)
            ctx.record(op.to_string(), "bad-op".into(), false);
        }
    }
}

const TYPES: [&str; 3] = ["i64", "u64", "f64"];
const ALGOS: [&str; 2] = ["best", "first"];

/// Odometer over `{0..base}^len`; returns false after the last vector.
fn next_vec(v: &mut [usize], base: usize) -> bool {
    for x in v.iter_mut() {
        if *x + 1 < base {
            *x += 1;
            return true;
        }
        *x = 0;
    }
    false
}

fn exhaustive_pass(ctx: &mut Ctx, maxlen: usize, pass_threads: usize) {
    let mut case_no = 0usize;
    for len in 0..=maxlen {
        let mut w = vec![0usize; len];
        loop {
            let ws: Vec<i64> = w.iter().map(|&x| x as i64).collect();
            let mut ids = vec![0usize; len];
            loop {
                for algo in ALGOS {
                    let ty = TYPES[(case_no / 2) % 3];
                    let threads = if (case_no / 6) % 2 == 0 { 1 } else { 4 };
                    if len <= 3 {
                        // tiny: every type in both pool sizes
                        for t in TYPES {
                            run_op_w(ctx, &format_op(algo, t, pass_threads, &ws, &ids), false);
                        }
                    } else if threads == pass_threads {
                        run_op_w(ctx, &format_op(algo, ty, threads, &ws, &ids), false);
                    }
                    case_no += 1;
                }
                if !next_vec(&mut ids, 3) {
                    break;
                }
            }
            if !next_vec(&mut w, 4) {
                break;
            }
        }
    }
}

// ------------------------------------------------------------------ large-n / corner stream

#[derive(Clone, Copy, PartialEq, Debug)]
enum IdShape {
    /// uniformly random part of every element
    Random,
    /// all of part 0 first, then part 1, …: equal blocks
    Blocked,
    /// ascending, block lengths random (a sorted random id vector)
    Sorted,
    /// ascending in blocks of 8192 elements (part = index / 8192, as many parts as it takes)
    Blocks8192,
}

fn make_ids(rng: &mut Rng, n: usize, parts: usize, shape: IdShape) -> Vec<usize> {
    match shape {
        IdShape::Random => {
            let mut v: Vec<usize> = (0..n).map(|_| rng.usize(parts)).collect();
            // every part id occurs (the part count is 1 + max id)
            if n >= parts {
                v[n - 1] = parts - 1;
            }
            v
        }
        IdShape::Blocked => (0..n).map(|j| (j * parts / n.max(1)).min(parts - 1)).collect(),
        IdShape::Sorted => {
            let mut v: Vec<usize> = (0..n).map(|_| rng.usize(parts)).collect();
            if n >= parts {
                v[n - 1] = parts - 1;
            }
            v.sort_unstable();
            v
        }
        IdShape::Blocks8192 => (0..n).map(|j| j / 8192).collect(),
    }
}

fn make_weights(rng: &mut Rng, n: usize, shape: usize) -> Vec<i128> {
    (0..n)
        .map(|_| {
            (match shape % 4 {
                0 => rng.range(0, 1000),
                1 => rng.range(1, 3),
                2 => rng.range(0, 1 << 30),
                _ => {
                    if rng.chance(1, 2) {
                        0
                    } else {
                        rng.range(1, 9)
                    }
                }
            }) as i128
        })
        .collect()
}

fn size_class(n: usize) -> &'static str {
    match n {
        0..=4096 => "<=4096",
        4097..=8192 => "4097..8192",
        8193..=16384 => "8193..16384",
        16385..=32768 => "16385..32768",
        32769..=65536 => "32769..65536",
        65537..=131072 => "65537..131072",
        _ => "131073+",
    }
}

fn run_large(ctx: &mut Ctx, algo: &str, c: &Case) {
    ctx.count(&format!("large:{}", size_class(c.ws.len())));
    run_op(ctx, &format_case(algo, c));
}

/// Many moves in ONE VnBest call: `heavy_per_part` weights of 10^6 in every part (evenly spread,
/// never moved) and `units` unit weights all in part 0: the levelling takes about
/// `units * (parts-1) / parts` moves of one unit each.
fn many_moves_case(rng: &mut Rng, parts: usize, heavy_per_part: usize, units: usize, ty: &str, threads: usize) -> Case {
    let mut items: Vec<(i128, usize)> = Vec::new();
    for p in 0..parts {
        for _ in 0..heavy_per_part {
            items.push((1_000_000, p));
        }
    }
    for _ in 0..units {
        items.push((1, 0));
    }
    rng.shuffle(&mut items);
    Case {
        ty: ty.to_string(),
        threads,
        ws: items.iter().map(|x| x.0).collect(),
        ids: items.iter().map(|x| x.1).collect(),
    }
}

fn large_stream(ctx: &mut Ctx) {
    let quick = ctx.quick();
    let mut rng = ctx.rng.clone();
    let pools = [1usize, 2, 3, 16];
    let mut rot = 0usize;
    let mut next = |rot: &mut usize| {
        *rot += 1;
        (TYPES[*rot % 3], pools[*rot % 4])
    };

    // (a)/(b) sizes just above and far above block thresholds x id order x part counts
    let mut plan: Vec<(usize, usize, IdShape)> = vec![
        (8193, 257, IdShape::Random),
        (16384, 8, IdShape::Blocked),
        (20001, 64, IdShape::Sorted),
        (70001, 5, IdShape::Random),
        (70001, 0, IdShape::Blocks8192),
        (16422, 257, IdShape::Blocked),
        (20001, 3, IdShape::Blocked),
    ];
    if !quick {
        for &n in &[8193usize, 16384, 16422, 20001, 65548, 70001, 131077, 140003] {
            for &(parts, shape) in &[
                (2usize, IdShape::Blocked),
                (7, IdShape::Sorted),
                (8, IdShape::Random),
                (64, IdShape::Blocked),
                (64, IdShape::Random),
                (257, IdShape::Sorted),
                (0, IdShape::Blocks8192),
            ] {
                plan.push((n, parts, shape));
            }
        }
    }
    for (j, &(n, parts, shape)) in plan.iter().enumerate() {
        let ids = make_ids(&mut rng, n, parts.max(1), shape);
        let ws = make_weights(&mut rng, n, j);
        ctx.count(&format!("corner:ids_{:?}", shape).to_lowercase());
        for algo in ALGOS {
            let (ty, threads) = next(&mut rot);
            run_large(ctx, algo, &Case { ty: ty.to_string(), threads, ws: ws.clone(), ids: ids.clone() });
        }
    }

    // more than 8192 / more than 20000 moves in one VnBest call
    let mut mm: Vec<(usize, usize, usize)> = vec![(2, 1000, 18001), (2, 13000, 44001)];
    if !quick {
        mm.push((4, 2500, 30001));
        mm.push((3, 10001, 80000));
        mm.push((2, 1, 50001));
    }
    for &(parts, heavy, units) in &mm {
        let (ty, threads) = next(&mut rot);
        let c = many_moves_case(&mut rng, parts, heavy, units, ty, threads);
        ctx.count("corner:many_moves");
        run_large(ctx, "best", &c);
        if !quick {
            run_large(ctx, "first", &c);
        }
    }

    // VnFirst: a FULL cycle of the scan (no target accepted for 1..n-1), then the zero weight at
    // index 0 is accepted as the very last element; and the same without any acceptable move
    for &n in if quick { &[70001usize][..] } else { &[20001usize, 70001, 140003][..] } {
        let mut ws = vec![1i128; n];
        ws[0] = 0;
        let ids: Vec<usize> = (0..n).map(|j| if j == 0 { 0 } else { j % 2 }).collect();
        let (ty, threads) = next(&mut rot);
        ctx.count("corner:first_full_cycle");
        run_large(ctx, "first", &Case { ty: ty.to_string(), threads, ws, ids });
        let ws = vec![3i128; n + 1];
        let ids: Vec<usize> = (0..n + 1).map(|j| j * 2 / (n + 1)).collect();
        let (ty, threads) = next(&mut rot);
        run_large(ctx, "first", &Case { ty: ty.to_string(), threads, ws, ids });
    }

    // VnFirst: ~n/2 elements of the heaviest part are tried and rejected (too heavy to move)
    // before the light element at index 0 – visited last – is accepted
    for &m in if quick { &[10000usize][..] } else { &[4100usize, 10000, 35000][..] } {
        let mut items: Vec<(i128, usize)> = Vec::new();
        for _ in 0..m {
            items.push((1000, 0));
        }
        for _ in 0..m - 1 {
            items.push((1000, 1));
        }
        items.push((997, 1));
        rng.shuffle(&mut items);
        items.insert(0, (2, 0));
        let (ty, threads) = next(&mut rot);
        ctx.count("corner:first_late_accept");
        run_large(ctx, "first", &Case {
            ty: ty.to_string(),
            threads,
            ws: items.iter().map(|x| x.0).collect(),
            ids: items.iter().map(|x| x.1).collect(),
        });
    }

    // part-count corners
    for &parts in &[63usize, 64, 65, 128, 255, 256, 257] {
        let n = 3 * parts + 1;
        for shape in [IdShape::Random, IdShape::Blocked] {
            let ids = make_ids(&mut rng, n, parts, shape);
            let ws = make_weights(&mut rng, n, parts);
            for algo in ALGOS {
                let (ty, threads) = next(&mut rot);
                ctx.count(&format!("corner:parts_{}", parts));
                run_op(ctx, &format_case(algo, &Case { ty: ty.to_string(), threads, ws: ws.clone(), ids: ids.clone() }));
            }
        }
    }
    // thousands of parts (VnFirst costs (elements of the heaviest part) x parts^2: random weights only)
    for &(n, parts) in if quick { &[(20001usize, 5000usize), (8193, 2000)][..] } else { &[(20001usize, 5000usize), (8193, 2000), (30011, 9001), (16422, 4097)][..] } {
        let ids = make_ids(&mut rng, n, parts, IdShape::Random);
        let ws = make_weights(&mut rng, n, 0);
        let (ty, threads) = next(&mut rot);
        ctx.count("corner:thousands_of_parts");
        run_large(ctx, "best", &Case { ty: ty.to_string(), threads, ws: ws.clone(), ids: ids.clone() });
        if parts <= 5000 {
            let (ty, threads) = next(&mut rot);
            run_large(ctx, "first", &Case { ty: ty.to_string(), threads, ws, ids });
        }
    }
    // exactly two / three elements with far-apart part ids
    for ids in [vec![0usize, 63], vec![64, 0], vec![256, 0, 255], vec![0, 257, 257], vec![1, 0], vec![4097, 0, 1], vec![65536, 0, 1]] {
        for algo in ALGOS {
            if algo == "first" && ids[0] > 5000 {
                continue; // vn_first costs parts^2 per element of the heaviest part
            }
            let (ty, threads) = next(&mut rot);
            let ws: Vec<i128> = (0..ids.len()).map(|_| rng.range(1, 9) as i128).collect();
            ctx.count("corner:two_three_elements");
            run_op(ctx, &format_case(algo, &Case { ty: ty.to_string(), threads, ws, ids: ids.clone() }));
        }
    }
    // type corners: one weight above half of the type's headroom, total still fits
    for algo in ALGOS {
        for (ty, big) in [("i64", (1i128 << 62) + 12345), ("u64", (1i128 << 63) + 98765), ("f64", (1i128 << 52) + 3)] {
            for parts in [2usize, 3, 5] {
                let n = 40;
                let mut ws: Vec<i128> = (0..n).map(|_| rng.range(0, 1 << 20) as i128).collect();
                ws[rng.usize(n)] = big;
                if ty != "f64" {
                    ws[rng.usize(n)] = big / 3;
                }
                let ids = make_ids(&mut rng, n, parts, IdShape::Random);
                ctx.count(&format!("corner:headroom_{}", ty));
                run_op(ctx, &format_case(algo, &Case { ty: ty.to_string(), threads: pools[parts % 4], ws, ids }));
            }
        }
    }
    // reuse: same algorithm value, same buffer, second input longer and with more parts
    for algo in ALGOS {
        for &(n1, p1, n2, p2) in &[(9usize, 3usize, 12usize, 5usize), (8193, 3, 9001, 65), (300, 257, 40, 2)] {
            let mk = |rng: &mut Rng, n: usize, p: usize, ty: &str, threads: usize, shape: IdShape| Case {
                ty: ty.to_string(),
                threads,
                ws: make_weights(rng, n, n),
                ids: make_ids(rng, n, p, shape),
            };
            let (ty, threads) = next(&mut rot);
            let a = mk(&mut rng, n1, p1, ty, threads, IdShape::Random);
            let (ty, threads) = next(&mut rot);
            let b = mk(&mut rng, n2, p2, ty, threads, IdShape::Sorted);
            run_op(ctx, &format_twice(algo, &a, &b));
        }
    }
    ctx.rng = rng;
    ctx.notes.push(
        "large-n / corner stream: sizes 8193..70001 (thorough ..140003) with random, blocked, sorted and blocks-of-8192 id orders, 2-8/64/257 and thousands of parts, pools 1/2/3/16; VnBest calls with > 8192 and > 20000 moves; a full VnFirst cycle; part counts 63..257; 2-3 elements with far-apart ids; one weight above half of the type's headroom; reuse of the algorithm value and of the array buffer; all compared exactly with the model (array twin of the proven list model, cross-checked against it on every case up to 64 elements)".to_string(),
    );
}

pub fn generate(ctx: &mut Ctx) {
    // ---- large-n / corner / reuse stream first (its cases matter most if a watchdog limit stops the run)
    large_stream(ctx);

    // ---- exhaustive sub-space: weights 0..=3, ids 0..=2, every length up to maxlen,
    //      both algorithms on every case; weight type and pool size rotate with the case number
    let maxlen = ctx.budget(5, 6);
    // one pass per pool size, each run from inside the pool (one hand-over per pass, not per case)
    for pass_threads in [1usize, 4] {
        let pl = pool(pass_threads);
        let ctx_ref = &mut *ctx;
        pl.install(move || exhaustive_pass(ctx_ref, maxlen, pass_threads));
    }
    ctx.notes.push(format!(
        "exhaustive sub-space: every weight vector over 0..=3 x every id vector over 0..=2 of length 0..={}, both algorithms (weight type and pool size rotate; all three types in both pool sizes for length <= 3)",
        maxlen
    ));

    // ---- random valid inputs, 2..8 parts, several shapes
    let n = ctx.budget(6000, 150_000);
    for _ in 0..n {
        let parts = 2 + ctx.rng.usize(7);
        let len = match ctx.rng.usize(10) {
            0 => 1 + ctx.rng.usize(3),
            1..=6 => 2 + ctx.rng.usize(14),
            _ => 10 + ctx.rng.usize(if ctx.quick() { 30 } else { 90 }),
        };
        let shape = ctx.rng.usize(8);
        let mut ws: Vec<i64> = (0..len)
            .map(|_| match shape {
                0 => ctx.rng.range(0, 9),
                1 => ctx.rng.range(0, 1000),
                2 => ctx.rng.range(1, 3),                  // ties
                3 => ctx.rng.range(0, 1 << 40),            // huge (sums stay < 2^53)
                4 => ctx.rng.range(0, 50),                 // + one dominant, below
                5 => if ctx.rng.chance(2, 3) { 0 } else { ctx.rng.range(1, 5) }, // zeros
                6 => 7,                                    // all equal
                _ => ctx.rng.range(0, 100),
            })
            .collect();
        if shape == 4 {
            let j = ctx.rng.usize(len);
            ws[j] = ctx.rng.range(200, 5000);
        }
        let id_shape = ctx.rng.usize(5);
        let ids: Vec<usize> = (0..len)
            .map(|j| match id_shape {
                0 => ctx.rng.usize(parts),                 // uniform
                1 => if ctx.rng.chance(3, 4) { 0 } else { ctx.rng.usize(parts) }, // one heavy part
                2 => j % parts,                            // round robin (balanced counts)
                3 => if ctx.rng.chance(1, 2) { parts - 1 } else { 0 }, // empty middle parts
                _ => ctx.rng.usize(parts),
            })
            .collect();
        let algo = *ctx.rng.pick(&ALGOS);
        let ty = *ctx.rng.pick(&TYPES);
        let threads = if ctx.rng.chance(1, 2) { 1 } else { 4 };
        ctx.count(&format!("random_wshape_{}", shape));
        ctx.count(&format!("random_idshape_{}", id_shape));
        run_op(ctx, &format_op(algo, ty, threads, &ws, &ids));
    }

    // ---- negative weights: every position of a single negative weight, both signed types
    let n = ctx.budget(150, 3000);
    for _ in 0..n {
        let parts = 1 + ctx.rng.usize(4);
        let len = 1 + ctx.rng.usize(7);
        let ws0: Vec<i64> = (0..len).map(|_| ctx.rng.range(0, 9)).collect();
        let ids: Vec<usize> = (0..len).map(|_| ctx.rng.usize(parts)).collect();
        let ty = if ctx.rng.chance(1, 2) { "i64" } else { "f64" };
        let threads = if ctx.rng.chance(1, 2) { 1 } else { 4 };
        let v = -ctx.rng.range(1, 9);
        for pos in 0..len {
            let mut ws = ws0.clone();
            ws[pos] = v;
            ctx.count("negative_stream");
            for algo in ALGOS {
                run_op(ctx, &format_op(algo, ty, threads, &ws, &ids));
            }
        }
    }

    // ---- malformed: length mismatches (with and without negative weights), empty sides
    for _ in 0..ctx.budget(100, 1000) {
        let len = ctx.rng.usize(6);
        let plen = ctx.rng.usize(6);
        let lo = if ctx.rng.chance(1, 4) { -3 } else { 0 };
        let ty = *ctx.rng.pick(&TYPES);
        let ws: Vec<i64> = (0..len).map(|_| ctx.rng.range(if ty == "u64" { 0 } else { lo }, 9)).collect();
        let ids: Vec<usize> = (0..plen).map(|_| ctx.rng.usize(3)).collect();
        let algo = *ctx.rng.pick(&ALGOS);
        ctx.count("malformed_stream");
        run_op(ctx, &format_op(algo, ty, 1, &ws, &ids));
    }
}
