//! C14 — VnBest and VnFirst never worsen the load gap.
//!
//! op:  `best|first <i64|u64|f64> <threads> <n> <w…> <m> <ids…>`
//!      (weights are integers in every weight type; `f64` weights are the same integers
//!      converted exactly; `threads` = size of the rayon pool the call runs in)
//! out: `ok <returned count> | <ids afterwards>` | `negative` | `lenmismatch` | `panic …` | `hang`

use crate::common::*;
use coupe::Partition as _;
use std::collections::HashMap;
use std::sync::{Arc, Mutex, OnceLock};

type Pool = Arc<coupe::rayon::ThreadPool>;

/// Pools are built once per size (building one per case would dominate the run time).
fn pool(threads: usize) -> Pool {
    static POOLS: OnceLock<Mutex<HashMap<usize, Pool>>> = OnceLock::new();
    let m = POOLS.get_or_init(|| Mutex::new(HashMap::new()));
    let mut g = m.lock().unwrap();
    g.entry(threads)
        .or_insert_with(|| {
            Arc::new(
                coupe::rayon::ThreadPoolBuilder::new()
                    .num_threads(threads.max(1))
                    .build()
                    .expect("pool"),
            )
        })
        .clone()
}

const LIMIT: i64 = 1 << 53;

fn format_op(algo: &str, ty: &str, threads: usize, ws: &[i64], ids: &[usize]) -> String {
    format!("{} {} {} {} {} {} {}", algo, ty, threads, ws.len(), join(ws), ids.len(), join(ids))
        .split_whitespace()
        .collect::<Vec<_>>()
        .join(" ")
}

struct Op {
    algo: String,
    ty: String,
    threads: usize,
    ws: Vec<i64>,
    ids: Vec<usize>,
}

fn parse_op(op: &str) -> Option<Op> {
    let mut it = op.split_whitespace();
    let algo = it.next()?.to_string();
    if algo != "best" && algo != "first" {
        return None;
    }
    let ty = it.next()?.to_string();
    if ty != "i64" && ty != "u64" && ty != "f64" {
        return None;
    }
    let threads: usize = it.next()?.parse().ok()?;
    let n: usize = it.next()?.parse().ok()?;
    let mut ws = Vec::with_capacity(n.min(1 << 16));
    for _ in 0..n {
        let w: i64 = it.next()?.parse().ok()?;
        if ty == "u64" && w < 0 {
            return None;
        }
        ws.push(w);
    }
    let m: usize = it.next()?.parse().ok()?;
    let mut ids = Vec::with_capacity(m.min(1 << 16));
    for _ in 0..m {
        ids.push(it.next()?.parse().ok()?);
    }
    if it.next().is_some() {
        return None;
    }
    Some(Op { algo, ty, threads, ws, ids })
}

/// Runs the real implementation; returns the result and the array afterwards.
fn run_impl(o: &Op, watchdog: bool) -> Caught<(Result<usize, coupe::Error>, Vec<usize>)> {
    let p = pool(o.threads);
    let algo_best = o.algo == "best";
    let ty = o.ty.clone();
    let ws = o.ws.clone();
    let mut ids = o.ids.clone();
    let work = move || {
        let r = match ty.as_str() {
            "i64" => {
                if algo_best {
                    coupe::VnBest.partition(&mut ids, ws.iter().cloned())
                } else {
                    coupe::VnFirst.partition(&mut ids, &ws[..])
                }
            }
            "u64" => {
                let w: Vec<u64> = ws.iter().map(|&x| x as u64).collect();
                if algo_best {
                    coupe::VnBest.partition(&mut ids, w)
                } else {
                    coupe::VnFirst.partition(&mut ids, &w[..])
                }
            }
            _ => {
                let w: Vec<f64> = ws.iter().map(|&x| x as f64).collect();
                if algo_best {
                    coupe::VnBest.partition(&mut ids, w)
                } else {
                    coupe::VnFirst.partition(&mut ids, &w[..])
                }
            }
        };
        (r, ids)
    };
    // already on a worker of a pool of the requested size (exhaustive sweep): call directly
    let in_pool = coupe::rayon::current_thread_index().is_some()
        && coupe::rayon::current_num_threads() == o.threads.max(1);
    if in_pool {
        catch(work)
    } else if watchdog {
        catch_timeout(60, move || p.install(work))
    } else {
        catch(move || p.install(work))
    }
}

/// Naive part loads for `k` parts (ids ≥ k are ignored – reported separately).
fn loads(ws: &[i64], ids: &[usize], k: usize) -> Vec<i128> {
    let mut l = vec![0i128; k];
    for (w, &p) in ws.iter().zip(ids) {
        if p < k {
            l[p] += *w as i128;
        }
    }
    l
}

fn gap(l: &[i128]) -> i128 {
    let mut mn = l[0];
    let mut mx = l[0];
    for &x in l {
        if x < mn {
            mn = x;
        }
        if x > mx {
            mx = x;
        }
    }
    mx - mn
}

pub fn run_op(ctx: &mut Ctx, op: &str) {
    if ctx.hang_limit_reached() {
        return;
    }
    run_op_w(ctx, op, true)
}

fn run_op_w(ctx: &mut Ctx, op: &str, watchdog: bool) {
    let Some(o) = parse_op(op) else {
        ctx.record(op.to_string(), "bad-op".into(), false);
        return;
    };
    if o.ws.iter().any(|w| w.abs() >= LIMIT) {
        // outside the exactness contract (f64 conversion would round)
        ctx.record(op.to_string(), "bad-op".into(), false);
        return;
    }
    let res = run_impl(&o, watchdog);
    let len_ok = o.ws.len() == o.ids.len();
    let k = 1 + o.ids.iter().copied().max().unwrap_or(0);
    let neg = o.ws.iter().position(|&w| w < 0);
    let total: i128 = o.ws.iter().map(|&w| w as i128).sum();
    let best = o.algo == "best";
    let nontrivial = len_ok && k >= 2 && o.ws.len() >= 2 && (neg.is_some() || total > 0);
    let mut verdict: Option<(&str, String)> = None;
    let out = match res {
        Caught::Ok((Ok(count), ids)) => {
            if !len_ok {
                verdict = Some(("vn-len-mismatch-ok", "Ok despite a length mismatch".into()));
            } else if best && neg.is_some() {
                verdict = Some((
                    "vnbest-negative-accepted",
                    format!("Ok({}) although weight #{} is negative", count, neg.unwrap()),
                ));
            } else if ids.len() != o.ids.len() {
                verdict = Some(("vn-length-changed", "array length changed".into()));
            } else if let Some(bad) = ids.iter().find(|&&p| p >= k) {
                verdict = Some(("vn-id-out-of-range", format!("part id {} with {} parts", bad, k)));
            } else if neg.is_none() {
                // the property: gap not larger, total only redistributed
                let before = loads(&o.ws, &o.ids, k);
                let after = loads(&o.ws, &ids, k);
                let (gb, ga) = (gap(&before), gap(&after));
                let sa: i128 = after.iter().sum();
                if ga > gb {
                    verdict = Some((
                        "vn-gap-worse",
                        format!("gap {} -> {} (loads {:?} -> {:?})", gb, ga, before, after),
                    ));
                } else if sa != total {
                    verdict = Some(("vn-total-changed", format!("total {} -> {}", total, sa)));
                }
                let moved = ids.iter().zip(&o.ids).filter(|(a, b)| a != b).count();
                ctx.count(&format!(
                    "{}_moved_{}",
                    o.algo,
                    if moved >= 2 { "2+".to_string() } else { moved.to_string() }
                ));
                if nontrivial {
                    ctx.count(if ga < gb { "gap_decreased" } else { "gap_unchanged" });
                }
            } else {
                ctx.count("first_negative_weights_outside_property");
            }
            format!("ok {} | {}", count, join(&ids))
        }
        Caught::Ok((Err(coupe::Error::NegativeValues), ids)) => {
            if !best || neg.is_none() {
                verdict = Some(("vn-spurious-negative", "NegativeValues without a negative weight".into()));
            } else if ids != o.ids {
                verdict = Some(("vnbest-negative-wrote", "array modified before NegativeValues".into()));
            }
            "negative".to_string()
        }
        Caught::Ok((Err(coupe::Error::InputLenMismatch { .. }), ids)) => {
            if len_ok {
                verdict = Some(("vn-spurious-lenmismatch", "InputLenMismatch on matching lengths".into()));
            } else if ids != o.ids {
                verdict = Some(("vn-lenmismatch-wrote", "array modified before InputLenMismatch".into()));
            }
            "lenmismatch".to_string()
        }
        Caught::Ok((Err(e), _)) => {
            verdict = Some(("vn-unexpected-error", format!("{:?}", e)));
            format!("err {:?}", e)
        }
        Caught::Panic(m) => {
            let sig = panic_sig(&m);
            verdict = Some(("panic", format!("{} [{}]", m, sig)));
            format!("panic {}", m)
        }
        Caught::Hang => {
            verdict = Some(("hang", "no answer within 20 s".into()));
            "hang".into()
        }
    };
    ctx.count(&format!("{}_{}", o.algo, out.split(' ').next().unwrap_or("")));
    ctx.count(&format!("type_{}", o.ty));
    ctx.count(&format!("threads_{}", o.threads));
    if len_ok {
        ctx.count(&format!("parts_{}", k.min(9)));
    }
    let idx = ctx.record(op.to_string(), out, nontrivial);
    if let Some((sig, what)) = verdict {
        ctx.fail(idx, sig, what);
    }
}

const TYPES: [&str; 3] = ["i64", "u64", "f64"];
const ALGOS: [&str; 2] = ["best", "first"];

/// Odometer over `{0..base}^len`; returns false after the last vector.
fn next_vec(v: &mut [usize], base: usize) -> bool {
    for x in v.iter_mut() {
        if *x + 1 < base {
            *x += 1;
            return true;
        }
        *x = 0;
    }
    false
}

fn exhaustive_pass(ctx: &mut Ctx, maxlen: usize, pass_threads: usize) {
    let mut case_no = 0usize;
    for len in 0..=maxlen {
        let mut w = vec![0usize; len];
        loop {
            let ws: Vec<i64> = w.iter().map(|&x| x as i64).collect();
            let mut ids = vec![0usize; len];
            loop {
                for algo in ALGOS {
                    let ty = TYPES[(case_no / 2) % 3];
                    let threads = if (case_no / 6) % 2 == 0 { 1 } else { 4 };
                    if len <= 3 {
                        // tiny: every type in both pool sizes
                        for t in TYPES {
                            run_op_w(ctx, &format_op(algo, t, pass_threads, &ws, &ids), false);
                        }
                    } else if threads == pass_threads {
                        run_op_w(ctx, &format_op(algo, ty, threads, &ws, &ids), false);
                    }
                    case_no += 1;
                }
                if !next_vec(&mut ids, 3) {
                    break;
                }
            }
            if !next_vec(&mut w, 4) {
                break;
            }
        }
    }
}

pub fn generate(ctx: &mut Ctx) {
    // ---- exhaustive sub-space: weights 0..=3, ids 0..=2, every length up to maxlen,
    //      both algorithms on every case; weight type and pool size rotate with the case number
    let maxlen = ctx.budget(5, 6);
    // one pass per pool size, each run from inside the pool (one hand-over per pass, not per case)
    for pass_threads in [1usize, 4] {
        let pl = pool(pass_threads);
        let ctx_ref = &mut *ctx;
        pl.install(move || exhaustive_pass(ctx_ref, maxlen, pass_threads));
    }
    ctx.notes.push(format!(
        "exhaustive sub-space: every weight vector over 0..=3 x every id vector over 0..=2 of length 0..={}, both algorithms (weight type and pool size rotate; all three types for length <= 3)",
        maxlen
    ));

    // ---- random valid inputs, 2..8 parts, several shapes
    let n = ctx.budget(6000, 150_000);
    for _ in 0..n {
        let parts = 2 + ctx.rng.usize(7);
        let len = match ctx.rng.usize(10) {
            0 => 1 + ctx.rng.usize(3),
            1..=6 => 2 + ctx.rng.usize(14),
            _ => 10 + ctx.rng.usize(if ctx.quick() { 30 } else { 90 }),
        };
        let shape = ctx.rng.usize(8);
        let mut ws: Vec<i64> = (0..len)
            .map(|_| match shape {
                0 => ctx.rng.range(0, 9),
                1 => ctx.rng.range(0, 1000),
                2 => ctx.rng.range(1, 3),                  // ties
                3 => ctx.rng.range(0, 1 << 40),            // huge (sums stay < 2^53)
                4 => ctx.rng.range(0, 50),                 // + one dominant, below
                5 => if ctx.rng.chance(2, 3) { 0 } else { ctx.rng.range(1, 5) }, // zeros
                6 => 7,                                    // all equal
                _ => ctx.rng.range(0, 100),
            })
            .collect();
        if shape == 4 {
            let j = ctx.rng.usize(len);
            ws[j] = ctx.rng.range(200, 5000);
        }
        let id_shape = ctx.rng.usize(5);
        let ids: Vec<usize> = (0..len)
            .map(|j| match id_shape {
                0 => ctx.rng.usize(parts),                 // uniform
                1 => if ctx.rng.chance(3, 4) { 0 } else { ctx.rng.usize(parts) }, // one heavy part
                2 => j % parts,                            // round robin (balanced counts)
                3 => if ctx.rng.chance(1, 2) { parts - 1 } else { 0 }, // empty middle parts
                _ => ctx.rng.usize(parts),
            })
            .collect();
        let algo = *ctx.rng.pick(&ALGOS);
        let ty = *ctx.rng.pick(&TYPES);
        let threads = if ctx.rng.chance(1, 2) { 1 } else { 4 };
        ctx.count(&format!("random_wshape_{}", shape));
        ctx.count(&format!("random_idshape_{}", id_shape));
        run_op(ctx, &format_op(algo, ty, threads, &ws, &ids));
    }

    // ---- negative weights: every position of a single negative weight, both signed types
    let n = ctx.budget(150, 3000);
    for _ in 0..n {
        let parts = 1 + ctx.rng.usize(4);
        let len = 1 + ctx.rng.usize(7);
        let ws0: Vec<i64> = (0..len).map(|_| ctx.rng.range(0, 9)).collect();
        let ids: Vec<usize> = (0..len).map(|_| ctx.rng.usize(parts)).collect();
        let ty = if ctx.rng.chance(1, 2) { "i64" } else { "f64" };
        let threads = if ctx.rng.chance(1, 2) { 1 } else { 4 };
        let v = -ctx.rng.range(1, 9);
        for pos in 0..len {
            let mut ws = ws0.clone();
            ws[pos] = v;
            ctx.count("negative_stream");
            for algo in ALGOS {
                run_op(ctx, &format_op(algo, ty, threads, &ws, &ids));
            }
        }
    }

    // ---- malformed: length mismatches (with and without negative weights), empty sides
    for _ in 0..ctx.budget(100, 1000) {
        let len = ctx.rng.usize(6);
        let plen = ctx.rng.usize(6);
        let lo = if ctx.rng.chance(1, 4) { -3 } else { 0 };
        let ty = *ctx.rng.pick(&TYPES);
        let ws: Vec<i64> = (0..len).map(|_| ctx.rng.range(if ty == "u64" { 0 } else { lo }, 9)).collect();
        let ids: Vec<usize> = (0..plen).map(|_| ctx.rng.usize(3)).collect();
        let algo = *ctx.rng.pick(&ALGOS);
        ctx.count("malformed_stream");
        run_op(ctx, &format_op(algo, ty, 1, &ws, &ids));
    }
}
