//! C13 — CompleteKarmarkarKarp is sound and complete for its tolerance.
//!
//! op: `ckk <tolerance f64 bits hex> <n> <w…> <m> <p…>` (i64 weights; `p` = initial array)
//!     `ckkt <i32|u32|i64|u64> <tolerance bits> <n> <w…> <m> <p…>` (the same through another weight type)
//! out: `ok <tol> | <ids>` | `notfound <tol>` | `lenmismatch` | `panic …`

use crate::common::*;
use coupe::Partition as _;

const TOLS: [f64; 5] = [0.0, 0.05, 0.1, 0.5, 1.0];

pub fn generate(ctx: &mut Ctx) {
    // exhaustive: every vector over {0..a} up to length l, every tolerance
    let (alpha, maxlen) = if ctx.quick() { (3i64, 6usize) } else { (5, 7) };
    for len in 0..=maxlen {
        let mut v = vec![0i64; len];
        loop {
            for t in TOLS {
                let op = format_op(t, &v, &vec![usize::MAX; len]);
                run_op(ctx, &op);
            }
            // next vector
            let mut i = 0;
            while i < len {
                if v[i] < alpha {
                    v[i] += 1;
                    break;
                }
                v[i] = 0;
                i += 1;
            }
            if i == len {
                break;
            }
        }
    }
    ctx.notes.push(format!(
        "exhaustive sub-space: all weight vectors over 0..={} of length 0..={} x tolerances {:?}",
        alpha, maxlen, TOLS
    ));
    // random vectors up to 20 elements, several shapes
    let n = ctx.budget(1500, 60000);
    for _ in 0..n {
        let len = 1 + ctx.rng.usize(if ctx.quick() { 14 } else { 20 });
        let mode = ctx.rng.usize(5);
        let mut v: Vec<i64> = (0..len)
            .map(|_| match mode {
                0 => ctx.rng.range(0, 9),
                1 => ctx.rng.range(0, 1000),
                2 => ctx.rng.range(1, 3),
                3 => ctx.rng.range(0, 1_000_000_000),
                _ => ctx.rng.range(0, 50),
            })
            .collect();
        if mode == 4 {
            // one dominant element
            let k = ctx.rng.usize(len);
            v[k] = ctx.rng.range(100, 2000);
        }
        let tol = match ctx.rng.usize(8) {
            0 => 0.0,
            1 => 1.0,
            2 => 0.5,
            3 => 0.05,
            4 => 1.0 / (1 + ctx.rng.usize(64)) as f64,
            _ => (ctx.rng.below(1 << 20) as f64) / (1u64 << 20) as f64 * 0.2,
        };
        ctx.count(&format!("random_mode_{}", mode));
        let op = format_op(tol, &v, &vec![usize::MAX; len]);
        run_op(ctx, &op);
    }
    // boundary tolerances: tolerance x total lands on, just below or just above an integer m
    // close to the optimal difference d (the conversion to the weight type truncates, so these
    // are the inputs on which an off-by-rounding in the bound decides between Ok and NotFound)
    for _ in 0..ctx.budget(400, 20000) {
        let len = 2 + ctx.rng.usize(if ctx.quick() { 9 } else { 14 });
        let hi = *ctx.rng.pick(&[3i64, 9, 30, 100, 1000]);
        let v: Vec<i64> = (0..len).map(|_| ctx.rng.range(0, hi)).collect();
        let sum: i64 = v.iter().sum();
        if sum == 0 {
            continue;
        }
        let d = best_diff(&v).unwrap_or(0);
        for m in [d, d + 1, d.saturating_sub(1).max(0), ctx.rng.range(0, sum)] {
            if m > sum {
                continue;
            }
            let t0 = m as f64 / sum as f64;
            for delta in [-2i64, -1, 0, 1, 2] {
                let bits = t0.to_bits() as i64 + delta;
                if bits < 0 {
                    continue;
                }
                let t = f64::from_bits(bits as u64);
                if !(0.0..=1.0).contains(&t) {
                    continue;
                }
                ctx.count("boundary_tolerance");
                let op = format_op(t, &v, &vec![usize::MAX; len]);
                run_op(ctx, &op);
            }
        }
    }
    huge_and_typed(ctx);
    // malformed stream: length mismatches
    for _ in 0..ctx.budget(50, 500) {
        let len = ctx.rng.usize(6);
        let plen = ctx.rng.usize(6);
        let v: Vec<i64> = (0..len).map(|_| ctx.rng.range(0, 9)).collect();
        let op = format_op(0.1, &v, &vec![7usize; plen]);
        run_op(ctx, &op);
    }
}

fn format_op(tol: f64, ws: &[i64], p: &[usize]) -> String {
    format!("ckk {:x} {} {} {} {}", tol.to_bits(), ws.len(), join(ws), p.len(), join(p))
        .split_whitespace()
        .collect::<Vec<_>>()
        .join(" ")
}

fn format_op_t(ty: &str, tol: f64, ws: &[i128], p: &[usize]) -> String {
    format!("ckkt {} {:x} {} {} {} {}", ty, tol.to_bits(), ws.len(), join(ws), p.len(), join(p))
        .split_whitespace()
        .collect::<Vec<_>>()
        .join(" ")
}

/// (largest value of the type, `sum.to_f64()` as the type computes it)
fn ty_max(ty: &str) -> i128 {
    match ty {
        "i32" => i32::MAX as i128,
        "u32" => u32::MAX as i128,
        "u64" => u64::MAX as i128,
        _ => i64::MAX as i128,
    }
}

/// HUGE / TYPED stream: weight vectors whose SUM lies in the upper half of the weight type's
/// range (up to exactly the type's maximum: the contract only asks that sums do not overflow),
/// through i64 and through the other integer types `CkkWeight` admits (i32, u32, u64), with
/// tolerances across [0, 1] including 1, its float predecessor and the boundary values
/// `m / total`. Every intermediate value of the search (differences and sums of two weights)
/// is bounded by the total, so nothing may overflow; the oracles use i128.
fn huge_and_typed(ctx: &mut Ctx) {
    let tys = ["i64", "i32", "u32", "u64"];
    let n = ctx.budget(600, 12000);
    for k in 0..n {
        let ty = tys[k % 4];
        let max = ty_max(ty);
        let len = 1 + ctx.rng.usize(if ctx.quick() { 9 } else { 13 });
        // the target total: the type's maximum, a few below it (the float image of the sum
        // then rounds up to 2^31 / 2^32 / 2^63 / 2^64), or somewhere in the upper half
        let total: i128 = match ctx.rng.usize(8) {
            0 => max,
            1 => max - ctx.rng.range(0, 3) as i128,
            2 => max - 511,
            3 => max - 512,
            4 => max - 1024 - ctx.rng.range(0, 4096) as i128,
            5 => max / 2 + 1 + ctx.rng.range(0, 1000) as i128,
            _ => max / 2 + (ctx.rng.below(1 << 30) as i128 * (max / 2)) / (1i128 << 30),
        };
        // split the total into `len` weights of one of several shapes
        let mut ws: Vec<i128> = Vec::with_capacity(len);
        let mut rest = total;
        let shape = ctx.rng.usize(4);
        for i in 0..len {
            let w = if i + 1 == len {
                rest
            } else {
                match shape {
                    0 => rest / 2,                                   // geometric: one dominant
                    1 => rest / (len - i) as i128,                   // nearly equal
                    2 => (ctx.rng.below(1 << 30) as i128 * rest) / (1i128 << 30) / 2, // random
                    _ => ctx.rng.range(0, 9) as i128,                // tiny, the last takes it all
                }
            };
            ws.push(w);
            rest -= w;
        }
        // shuffle positions
        for i in (1..len).rev() {
            let j = ctx.rng.usize(i + 1);
            ws.swap(i, j);
        }
        let d = best_diff128(&ws).unwrap_or(0);
        let tols: Vec<f64> = match ctx.rng.usize(4) {
            0 => vec![1.0, f64::from_bits(1.0f64.to_bits() - 1), 0.0],
            1 => vec![0.9, 0.75, 0.5 + (ctx.rng.below(1 << 20) as f64) / (1u64 << 21) as f64],
            2 => {
                let t0 = d as f64 / total as f64;
                [-1i64, 0, 1]
                    .iter()
                    .map(|dl| f64::from_bits((t0.to_bits() as i64 + dl).max(0) as u64))
                    .filter(|t| (0.0..=1.0).contains(t))
                    .collect()
            }
            _ => vec![(ctx.rng.below(1 << 20) as f64) / (1u64 << 20) as f64],
        };
        for t in tols {
            ctx.count(&format!("huge_{}", ty));
            let p = vec![usize::MAX; len];
            let op = if ty == "i64" && ctx.rng.usize(2) == 0 {
                format_op(t, &ws.iter().map(|&w| w as i64).collect::<Vec<_>>(), &p)
            } else {
                format_op_t(ty, t, &ws, &p)
            };
            run_op(ctx, &op);
        }
    }
    // the same small vectors through every type: the types must agree with i64
    for _ in 0..ctx.budget(200, 4000) {
        let len = 1 + ctx.rng.usize(8);
        let ws: Vec<i128> = (0..len).map(|_| ctx.rng.range(0, 30) as i128).collect();
        let t = *ctx.rng.pick(&[0.0, 0.05, 0.1, 0.3, 1.0]);
        for ty in tys {
            ctx.count(&format!("typed_small_{}", ty));
            run_op(ctx, &format_op_t(ty, t, &ws, &vec![usize::MAX; len]));
        }
    }
    ctx.notes.push("HUGE/TYPED stream: totals in the upper half of the weight type's range up to exactly its maximum (max, max-1..3, max-511, max-512, ...), through i64, i32, u32 and u64, four shapes (dominant, equal, random, tiny+one), tolerances 1, pred(1), 0, 0.5..1, the boundary d/total and its float neighbours; i128 oracles".to_string());
}

fn parse_op(op: &str) -> Option<(String, f64, Vec<i128>, Vec<usize>)> {
    let mut it = op.split_whitespace();
    let ty = match it.next()? {
        "ckk" => "i64".to_string(),
        "ckkt" => it.next()?.to_string(),
        _ => return None,
    };
    if !["i64", "i32", "u32", "u64"].contains(&ty.as_str()) {
        return None;
    }
    let tol = f64::from_bits(u64::from_str_radix(it.next()?, 16).ok()?);
    let n: usize = it.next()?.parse().ok()?;
    let mut ws = Vec::with_capacity(n);
    for _ in 0..n {
        ws.push(it.next()?.parse().ok()?);
    }
    let m: usize = it.next()?.parse().ok()?;
    let mut p = Vec::with_capacity(m);
    for _ in 0..m {
        p.push(it.next()?.parse().ok()?);
    }
    Some((ty, tol, ws, p))
}

/// Oracle: smallest achievable |load0 - load1| by subset-sum DP (bitset over sums).
fn best_diff(ws: &[i64]) -> Option<i64> {
    best_diff128(&ws.iter().map(|&w| w as i128).collect::<Vec<_>>()).map(|d| d as i64)
}

fn best_diff128(ws: &[i128]) -> Option<i128> {
    let total: i128 = ws.iter().sum();
    if total > 200_000 {
        if ws.len() > 22 {
            return None;
        }
        // brute force over subsets
        let mut best = i128::MAX;
        for m in 0u32..(1u32 << ws.len().saturating_sub(1)) {
            let mut s = 0i128;
            for (i, w) in ws.iter().enumerate() {
                if m >> i & 1 == 1 {
                    s += w;
                }
            }
            best = best.min((total - 2 * s).abs());
        }
        return Some(best);
    }
    let mut reach = vec![false; total as usize + 1];
    reach[0] = true;
    for &w in ws {
        let w = w as usize;
        for s in (w..=total as usize).rev() {
            if reach[s - w] {
                reach[s] = true;
            }
        }
    }
    let mut best = i128::MAX;
    for s in 0..=total as usize {
        if reach[s] {
            best = best.min((total - 2 * s as i128).abs());
        }
    }
    Some(best)
}

fn call_ckk(ty: &str, tol: f64, p: &mut [usize], ws: &[i128]) -> Result<(), coupe::Error> {
    let a = coupe::CompleteKarmarkarKarp { tolerance: tol };
    let mut a = a;
    match ty {
        "i32" => a.partition(p, ws.iter().map(|&w| w as i32).collect::<Vec<_>>()),
        "u32" => a.partition(p, ws.iter().map(|&w| w as u32).collect::<Vec<_>>()),
        "u64" => a.partition(p, ws.iter().map(|&w| w as u64).collect::<Vec<_>>()),
        _ => a.partition(p, ws.iter().map(|&w| w as i64).collect::<Vec<_>>()),
    }
}

pub fn run_op(ctx: &mut Ctx, op: &str) {
    if ctx.hang_limit_reached() {
        return;
    }
    let Some((ty, tol, ws, p0)) = parse_op(op) else {
        ctx.record(op.to_string(), "bad-op".into(), false);
        return;
    };
    let max = ty_max(&ty);
    let sum: i128 = ws.iter().sum();
    if ws.iter().any(|&w| w < 0) || sum > max {
        // outside the contract (negative weight or a sum that overflows the type): not run
        ctx.record(op.to_string(), "out-of-contract".into(), false);
        return;
    }
    let mut p = p0.clone();
    let ws2 = ws.clone();
    let ty2 = ty.clone();
    let res = catch(move || {
        let r = call_ckk(&ty2, tol, &mut p, &ws2);
        (r, p)
    });
    // the bound the property names: tolerance x total, converted to the weight type (no load
    // difference exceeds the total, so a bound above the type's maximum means "any partition")
    let sum_f = match ty.as_str() {
        "u64" => (sum as u64) as f64,
        _ => (sum as i64) as f64,
    };
    let tol_t: i128 = {
        let x = sum_f * tol;
        let hi = (max + 1) as f64; // 2^31, 2^32, 2^63, 2^64: exact
        if x >= hi { sum } else { x as i128 }
    };
    let nontrivial = ws.len() >= 2 && ws.len() == p0.len();
    let (res, p) = match res {
        Caught::Ok((r, p)) => (Caught::Ok(r), p),
        Caught::Panic(m) => (Caught::Panic(m), p0.clone()),
        Caught::Hang => (Caught::Hang, p0.clone()),
    };
    let (out, verdict): (String, Option<(&str, String)>) = match res {
        Caught::Ok(Ok(())) => {
            if ws.is_empty() {
                ("ok".to_string(), None)
            } else {
                let mut v = None;
                if p.iter().any(|&i| i > 1) {
                    v = Some(("ckk-id-out-of-range", format!("ids {:?}", p)));
                } else {
                    let l0: i128 = ws.iter().zip(&p).filter(|(_, &i)| i == 0).map(|(w, _)| *w).sum();
                    let l1: i128 = sum - l0;
                    if (l0 - l1).abs() > tol_t {
                        v = Some((
                            "ckk-unsound",
                            format!("Ok with loads {} / {} but bound is {}", l0, l1, tol_t),
                        ));
                    }
                }
                if ws.len() != p0.len() {
                    v = Some(("ckk-len-mismatch-ok", "Ok despite a length mismatch".into()));
                }
                (format!("ok {} | {}", tol_t, join(&p)), v)
            }
        }
        Caught::Ok(Err(coupe::Error::NotFound)) => {
            let mut v = None;
            if let Some(b) = best_diff128(&ws) {
                if b <= tol_t {
                    v = Some((
                        "ckk-incomplete",
                        format!("NotFound but a partition with difference {} <= {} exists", b, tol_t),
                    ));
                }
            }
            if p != p0 {
                v = Some(("ckk-notfound-wrote", "array modified although NotFound".into()));
            }
            (format!("notfound {}", tol_t), v)
        }
        Caught::Ok(Err(coupe::Error::InputLenMismatch { .. })) => {
            let mut v = None;
            if ws.len() == p0.len() {
                v = Some(("ckk-spurious-lenmismatch", "InputLenMismatch on matching lengths".into()));
            } else if p != p0 {
                v = Some(("ckk-lenmismatch-wrote", "array modified before InputLenMismatch".into()));
            }
            ("lenmismatch".to_string(), v)
        }
        Caught::Ok(Err(e)) => (format!("err {:?}", e), Some(("ckk-unexpected-error", format!("{:?}", e)))),
        Caught::Panic(m) => {
            let sig = panic_sig(&m);
            (format!("panic {}", m), Some(("panic", format!("{} [{}]", m, sig))))
        }
        Caught::Hang => ("hang".into(), Some(("hang", "watchdog".into()))),
    };
    ctx.count(out.split(' ').next().unwrap_or(""));
    let idx = ctx.record(op.to_string(), out, nontrivial);
    if let Some((sig, what)) = verdict {
        ctx.fail(idx, sig, what);
    }
}
