//! C13 — CompleteKarmarkarKarp is sound and complete for its tolerance.
//!
//! op: `ckk <tolerance f64 bits hex> <n> <w…> <m> <p…>` (i64 weights; `p` = initial array)
//! out: `ok <tol> | <ids>` | `notfound <tol>` | `lenmismatch` | `panic …`

use crate::common::*;
use coupe::Partition as _;

const TOLS: [f64; 5] = [0.0, 0.05, 0.1, 0.5, 1.0];

pub fn generate(ctx: &mut Ctx) {
    // exhaustive: every vector over {0..a} up to length l, every tolerance
    let (alpha, maxlen) = if ctx.quick() { (3i64, 6usize) } else { (5, 7) };
    for len in 0..=maxlen {
        let mut v = vec![0i64; len];
        loop {
            for t in TOLS {
                let op = format_op(t, &v, &vec![usize::MAX; len]);
                run_op(ctx, &op);
            }
            // next vector
            let mut i = 0;
            while i < len {
                if v[i] < alpha {
                    v[i] += 1;
                    break;
                }
                v[i] = 0;
                i += 1;
            }
            if i == len {
                break;
            }
        }
    }
    ctx.notes.push(format!(
        "exhaustive sub-space: all weight vectors over 0..={} of length 0..={} x tolerances {:?}",
        alpha, maxlen, TOLS
    ));
    // random vectors up to 20 elements, several shapes
    let n = ctx.budget(1500, 60000);
    for _ in 0..n {
        let len = 1 + ctx.rng.usize(if ctx.quick() { 14 } else { 20 });
        let mode = ctx.rng.usize(5);
        let mut v: Vec<i64> = (0..len)
            .map(|_| match mode {
                0 => ctx.rng.range(0, 9),
                1 => ctx.rng.range(0, 1000),
                2 => ctx.rng.range(1, 3),
                3 => ctx.rng.range(0, 1_000_000_000),
                _ => ctx.rng.range(0, 50),
            })
            .collect();
        if mode == 4 {
            // one dominant element
            let k = ctx.rng.usize(len);
            v[k] = ctx.rng.range(100, 2000);
        }
        let tol = match ctx.rng.usize(8) {
            0 => 0.0,
            1 => 1.0,
            2 => 0.5,
            3 => 0.05,
            4 => 1.0 / (1 + ctx.rng.usize(64)) as f64,
            _ => (ctx.rng.below(1 << 20) as f64) / (1u64 << 20) as f64 * 0.2,
        };
        ctx.count(&format!("random_mode_{}", mode));
        let op = format_op(tol, &v, &vec![usize::MAX; len]);
        run_op(ctx, &op);
    }
    // boundary tolerances: tolerance x total lands on, just below or just above an integer m
    // close to the optimal difference d (the conversion to the weight type truncates, so these
    // are the inputs on which an off-by-rounding in the bound decides between Ok and NotFound)
    for _ in 0..ctx.budget(400, 20000) {
        let len = 2 + ctx.rng.usize(if ctx.quick() { 9 } else { 14 });
        let hi = *ctx.rng.pick(&[3i64, 9, 30, 100, 1000]);
        let v: Vec<i64> = (0..len).map(|_| ctx.rng.range(0, hi)).collect();
        let sum: i64 = v.iter().sum();
        if sum == 0 {
            continue;
        }
        let d = best_diff(&v).unwrap_or(0);
        for m in [d, d + 1, d.saturating_sub(1).max(0), ctx.rng.range(0, sum)] {
            if m > sum {
                continue;
            }
            let t0 = m as f64 / sum as f64;
            for delta in [-2i64, -1, 0, 1, 2] {
                let bits = t0.to_bits() as i64 + delta;
                if bits < 0 {
                    continue;
                }
                let t = f64::from_bits(bits as u64);
                if !(0.0..=1.0).contains(&t) {
                    continue;
                }
                ctx.count("boundary_tolerance");
                let op = format_op(t, &v, &vec![usize::MAX; len]);
                run_op(ctx, &op);
            }
        }
    }
    // malformed stream: length mismatches
    for _ in 0..ctx.budget(50, 500) {
        let len = ctx.rng.usize(6);
        let plen = ctx.rng.usize(6);
        let v: Vec<i64> = (0..len).map(|_| ctx.rng.range(0, 9)).collect();
        let op = format_op(0.1, &v, &vec![7usize; plen]);
        run_op(ctx, &op);
    }
}

fn format_op(tol: f64, ws: &[i64], p: &[usize]) -> String {
    format!("ckk {:x} {} {} {} {}", tol.to_bits(), ws.len(), join(ws), p.len(), join(p))
        .split_whitespace()
        .collect::<Vec<_>>()
        .join(" ")
}

fn parse_op(op: &str) -> Option<(f64, Vec<i64>, Vec<usize>)> {
    let mut it = op.split_whitespace();
    if it.next()? != "ckk" {
        return None;
    }
    let tol = f64::from_bits(u64::from_str_radix(it.next()?, 16).ok()?);
    let n: usize = it.next()?.parse().ok()?;
    let mut ws = Vec::with_capacity(n);
    for _ in 0..n {
        ws.push(it.next()?.parse().ok()?);
    }
    let m: usize = it.next()?.parse().ok()?;
    let mut p = Vec::with_capacity(m);
    for _ in 0..m {
        p.push(it.next()?.parse().ok()?);
    }
    Some((tol, ws, p))
}

/// Oracle: smallest achievable |load0 - load1| by subset-sum DP (bitset over sums).
fn best_diff(ws: &[i64]) -> Option<i64> {
    let total: i64 = ws.iter().sum();
    if total > 200_000 {
        if ws.len() > 22 {
            return None;
        }
        // brute force over subsets
        let mut best = i64::MAX;
        for m in 0u32..(1u32 << ws.len().saturating_sub(1)) {
            let mut s = 0i64;
            for (i, w) in ws.iter().enumerate() {
                if m >> i & 1 == 1 {
                    s += w;
                }
            }
            best = best.min((total - 2 * s).abs());
        }
        return Some(best);
    }
    let mut reach = vec![false; total as usize + 1];
    reach[0] = true;
    for &w in ws {
        let w = w as usize;
        for s in (w..=total as usize).rev() {
            if reach[s - w] {
                reach[s] = true;
            }
        }
    }
    let mut best = i64::MAX;
    for s in 0..=total as usize {
        if reach[s] {
            best = best.min((total - 2 * s as i64).abs());
        }
    }
    Some(best)
}

pub fn run_op(ctx: &mut Ctx, op: &str) {
    if ctx.hang_limit_reached() {
        return;
    }
    let Some((tol, ws, p0)) = parse_op(op) else {
        ctx.record(op.to_string(), "bad-op".into(), false);
        return;
    };
    let mut p = p0.clone();
    let ws2 = ws.clone();
    let res = catch(|| coupe::CompleteKarmarkarKarp { tolerance: tol }.partition(&mut p, ws2));
    let sum: i64 = ws.iter().sum();
    // the bound the property names: tolerance x total, converted to the weight type
    let tol_t = (sum as f64 * tol) as i64;
    let nontrivial = ws.len() >= 2 && ws.len() == p0.len();
    let (out, verdict): (String, Option<(&str, String)>) = match res {
        Caught::Ok(Ok(())) => {
            if ws.is_empty() {
                ("ok".to_string(), None)
            } else {
                let mut v = None;
                if p.iter().any(|&i| i > 1) {
                    v = Some(("ckk-id-out-of-range", format!("ids {:?}", p)));
                } else {
                    let l0: i64 = ws.iter().zip(&p).filter(|(_, &i)| i == 0).map(|(w, _)| *w).sum();
                    let l1: i64 = sum - l0;
                    if (l0 - l1).abs() > tol_t {
                        v = Some((
                            "ckk-unsound",
                            format!("Ok with loads {} / {} but bound is {}", l0, l1, tol_t),
                        ));
                    }
                }
                if ws.len() != p0.len() {
                    v = Some(("ckk-len-mismatch-ok", "Ok despite a length mismatch".into()));
                }
                (format!("ok {} | {}", tol_t, join(&p)), v)
            }
        }
        Caught::Ok(Err(coupe::Error::NotFound)) => {
            let mut v = None;
            if let Some(b) = best_diff(&ws) {
                if b <= tol_t {
                    v = Some((
                        "ckk-incomplete",
                        format!("NotFound but a partition with difference {} <= {} exists", b, tol_t),
                    ));
                }
            }
            if p != p0 {
                v = Some(("ckk-notfound-wrote", "array modified although NotFound".into()));
            }
            (format!("notfound {}", tol_t), v)
        }
        Caught::Ok(Err(coupe::Error::InputLenMismatch { .. })) => {
            let mut v = None;
            if ws.len() == p0.len() {
                v = Some(("ckk-spurious-lenmismatch", "InputLenMismatch on matching lengths".into()));
            } else if p != p0 {
                v = Some(("ckk-lenmismatch-wrote", "array modified before InputLenMismatch".into()));
            }
            ("lenmismatch".to_string(), v)
        }
        Caught::Ok(Err(e)) => (format!("err {:?}", e), Some(("ckk-unexpected-error", format!("{:?}", e)))),
        Caught::Panic(m) => {
            let sig = panic_sig(&m);
            (format!("panic {}", m), Some(("panic", format!("{} [{}]", m, sig))))
        }
        Caught::Hang => ("hang".into(), Some(("hang", "watchdog".into()))),
    };
    ctx.count(out.split(' ').next().unwrap_or(""));
    let idx = ctx.record(op.to_string(), out, nontrivial);
    if let Some((sig, what)) = verdict {
        ctx.fail(idx, sig, what);
    }
}
