//! C17 — the C API computes what the Rust API computes and contains panics.
//!
//! Differential run through the REAL C library: `/repo/ffi` is built with cargo
//! (current working tree, dev profile: overflow checks and debug assertions on)
//! and `harness/capi/driver.c` is compiled with clang against
//! `/repo/ffi/include/coupe.h` and linked with it (a header declaration without
//! an exported symbol of that exact name is a link error → sig `capi-build`).
//! Every op goes (1) through the Rust API in-process — the reference — and
//! (2) through the C driver running as a child process.
//!
//! ops (tokens; `<data>` = `<arr|const|fn> <int|i64|f64> <arity> <len> <k> <v…>`, f64 as hex bits):
//!   rcb|rib <dimension> <iter_count> <tolerance bits> P <data> W <data> I <n> <p…>
//!   hilbert <part_count> <order> P <data> W <data> I <n> <p…>
//!   greedy|kk <part_count> W <data> I <n> <p…>
//!   ckk <tolerance bits> W <data> I <n> <p…>
//!   fm <max_passes> <max_moves> <max_imbalance bits> <max_bad> A <checked|unchecked> <int|i64|f64>
//!      <size> <nx> <xadj…> <na> <adjncy…> <nd> <data…> W <data> I <n> <p…>
//!   strerror <code>
//!   rel <any of the above>   the same op through the RELEASE build of the library (second C process)
//!   reuse <op> ;; <op> [;; <op> …]   HANDLE REUSE (algorithm ops only): executed in order by the C driver
//!      inside ONE pool of coupe_data handles — a data set of a later op with the same role (P/W),
//!      representation, type, arity and length as an earlier one is not built again: the memory behind
//!      the existing handle (array / constant / what the callback reads) is overwritten with the new
//!      values and the SAME handle is passed again.  Each step is judged like the op alone (the Rust
//!      API on the values current at the time of the call); out = the steps' lines joined by ` ;; `.
//! The recorded op carries the reference outcome of the Rust API after a token `R`
//! (`ok <n> <ids>` | `okties` | `err <Variant> <n> <ids>` | `herr InvalidOrder <n> <ids>` |
//! `panic` | `na` = no Rust-level counterpart, the C prologue must reject | `nulladj`), which is
//! the algorithm-outcome parameter of the Lean model of the FFI layer.  On input, everything
//! from `R` on is dropped and recomputed.
//!
//! out = the C driver's line: `<CODE>(<n>) | <ids>`, `CRASH(2)`, `NULL_ADJNCY`, `strerror <n> <msg>`;
//! for FiducciaMattheyses inputs on which hash-set order can matter (ties) `OK(0) ~ties`;
//! for a `rel` op whose dev-profile reference panics: `survived` (the code is not compared there).

use crate::common::*;
use coupe::nalgebra::SVector;
use coupe::rayon::prelude::*;
use coupe::Partition as _;
use std::io::{BufRead, BufReader, Write};
use std::process::{Child, ChildStdin, Command, Stdio};
use std::sync::mpsc::{channel, Receiver};
use std::sync::{Mutex, OnceLock};
#[allow(unused_imports)]
use std::time::Duration;

// ------------------------------------------------------------------ op model

#[derive(Clone, Copy, PartialEq, Eq, Debug)]
enum Repr {
    Arr,
    Const,
    Fn,
}
const REPRS: [Repr; 3] = [Repr::Arr, Repr::Const, Repr::Fn];

#[derive(Clone, Copy, PartialEq, Eq, Debug)]
enum Ty {
    Int,
    I64,
    F64,
}
const TYS: [Ty; 3] = [Ty::Int, Ty::I64, Ty::F64];

impl Repr {
    fn s(self) -> &'static str {
        match self {
            Repr::Arr => "arr",
            Repr::Const => "const",
            Repr::Fn => "fn",
        }
    }
}
impl Ty {
    fn s(self) -> &'static str {
        match self {
            Ty::Int => "int",
            Ty::I64 => "i64",
            Ty::F64 => "f64",
        }
    }
    fn parse(s: &str) -> Option<Ty> {
        Some(match s {
            "int" => Ty::Int,
            "i64" => Ty::I64,
            "f64" => Ty::F64,
            _ => return None,
        })
    }
}

/// Values of a data set as written in the op: integers, or f64 bit patterns.
#[derive(Clone, Debug)]
struct DataSet {
    repr: Repr,
    ty: Ty,
    arity: usize,
    len: usize,
    /// `k` raw values: i64 for int/i64, bit patterns for f64
    ints: Vec<i64>,
    bits: Vec<u64>,
}

impl DataSet {
    fn fmt(&self) -> String {
        let k = if self.ty == Ty::F64 { self.bits.len() } else { self.ints.len() };
        let mut s = format!("{} {} {} {} {}", self.repr.s(), self.ty.s(), self.arity, self.len, k);
        if self.ty == Ty::F64 {
            for b in &self.bits {
                s.push_str(&format!(" {:x}", b));
            }
        } else {
            for v in &self.ints {
                s.push_str(&format!(" {}", v));
            }
        }
        s
    }

    fn parse<'a>(it: &mut impl Iterator<Item = &'a str>) -> Option<DataSet> {
        let repr = match it.next()? {
            "arr" => Repr::Arr,
            "const" => Repr::Const,
            "fn" => Repr::Fn,
            _ => return None,
        };
        let ty = Ty::parse(it.next()?)?;
        let arity: usize = it.next()?.parse().ok()?;
        let len: usize = it.next()?.parse().ok()?;
        let k: usize = it.next()?.parse().ok()?;
        if arity == 0 || arity > 8 || len > 1_000_000 {
            return None;
        }
        let want = if repr == Repr::Const { arity } else { len * arity };
        if k != want {
            return None;
        }
        let mut ints = vec![];
        let mut bits = vec![];
        for _ in 0..k {
            let t = it.next()?;
            match ty {
                Ty::F64 => bits.push(u64::from_str_radix(t, 16).ok()?),
                Ty::I64 => ints.push(t.parse::<i64>().ok()?),
                Ty::Int => {
                    let v = t.parse::<i64>().ok()?;
                    if v < i32::MIN as i64 || v > i32::MAX as i64 {
                        return None;
                    }
                    ints.push(v)
                }
            }
        }
        Some(DataSet { repr, ty, arity, len, ints, bits })
    }

    /// The logical sequence the data set denotes (flattened: `len * arity` scalars).
    /// This is the harness's own reading of the three representations.
    fn logical_f64(&self) -> Vec<f64> {
        let raw: Vec<f64> = if self.ty == Ty::F64 {
            self.bits.iter().map(|&b| f64::from_bits(b)).collect()
        } else {
            self.ints.iter().map(|&v| v as f64).collect()
        };
        self.expand(raw)
    }
    fn logical_i64(&self) -> Vec<i64> {
        self.expand(self.ints.clone())
    }
    fn expand<T: Clone>(&self, raw: Vec<T>) -> Vec<T> {
        match self.repr {
            Repr::Arr | Repr::Fn => raw,
            Repr::Const => {
                let mut v = Vec::with_capacity(self.len * self.arity);
                for _ in 0..self.len {
                    v.extend(raw.iter().cloned());
                }
                v
            }
        }
    }
}

#[derive(Clone, Debug)]
struct Adj {
    checked: bool,
    ty: Ty,
    size: usize,
    xadj: Vec<usize>,
    adjncy: Vec<usize>,
    ints: Vec<i64>,
    bits: Vec<u64>,
}

#[derive(Clone, Debug)]
enum Op {
    Geo { name: &'static str, dim: usize, iter: usize, tol: f64, pts: DataSet, ws: DataSet, init: Vec<usize> },
    Hilbert { parts: usize, order: u32, pts: DataSet, ws: DataSet, init: Vec<usize> },
    Num { name: &'static str, parts: usize, tol: f64, ws: DataSet, init: Vec<usize> },
    Fm { max_passes: usize, max_moves: usize, imb: f64, max_bad: usize, adj: Adj, ws: DataSet, init: Vec<usize> },
    Strerror(u64),
}

fn fmt_init(p: &[usize]) -> String {
    if p.is_empty() {
        "I 0".to_string()
    } else {
        format!("I {} {}", p.len(), join(p))
    }
}

fn format_op(op: &Op) -> String {
    match op {
        Op::Geo { name, dim, iter, tol, pts, ws, init } => format!(
            "{} {} {} {:x} P {} W {} {}",
            name, dim, iter, tol.to_bits(), pts.fmt(), ws.fmt(), fmt_init(init)
        ),
        Op::Hilbert { parts, order, pts, ws, init } => {
            format!("hilbert {} {} P {} W {} {}", parts, order, pts.fmt(), ws.fmt(), fmt_init(init))
        }
        Op::Num { name, parts, tol, ws, init } => {
            if *name == "ckk" {
                format!("ckk {:x} W {} {}", tol.to_bits(), ws.fmt(), fmt_init(init))
            } else {
                format!("{} {} W {} {}", name, parts, ws.fmt(), fmt_init(init))
            }
        }
        Op::Fm { max_passes, max_moves, imb, max_bad, adj, ws, init } => {
            let mut s = format!(
                "fm {} {} {:x} {} A {} {} {} {}",
                max_passes,
                max_moves,
                imb.to_bits(),
                max_bad,
                if adj.checked { "checked" } else { "unchecked" },
                adj.ty.s(),
                adj.size,
                adj.xadj.len()
            );
            for x in &adj.xadj {
                s.push_str(&format!(" {}", x));
            }
            s.push_str(&format!(" {}", adj.adjncy.len()));
            for x in &adj.adjncy {
                s.push_str(&format!(" {}", x));
            }
            if adj.ty == Ty::F64 {
                s.push_str(&format!(" {}", adj.bits.len()));
                for x in &adj.bits {
                    s.push_str(&format!(" {:x}", x));
                }
            } else {
                s.push_str(&format!(" {}", adj.ints.len()));
                for x in &adj.ints {
                    s.push_str(&format!(" {}", x));
                }
            }
            s.push_str(&format!(" W {} {}", ws.fmt(), fmt_init(init)));
            s
        }
        Op::Strerror(c) => format!("strerror {}", c),
    }
}

fn parse_init<'a>(it: &mut impl Iterator<Item = &'a str>) -> Option<Vec<usize>> {
    if it.next()? != "I" {
        return None;
    }
    let n: usize = it.next()?.parse().ok()?;
    if n > 1_000_000 {
        return None;
    }
    let mut p = Vec::with_capacity(n);
    for _ in 0..n {
        p.push(it.next()?.parse::<usize>().ok()?);
    }
    Some(p)
}

fn f64_hex(s: &str) -> Option<f64> {
    Some(f64::from_bits(u64::from_str_radix(s, 16).ok()?))
}

/// Parses and validates (everything the C driver needs for a memory-safe call).
fn parse_op(line: &str) -> Option<Op> {
    let toks: Vec<&str> = line.split_whitespace().take_while(|t| *t != "R").collect();
    let mut it = toks.into_iter();
    let name = it.next()?;
    let op = match name {
        "rcb" | "rib" => {
            let dim: usize = it.next()?.parse().ok()?;
            let iter: usize = it.next()?.parse().ok()?;
            let tol = f64_hex(it.next()?)?;
            if it.next()? != "P" {
                return None;
            }
            let pts = DataSet::parse(&mut it)?;
            if it.next()? != "W" {
                return None;
            }
            let ws = DataSet::parse(&mut it)?;
            let init = parse_init(&mut it)?;
            if pts.ty != Ty::F64 || ws.arity != 1 || init.len() != pts.len {
                return None;
            }
            if (dim == 2 || dim == 3) && pts.arity != dim {
                return None;
            }
            Op::Geo { name: if name == "rcb" { "rcb" } else { "rib" }, dim, iter, tol, pts, ws, init }
        }
        "hilbert" => {
            let parts: usize = it.next()?.parse().ok()?;
            let order: u32 = it.next()?.parse().ok()?;
            if it.next()? != "P" {
                return None;
            }
            let pts = DataSet::parse(&mut it)?;
            if it.next()? != "W" {
                return None;
            }
            let ws = DataSet::parse(&mut it)?;
            let init = parse_init(&mut it)?;
            if pts.ty != Ty::F64 || pts.arity != 2 || ws.arity != 1 || init.len() != pts.len {
                return None;
            }
            Op::Hilbert { parts, order, pts, ws, init }
        }
        "greedy" | "kk" | "ckk" => {
            let (parts, tol) = if name == "ckk" {
                (0, f64_hex(it.next()?)?)
            } else {
                (it.next()?.parse().ok()?, 0.0)
            };
            if it.next()? != "W" {
                return None;
            }
            let ws = DataSet::parse(&mut it)?;
            let init = parse_init(&mut it)?;
            if ws.arity != 1 || init.len() != ws.len {
                return None;
            }
            let name = match name {
                "greedy" => "greedy",
                "kk" => "kk",
                _ => "ckk",
            };
            Op::Num { name, parts, tol, ws, init }
        }
        "fm" => {
            let max_passes: usize = it.next()?.parse().ok()?;
            let max_moves: usize = it.next()?.parse().ok()?;
            let imb = f64_hex(it.next()?)?;
            let max_bad: usize = it.next()?.parse().ok()?;
            if it.next()? != "A" {
                return None;
            }
            let checked = match it.next()? {
                "checked" => true,
                "unchecked" => false,
                _ => return None,
            };
            let ty = Ty::parse(it.next()?)?;
            let size: usize = it.next()?.parse().ok()?;
            let nx: usize = it.next()?.parse().ok()?;
            if size > 100_000 || nx != size + 1 {
                return None;
            }
            let mut xadj = Vec::with_capacity(nx);
            for _ in 0..nx {
                xadj.push(it.next()?.parse::<usize>().ok()?);
            }
            let na: usize = it.next()?.parse().ok()?;
            if na > 4_000_000 || xadj[size] != na {
                return None;
            }
            let mut adjncy = Vec::with_capacity(na);
            for _ in 0..na {
                adjncy.push(it.next()?.parse::<usize>().ok()?);
            }
            let nd: usize = it.next()?.parse().ok()?;
            if nd != na {
                return None;
            }
            let mut ints = vec![];
            let mut bits = vec![];
            for _ in 0..nd {
                let t = it.next()?;
                match ty {
                    Ty::F64 => bits.push(u64::from_str_radix(t, 16).ok()?),
                    Ty::I64 => ints.push(t.parse::<i64>().ok()?),
                    Ty::Int => {
                        let v = t.parse::<i64>().ok()?;
                        if v < i32::MIN as i64 || v > i32::MAX as i64 {
                            return None;
                        }
                        ints.push(v)
                    }
                }
            }
            if !checked {
                // the unchecked constructor only ever sees structurally valid matrices
                if xadj[0] != 0 || xadj.windows(2).any(|w| w[0] > w[1]) || adjncy.iter().any(|&j| j >= size) {
                    return None;
                }
                for r in 0..size {
                    if adjncy[xadj[r]..xadj[r + 1]].windows(2).any(|w| w[0] >= w[1]) {
                        return None;
                    }
                }
            }
            if it.next()? != "W" {
                return None;
            }
            let ws = DataSet::parse(&mut it)?;
            let init = parse_init(&mut it)?;
            if ws.arity != 1 || init.len() != ws.len {
                return None;
            }
            Op::Fm { max_passes, max_moves, imb, max_bad, adj: Adj { checked, ty, size, xadj, adjncy, ints, bits }, ws, init }
        }
        "strerror" => {
            let c: u64 = it.next()?.parse().ok()?;
            if c > 8 {
                return None;
            }
            Op::Strerror(c)
        }
        _ => return None,
    };
    if it.next().is_some() {
        return None;
    }
    Some(op)
}

// ------------------------------------------------------- the Rust reference

/// Outcome of the Rust API on the logical data of the op.
#[derive(Clone, Debug, PartialEq)]
enum Ref {
    Ok(Vec<usize>),
    /// FiducciaMattheyses on an input where hash-set order may matter
    OkTies(Vec<usize>),
    Err(&'static str, Vec<usize>),
    HilbertErr(Vec<usize>),
    Panic(String),
    Hang,
    /// the Rust API has no counterpart (dimension not 2/3, type the Rust signature excludes)
    Na,
    /// sprs refuses the CSR structure
    NullAdj,
}

fn err_name(e: coupe::Error) -> &'static str {
    match e {
        coupe::Error::NotFound => "NotFound",
        coupe::Error::InputLenMismatch { .. } => "InputLenMismatch",
        coupe::Error::NegativeValues => "NegativeValues",
        coupe::Error::BiPartitioningOnly => "BiPartitioningOnly",
        _ => "Other",
    }
}

fn points<const D: usize>(flat: &[f64]) -> Vec<SVector<f64, D>> {
    flat.chunks_exact(D).map(SVector::<f64, D>::from_column_slice).collect()
}

fn finish<M>(r: Caught<(Result<M, coupe::Error>, Vec<usize>)>) -> Ref {
    match r {
        Caught::Ok((Ok(_), p)) => Ref::Ok(p),
        Caught::Ok((Err(e), p)) => Ref::Err(err_name(e), p),
        Caught::Panic(m) => Ref::Panic(m),
        Caught::Hang => Ref::Hang,
    }
}

/// `$body` is evaluated with `$w` bound to a `Vec<i32>`, `Vec<i64>` or `Vec<f64>`
/// holding the logical weight sequence, as the element type says.
macro_rules! with_weights {
    ($ws:expr, $w:ident, $body:expr) => {
        match $ws.ty {
            Ty::Int => {
                let $w: Vec<i32> = $ws.logical_i64().into_iter().map(|v| v as i32).collect();
                $body
            }
            Ty::I64 => {
                let $w: Vec<i64> = $ws.logical_i64();
                $body
            }
            Ty::F64 => {
                let $w: Vec<f64> = $ws.logical_f64();
                $body
            }
        }
    };
}

const REF_TIMEOUT: u64 = 120;

fn reference(op: &Op) -> Ref {
    match op.clone() {
        Op::Geo { name, dim, iter, tol, pts, ws, init } => {
            if dim != 2 && dim != 3 {
                return Ref::Na;
            }
            let flat = pts.logical_f64();
            let rcb = name == "rcb";
            macro_rules! go {
                ($d:literal) => {
                    with_weights!(ws, w, {
                        finish(catch_timeout(REF_TIMEOUT, move || {
                            let mut p = init;
                            let pv = points::<$d>(&flat);
                            let r = if rcb {
                                coupe::Rcb { iter_count: iter, tolerance: tol }
                                    .partition(&mut p, (pv.par_iter().cloned(), w.par_iter().cloned()))
                            } else {
                                coupe::Rib { iter_count: iter, tolerance: tol }
                                    .partition(&mut p, (&pv[..], w.par_iter().cloned()))
                            };
                            (r, p)
                        }))
                    })
                };
            }
            if dim == 2 {
                go!(2)
            } else {
                go!(3)
            }
        }
        Op::Hilbert { parts, order, pts, ws, init } => {
            if ws.ty != Ty::F64 {
                // HilbertCurve is implemented for `W: AsRef<[f64]>` only
                return Ref::Na;
            }
            let flat = pts.logical_f64();
            let w = ws.logical_f64();
            if w.len() != pts.len {
                // the Rust signature has no length check of its own to compare with
                // (`partition_indexed` zips); the C prologue must reject
                return Ref::Err("InputLenMismatch", init);
            }
            match catch_timeout(REF_TIMEOUT, move || {
                let mut p = init;
                let pv = points::<2>(&flat);
                let r = coupe::HilbertCurve { part_count: parts, order }.partition(&mut p, (&pv[..], w));
                (r, p)
            }) {
                Caught::Ok((Ok(()), p)) => Ref::Ok(p),
                Caught::Ok((Err(_), p)) => Ref::HilbertErr(p),
                Caught::Panic(m) => Ref::Panic(m),
                Caught::Hang => Ref::Hang,
            }
        }
        Op::Num { name, parts, tol, ws, init } => match name {
            "greedy" => with_weights!(ws, w, {
                finish(catch_timeout(REF_TIMEOUT, move || {
                    let mut p = init;
                    let r = coupe::Greedy { part_count: parts }.partition(&mut p, w.iter().cloned());
                    (r, p)
                }))
            }),
            "ckk" => with_weights!(ws, w, {
                finish(catch_timeout(REF_TIMEOUT, move || {
                    let mut p = init;
                    let r = coupe::CompleteKarmarkarKarp { tolerance: tol }.partition(&mut p, w.iter().cloned());
                    (r, p)
                }))
            }),
            _ => match ws.ty {
                Ty::Int => {
                    let w: Vec<i32> = ws.logical_i64().into_iter().map(|v| v as i32).collect();
                    finish(catch_timeout(REF_TIMEOUT, move || {
                        let mut p = init;
                        let r = coupe::KarmarkarKarp { part_count: parts }.partition(&mut p, w.iter().cloned());
                        (r, p)
                    }))
                }
                Ty::I64 => {
                    let w = ws.logical_i64();
                    finish(catch_timeout(REF_TIMEOUT, move || {
                        let mut p = init;
                        let r = coupe::KarmarkarKarp { part_count: parts }.partition(&mut p, w.iter().cloned());
                        (r, p)
                    }))
                }
                Ty::F64 => {
                    // `coupe::Real` is `repr(transparent)` over f64; the C API views the
                    // caller's doubles as `Real` without the finiteness assertion of `From`.
                    let w: Vec<coupe::Real> = ws
                        .logical_f64()
                        .into_iter()
                        .map(|x| unsafe { std::mem::transmute::<f64, coupe::Real>(x) })
                        .collect();
                    finish(catch_timeout(REF_TIMEOUT, move || {
                        let mut p = init;
                        let r = coupe::KarmarkarKarp { part_count: parts }.partition(&mut p, w.iter().cloned());
                        (r, p)
                    }))
                }
            },
        },
        Op::Fm { max_passes, max_moves, imb, max_bad, adj, ws, init } => {
            // the structure check `coupe_adjncy_csr` documents (sprs' own, on the typed data)
            let structure_ok = {
                let shape = (adj.size, adj.size);
                match adj.ty {
                    Ty::F64 => {
                        let d: Vec<f64> = adj.bits.iter().map(|&b| f64::from_bits(b)).collect();
                        coupe::sprs::CsMatView::try_new(shape, &adj.xadj[..], &adj.adjncy[..], &d[..]).is_ok()
                    }
                    _ => coupe::sprs::CsMatView::try_new(shape, &adj.xadj[..], &adj.adjncy[..], &adj.ints[..]).is_ok(),
                }
            };
            if !structure_ok {
                return Ref::NullAdj;
            }
            if adj.ty != Ty::I64 {
                // FiducciaMattheyses wants `Topology<i64>`
                return Ref::Na;
            }
            // parameter translation documented in coupe.h: zero `max_passes` /
            // `max_moves_per_pass` = no limit; NEGATIVE `max_imbalance` = the imbalance
            // of the input partition.
            let algo = coupe::FiducciaMattheyses {
                max_passes: if max_passes == 0 { None } else { Some(max_passes) },
                max_moves_per_pass: if max_moves == 0 { None } else { Some(max_moves) },
                max_imbalance: match FM_TRANSLATION.with(|t| t.get()) {
                    Some(forced) => forced,
                    None => fm_documented(imb),
                },
                max_bad_move_in_a_row: max_bad,
            };
            let tie_free = fm_tie_free(&ws.logical_f64());
            let r = with_weights!(ws, w, {
                finish(catch_timeout(REF_TIMEOUT, move || {
                    let mut p = init;
                    let mut algo = algo;
                    let m = coupe::sprs::CsMatView::try_new(
                        (adj.size, adj.size),
                        &adj.xadj[..],
                        &adj.adjncy[..],
                        &adj.ints[..],
                    )
                    .ok()
                    .unwrap();
                    let r = algo.partition(&mut p, (m, &w[..]));
                    (r, p)
                }))
            });
            match r {
                Ref::Ok(p) if !tie_free => Ref::OkTies(p),
                r => r,
            }
        }
        Op::Strerror(_) => Ref::Na,
    }
}

/// coupe.h: "if `max_imbalance` is negative, it will be set to the imbalance of the input
/// partition" — NEGATIVE is `< 0`: -0.0 is not negative (it compares equal to zero), neither is
/// a NaN; every value below zero is, down to the smallest subnormal and -inf.
fn fm_documented(imb: f64) -> Option<f64> {
    if imb < 0.0 {
        None
    } else {
        Some(imb)
    }
}

thread_local! {
    /// Generator-side only (sensitivity probing): evaluate the FiducciaMattheyses reference under
    /// ANOTHER translation of `max_imbalance` than the documented one.  Never set while judging.
    static FM_TRANSLATION: std::cell::Cell<Option<Option<f64>>> = const { std::cell::Cell::new(None) };
}

/// Sufficient condition for FiducciaMattheyses to be independent of the iteration order
/// of its hash sets: the candidate of a gain bucket is chosen by `min_by` on
/// `part_weights[target] + weight`; with at least 3 vertices and weights that are distinct
/// powers of two, or `B + 2^i` with distinct `i` and `B >= 2 * max 2^i`, two vertices never
/// have the same key (a tie would need two disjoint vertex sets of equal total weight).
fn fm_tie_free(ws: &[f64]) -> bool {
    if ws.len() < 3 || ws.iter().any(|w| !(*w >= 1.0 && *w < 9.0e15 && w.fract() == 0.0)) {
        return false;
    }
    let v: Vec<u64> = ws.iter().map(|w| *w as u64).collect();
    let distinct_pows = |v: &[u64]| {
        let mut seen = 0u64;
        for &x in v {
            if !x.is_power_of_two() || seen & x != 0 {
                return false;
            }
            seen |= x;
        }
        true
    };
    if distinct_pows(&v) {
        return true;
    }
    let m = *v.iter().min().unwrap();
    for j in 0..50 {
        let low = 1u64 << j;
        if low >= m {
            break;
        }
        let b = m - low;
        let rest: Vec<u64> = v.iter().map(|x| x - b).collect();
        if distinct_pows(&rest) && b >= 2 * rest.iter().max().unwrap() {
            return true;
        }
    }
    false
}

fn ref_string(r: &Ref) -> String {
    let ids = |p: &Vec<usize>| if p.is_empty() { "0".to_string() } else { format!("{} {}", p.len(), join(p)) };
    match r {
        Ref::Ok(p) => format!("ok {}", ids(p)),
        Ref::OkTies(_) => "okties".into(),
        Ref::Err(e, p) => format!("err {} {}", e, ids(p)),
        Ref::HilbertErr(p) => format!("herr InvalidOrder {}", ids(p)),
        Ref::Panic(_) => "panic".into(),
        Ref::Hang => "hang".into(),
        Ref::Na => "na".into(),
        Ref::NullAdj => "nulladj".into(),
    }
}

// ---------------------------------------------------------- the C library

const FFI_TARGET: &str = "/verif/.build/ffi";
const CAPI_DIR: &str = "/verif/.build/capi";
const DRIVER_SRC: &str = "/verif/harness/capi/driver.c";

/// Builds `/repo/ffi` (current working tree) and the C driver. Err = build log tail.
fn build_capi(release: bool) -> Result<String, String> {
    std::fs::create_dir_all(CAPI_DIR).map_err(|e| e.to_string())?;
    // one builder at a time (several checks may run concurrently)
    let lock = std::fs::File::create(format!("{}/build.lock", CAPI_DIR)).map_err(|e| e.to_string())?;
    let _ = lock.lock();
    let mut args = vec!["build", "--offline", "-p", "coupe-ffi", "--manifest-path", "/repo/Cargo.toml", "--target-dir", FFI_TARGET];
    if release {
        // the library `ffi/Makefile` builds and installs
        args.push("--release");
    }
    let out = Command::new("cargo")
        .args(&args)
        .current_dir("/repo")
        .env("CARGO_NET_OFFLINE", "true")
        .env_remove("RUSTFLAGS")
        .output()
        .map_err(|e| format!("cannot run cargo: {}", e))?;
    if !out.status.success() {
        let log = String::from_utf8_lossy(&out.stderr);
        let tail: String = log.chars().rev().take(1500).collect::<String>().chars().rev().collect();
        return Err(format!("cargo build{} of /repo/ffi failed: {}", if release { " --release" } else { "" }, tail));
    }
    let libdir = format!("{}/{}", FFI_TARGET, if release { "release" } else { "debug" });
    if !std::path::Path::new(&format!("{}/libcoupe.so", libdir)).exists() {
        return Err("libcoupe.so was not produced by the build of /repo/ffi".into());
    }
    let exe = format!("{}/driver{}", CAPI_DIR, if release { "-release" } else { "" });
    let tmp = format!("{}.{}.tmp", exe, std::process::id());
    let out = Command::new("clang")
        .args([
            "-std=c11",
            "-D_POSIX_C_SOURCE=200809L",
            "-O1",
            "-Wall",
            "-Werror=implicit-function-declaration",
            "-Werror=incompatible-pointer-types",
            "-Werror=int-conversion",
            "-I/repo/ffi/include",
            DRIVER_SRC,
            "-o",
            &tmp,
            &format!("-L{}", libdir),
            &format!("-Wl,-rpath,{}", libdir),
            "-lcoupe",
        ])
        .output()
        .map_err(|e| format!("cannot run clang: {}", e))?;
    if !out.status.success() {
        let log = String::from_utf8_lossy(&out.stderr);
        let tail: String = log.chars().take(1500).collect();
        let _ = std::fs::remove_file(&tmp);
        return Err(format!("driver.c does not compile/link against coupe.h + libcoupe: {}", tail));
    }
    std::fs::rename(&tmp, &exe).map_err(|e| e.to_string())?;
    Ok(exe)
}

struct Capi {
    child: Child,
    stdin: ChildStdin,
    lines: Receiver<Option<String>>,
}

/// index 0: dev library, 1: release library
static BUILD: [OnceLock<Result<String, String>>; 2] = [OnceLock::new(), OnceLock::new()];
static CAPI: [Mutex<Option<Capi>>; 2] = [Mutex::new(None), Mutex::new(None)];

fn stderr_log(release: bool) -> String {
    format!("{}/driver{}.stderr", CAPI_DIR, if release { "-release" } else { "" })
}

fn spawn_capi(exe: &str, release: bool) -> Result<Capi, String> {
    let errlog = std::fs::OpenOptions::new()
        .create(true)
        .append(true)
        .open(stderr_log(release))
        .map_err(|e| e.to_string())?;
    let mut child = Command::new(exe)
        .stdin(Stdio::piped())
        .stdout(Stdio::piped())
        .stderr(Stdio::from(errlog))
        .env("RUST_BACKTRACE", "0")
        .spawn()
        .map_err(|e| format!("cannot start the C driver: {}", e))?;
    let stdin = child.stdin.take().unwrap();
    let stdout = child.stdout.take().unwrap();
    let (tx, rx) = channel();
    std::thread::spawn(move || {
        let mut r = BufReader::new(stdout);
        loop {
            let mut s = String::new();
            match r.read_line(&mut s) {
                Ok(0) | Err(_) => {
                    let _ = tx.send(None);
                    break;
                }
                Ok(_) => {
                    if tx.send(Some(s.trim_end().to_string())).is_err() {
                        break;
                    }
                }
            }
        }
    });
    Ok(Capi { child, stdin, lines: rx })
}

enum CRes {
    Line(String),
    /// the child process died while executing the op (abort, signal)
    Died(String),
    Hang,
    Build(String),
}

fn call_c(release: bool, op_line: &str) -> CRes {
    let which = release as usize;
    let exe = match BUILD[which].get_or_init(|| build_capi(release)) {
        Ok(e) => e.clone(),
        Err(m) => return CRes::Build(m.clone()),
    };
    let mut g = CAPI[which].lock().unwrap_or_else(|e| e.into_inner());
    if g.is_none() {
        let _ = std::fs::remove_file(stderr_log(release));
        match spawn_capi(&exe, release) {
            Ok(c) => *g = Some(c),
            Err(m) => return CRes::Build(m),
        }
    }
    let c = g.as_mut().unwrap();
    let sent = writeln!(c.stdin, "{}", op_line).and_then(|_| c.stdin.flush());
    if sent.is_ok() {
        match recv_patient(&c.lines, REF_TIMEOUT) {
            Some(Some(l)) => return CRes::Line(l),
            Some(None) => {}
            None => {
                let _ = c.child.kill();
                let _ = c.child.wait();
                *g = None;
                return CRes::Hang;
            }
        }
    }
    let status = c.child.wait().map(|s| s.to_string()).unwrap_or_else(|e| e.to_string());
    *g = None; // the next op starts a fresh child
    let log = std::fs::read_to_string(stderr_log(release)).unwrap_or_default();
    let tail: String = log.chars().rev().take(400).collect::<String>().chars().rev().collect();
    CRes::Died(format!("{}; stderr tail: {}", status, tail.replace('\n', " / ")))
}

// ------------------------------------------------------------------ oracle

/// `enum coupe_err` of coupe.h, in the order the header lists the constants.
const CODES: [&str; 9] =
    ["OK", "ALLOC", "CRASH", "BAD_DIMENSION", "BAD_TYPE", "BIPART_ONLY", "LEN_MISMATCH", "NOT_FOUND", "NEG_VALUES"];

fn code(name: &str) -> String {
    format!("{}({})", name, CODES.iter().position(|c| *c == name).unwrap())
}

/// The code coupe.h documents for a `coupe::Error`.
fn documented_code(variant: &str) -> &'static str {
    match variant {
        "NotFound" => "NOT_FOUND",           // "No partition matching the given constraints have been found."
        "InputLenMismatch" => "LEN_MISMATCH", // "Data sets passed to an algorithm don't have the same number of elements."
        "NegativeValues" => "NEG_VALUES",     // "Input contains negative values and such values are not supported."
        "BiPartitioningOnly" => "BIPART_ONLY", // "fed a partition with more than two parts"
        _ => "?",
    }
}

fn line(codename: &str, p: &[usize]) -> String {
    if p.is_empty() {
        format!("{} |", code(codename))
    } else {
        format!("{} | {}", code(codename), join(p))
    }
}

fn fm_cut(adj: &Adj, p: &[usize]) -> i64 {
    let mut cut = 0;
    for r in 0..adj.size {
        for k in adj.xadj[r]..adj.xadj[r + 1] {
            let j = adj.adjncy[k];
            if r < p.len() && j < p.len() && p[r] != p[j] {
                cut += adj.ints[k];
            }
        }
    }
    cut / 2
}

fn parse_c_ids(l: &str) -> Option<Vec<usize>> {
    let (_, ids) = l.split_once('|')?;
    ids.split_whitespace().map(|t| t.parse().ok()).collect()
}

fn op_init(op: &Op) -> &[usize] {
    match op {
        Op::Geo { init, .. } | Op::Hilbert { init, .. } | Op::Num { init, .. } | Op::Fm { init, .. } => init,
        Op::Strerror(_) => &[],
    }
}

/// What the property requires of the C result line `cl` of one call, from the Rust reference `r`
/// and the header text: (canonical out, verdict).
fn judge(ctx: &mut Ctx, op: &Op, r: &Ref, cl: &str) -> (String, Option<(&'static str, String)>) {
    // what the property requires of the C result, from the Rust reference and the header text
    let mut verdict: Option<(&'static str, String)> = None;
    let mut out = cl.to_string();
    let init: &[usize] = op_init(op);
    if cl.contains("OVERRUN") {
        verdict = Some(("ffi-overrun", "the library wrote past the end of the caller's array".into()));
    } else if cl == "bad-op" {
        verdict = Some(("driver-bad-op", "the C driver rejects an op the harness accepts".into()));
    } else if cl.contains("STRERROR_EMPTY") || cl.starts_with("UNKNOWN") {
        verdict = Some(("ffi-unknown-code", format!("code outside enum coupe_err or without message: {}", cl)));
    } else {
        match (op, r) {
            (Op::Strerror(c), _) => {
                let msg = cl.splitn(3, ' ').nth(2).unwrap_or("");
                if !cl.starts_with(&format!("strerror {} ", c)) || msg.is_empty() || msg == "<null>" {
                    verdict = Some(("ffi-strerror", format!("no message for code {}: {:?}", c, cl)));
                }
            }
            (_, Ref::Ok(p)) => {
                if cl != line("OK", p) {
                    // a zero `max_imbalance` is where coupe.h ("negative" = absent) and
                    // ffi/src/lib.rs (`<= 0.0` = absent) part: own signature
                    let sig = match &op {
                        Op::Fm { imb, .. } if *imb == 0.0 => "ffi-fm-zero-imbalance",
                        _ => "ffi-differs",
                    };
                    verdict = Some((sig, format!("C: {}  Rust: Ok {:?}", cl, p)));
                }
            }
            (Op::Fm { adj, .. }, Ref::OkTies(p)) => {
                // hash order may legitimately differ between the two processes: tie-invariant
                // observables only (code, ids in {0,1}, the cut does not get worse)
                ctx.count("fm_tie_possible_loose_compare");
                out = format!("{} ~ties", code("OK"));
                match parse_c_ids(&cl) {
                    Some(ids) if cl.starts_with(&code("OK")) && ids.len() == p.len() => {
                        if ids.iter().any(|&i| i > 1) {
                            verdict = Some(("ffi-fm-ids", format!("part id above 1: {}", cl)));
                        } else if fm_cut(adj, &ids) > fm_cut(adj, init) {
                            verdict = Some(("ffi-fm-cut", format!("cut got worse: {} -> {}", fm_cut(adj, init), fm_cut(adj, &ids))));
                        }
                    }
                    _ => verdict = Some(("ffi-differs", format!("C: {}  Rust: Ok (ties) {:?}", cl, p))),
                }
            }
            (_, Ref::Err(e, p)) => {
                if cl != line(documented_code(e), p) {
                    verdict = Some(("ffi-error-code", format!("C: {}  Rust: Err({}) with array {:?}; coupe.h documents {}", cl, e, p, documented_code(e))));
                }
            }
            (_, Ref::HilbertErr(p)) => {
                // coupe.h names no code for HilbertCurveError::InvalidOrder (and says "order must be
                // below 64" while the library accepts 0..=32): any error code but OK/CRASH is accepted,
                // the array must be what the Rust call left
                ctx.count("hilbert_invalid_order_undocumented_code");
                let okc = CODES.iter().any(|n| *n != "OK" && *n != "CRASH" && cl == line(n, p));
                if !okc {
                    verdict = Some(("ffi-error-code", format!("C: {}  Rust: Err(InvalidOrder), array {:?}", cl, p)));
                }
            }
            (_, Ref::Panic(m)) => {
                if cl != code("CRASH") {
                    verdict = Some(("ffi-panic-not-crash", format!("C: {}  Rust API panics: {}", cl, m)));
                }
            }
            (_, Ref::Hang) => verdict = Some(("hang", "the Rust API call hung".into())),
            (Op::Geo { pts, ws, .. }, Ref::Na) => {
                // "`dimension` must be 2 or 3"; if the lengths differ as well either code is documented
                let a = line("BAD_DIMENSION", init);
                let b = line("LEN_MISMATCH", init);
                if !(cl == a || (pts.len != ws.len && cl == b)) {
                    verdict = Some(("ffi-bad-dimension", format!("C: {}  expected {}", cl, a)));
                }
            }
            (Op::Hilbert { pts, ws, .. }, Ref::Na) => {
                let a = line("BAD_TYPE", init);
                let b = line("LEN_MISMATCH", init);
                if !(cl == a || (pts.len != ws.len && cl == b)) {
                    verdict = Some(("ffi-bad-type", format!("C: {}  expected {}", cl, a)));
                }
            }
            (Op::Fm { .. }, Ref::Na) => {
                if cl != line("BAD_TYPE", init) {
                    verdict = Some(("ffi-bad-type", format!("C: {}  expected {}", cl, line("BAD_TYPE", init))));
                }
            }
            (Op::Fm { adj, .. }, Ref::NullAdj) => {
                if adj.checked && cl != "NULL_ADJNCY" {
                    verdict = Some(("ffi-adjncy-check", format!("coupe_adjncy_csr accepted a structure sprs refuses: {}", cl)));
                }
            }
            (_, Ref::Na) | (_, Ref::NullAdj) | (_, Ref::OkTies(_)) => {
                verdict = Some(("harness-internal", format!("unexpected reference {:?}", r)));
            }
        }
        if cl == "NULL_ADJNCY" && *r != Ref::NullAdj {
            verdict = Some(("ffi-adjncy-check", "coupe_adjncy_csr refused a structure sprs accepts".into()));
        }
    }
    (out, verdict)
}

pub fn run_op(ctx: &mut Ctx, full_line: &str) {
    // `rel <op>`: the same op through the RELEASE build of the library (the one `ffi/Makefile`
    // installs); the reference stays the Rust API in this (dev-profile) process
    let (release, op_line) = match full_line.trim_start().strip_prefix("rel ") {
        Some(rest) => (true, rest),
        None => (false, full_line),
    };
    if let Some(rest) = op_line.trim_start().strip_prefix("reuse ") {
        if release {
            ctx.record(full_line.to_string(), "bad-op".into(), false);
            return;
        }
        return run_seq(ctx, full_line, rest);
    }
    let Some(op) = parse_op(op_line) else {
        ctx.record(full_line.to_string(), "bad-op".into(), false);
        return;
    };
    let bare = format_op(&op);
    let r = reference(&op);
    let prefix = if release { "rel " } else { "" };
    let recorded = match op {
        Op::Strerror(_) => format!("{}{}", prefix, bare),
        _ => format!("{}{} R {}", prefix, bare, ref_string(&r)),
    };
    let c = call_c(release, &bare);
    let lib = if release { "RELEASE library: " } else { "" };
    let cl = match c {
        CRes::Line(l) => l,
        CRes::Died(why) => {
            let idx = ctx.record(recorded, "child-died".into(), true);
            ctx.fail(idx, "ffi-abort", format!("{}the C driver process died during the call ({}) — Rust reference: {}", lib, why, ref_string(&r)));
            return;
        }
        CRes::Hang => {
            let idx = ctx.record(recorded, "child-hang".into(), true);
            ctx.fail(idx, "ffi-hang", "the C call did not return within the watchdog delay".into());
            return;
        }
        CRes::Build(m) => {
            let idx = ctx.record(recorded, "capi-build-failed".into(), true);
            ctx.fail(idx, "capi-build", m);
            return;
        }
    };
    ctx.count(&format!("{}code:{}", if release { "release:" } else { "" }, cl.split(|ch| ch == ' ' || ch == '(').next().unwrap_or("")));
    if release {
        if let Ref::Panic(m) = &r {
            // The dev-profile reference panics.  Without overflow checks and debug assertions the
            // release library may or may not (a wrapped sum is not a panic there), so the code is
            // not compared: what the property requires is that the caller SURVIVES the call.
            ctx.count(&format!("release_on_dev_panic:{}", if cl == code("CRASH") { "CRASH" } else { "other-code" }));
            let idx = ctx.record(recorded, "survived".into(), true);
            if cl.contains("OVERRUN") {
                ctx.fail(idx, "ffi-overrun", format!("{}wrote past the end of the caller's array (dev reference panics: {})", lib, m));
            } else if cl == "bad-op" {
                ctx.fail(idx, "driver-bad-op", "the C driver rejects an op the harness accepts".into());
            }
            return;
        }
    }
    ctx.count(&format!(
        "ref:{}",
        match &r {
            Ref::Panic(m) => panic_sig(m),
            Ref::Err(e, _) => format!("err {}", e),
            other => ref_string(other).split(' ').next().unwrap_or("").to_string(),
        }
    ));

    let (out, verdict) = judge(ctx, &op, &r, &cl);
    let elem_count = op_init(&op).len();
    let nontrivial = !matches!(op, Op::Strerror(_)) && (elem_count >= 2 || !cl.starts_with("OK("));
    let idx = ctx.record(recorded, out, nontrivial);
    if let Some((sig, what)) = verdict {
        ctx.fail(idx, sig, what);
    }
}

/// `reuse <op> ;; <op> …` — handle reuse across calls with changed data (see the module doc).
fn run_seq(ctx: &mut Ctx, full_line: &str, rest: &str) {
    let ops: Option<Vec<Op>> = rest.split(";;").map(parse_op).collect();
    let ops = match ops {
        Some(v) if v.len() >= 2 && v.len() <= 8 && !v.iter().any(|o| matches!(o, Op::Strerror(_))) => v,
        _ => {
            ctx.record(full_line.to_string(), "bad-op".into(), false);
            return;
        }
    };
    // the reference of every step: the Rust API on the values current at the time of that call
    let refs: Vec<Ref> = ops.iter().map(reference).collect();
    let bare = format!("reuse {}", ops.iter().map(format_op).collect::<Vec<_>>().join(" ;; "));
    let recorded = format!(
        "reuse {}",
        ops.iter().zip(&refs).map(|(o, r)| format!("{} R {}", format_op(o), ref_string(r))).collect::<Vec<_>>().join(" ;; ")
    );
    let cl = match call_c(false, &bare) {
        CRes::Line(l) => l,
        CRes::Died(why) => {
            let idx = ctx.record(recorded, "child-died".into(), true);
            ctx.fail(idx, "ffi-abort", format!("the C driver process died during a sequence of calls on reused handles ({})", why));
            return;
        }
        CRes::Hang => {
            let idx = ctx.record(recorded, "child-hang".into(), true);
            ctx.fail(idx, "ffi-hang", "a C call of the sequence did not return within the watchdog delay".into());
            return;
        }
        CRes::Build(m) => {
            let idx = ctx.record(recorded, "capi-build-failed".into(), true);
            ctx.fail(idx, "capi-build", m);
            return;
        }
    };
    let parts: Vec<&str> = cl.split(" ;; ").collect();
    if parts.len() != ops.len() {
        let idx = ctx.record(recorded, cl.clone(), true);
        ctx.fail(idx, "driver-bad-op", format!("the C driver answered {} lines to {} steps: {}", parts.len(), ops.len(), cl));
        return;
    }
    let mut outs: Vec<String> = vec![];
    let mut first: Option<(usize, &'static str, String)> = None;
    for (i, ((op, r), l)) in ops.iter().zip(&refs).zip(&parts).enumerate() {
        ctx.count(&format!("reuse:code:{}", l.split(|ch| ch == ' ' || ch == '(').next().unwrap_or("")));
        let (out, v) = judge(ctx, op, r, l);
        outs.push(out);
        if first.is_none() {
            if let Some((sig, what)) = v {
                first = Some((i, sig, what));
            }
        }
    }
    let idx = ctx.record(recorded, outs.join(" ;; "), true);
    if let Some((i, mut sig, mut what)) = first {
        if i > 0 {
            // the same call alone, through fresh handles: if that one agrees with the Rust API the
            // cause is the reuse of the handle (stale values), not the call
            if let CRes::Line(alone) = call_c(false, &format_op(&ops[i])) {
                if judge(ctx, &ops[i], &refs[i], &alone).1.is_none() {
                    sig = "ffi-handle-reuse";
                    what = format!(
                        "a reused coupe_data handle did not deliver the values current at the call (the same call through fresh handles agrees with the Rust API: {}) — {}",
                        alone, what
                    );
                }
            }
        }
        ctx.fail(idx, sig, format!("step {} of {}: {}", i + 1, ops.len(), what));
    }
}

// --------------------------------------------------------------- generator

fn bits(x: f64) -> u64 {
    x.to_bits()
}

/// Weight data set of logical length `len`. `shape`: 0 small ints, 1 wider, 2 ones.
fn gen_weights(rng: &mut Rng, repr: Repr, ty: Ty, len: usize, hi: i64) -> DataSet {
    let k = if repr == Repr::Const { 1 } else { len };
    let vals: Vec<i64> = (0..k).map(|_| rng.range(1, hi)).collect();
    mk_weights(repr, ty, len, vals)
}

fn mk_weights(repr: Repr, ty: Ty, len: usize, vals: Vec<i64>) -> DataSet {
    if ty == Ty::F64 {
        // integer-valued doubles: every partial sum is exact, so the order in which rayon
        // reduces them cannot change a result
        DataSet { repr, ty, arity: 1, len, ints: vec![], bits: vals.iter().map(|&v| bits(v as f64)).collect() }
    } else {
        DataSet { repr, ty, arity: 1, len, ints: vals, bits: vec![] }
    }
}

/// Point data set: integer coordinates that are multiples of `len` (so the centroid and the
/// inertia matrix Rib/Hilbert compute with parallel float sums are exact).
fn gen_points(rng: &mut Rng, repr: Repr, arity: usize, len: usize, spread: i64) -> DataSet {
    let k = if repr == Repr::Const { arity } else { len * arity };
    let m = len.max(1) as i64;
    let mut vals: Vec<u64> = Vec::with_capacity(k);
    for _ in 0..k {
        vals.push(bits((rng.range(-spread, spread) * m) as f64));
    }
    DataSet { repr, ty: Ty::F64, arity, len, ints: vec![], bits: vals }
}

const LEN_SHAPES: [&str; 4] = ["equal", "shorter", "longer", "empty"];

/// (points len, weights len)
fn lens(rng: &mut Rng, shape: &str, max: usize) -> (usize, usize) {
    let n = 2 + rng.usize(max - 1);
    match shape {
        "equal" => (n, n),
        "shorter" => (n, rng.usize(n)),
        "longer" => (n, n + 1 + rng.usize(3)),
        _ => (0, 0),
    }
}

fn tol_pick(rng: &mut Rng) -> f64 {
    *rng.pick(&[0.0, 0.05, 0.1, 0.5, 1.0])
}

fn emit(ctx: &mut Ctx, op: Op) {
    let s = format_op(&op);
    run_op(ctx, &s);
}

fn gen_fm(rng: &mut Rng, n: usize, wrepr: Repr, wty: Ty, aty: Ty, family: usize, symmetric: bool) -> Op {
    // random simple graph, symmetric, sorted rows
    let mut w = vec![vec![0i64; n]; n];
    let density = 2 + rng.usize(3);
    for i in 0..n {
        for j in (i + 1)..n {
            if rng.usize(6) < density {
                let x = rng.range(1, 5);
                w[i][j] = x;
                w[j][i] = if symmetric { x } else { x + rng.range(0, 1) * (1 + rng.range(0, 2)) };
            }
        }
    }
    let mut xadj = vec![0usize];
    let mut adjncy = vec![];
    let mut data = vec![];
    for i in 0..n {
        for j in 0..n {
            if w[i][j] != 0 {
                adjncy.push(j);
                data.push(w[i][j]);
            }
        }
        xadj.push(adjncy.len());
    }
    // vertex weights
    let vals: Vec<i64> = match family {
        // tie-free: distinct powers of two, shuffled
        0 => {
            let mut v: Vec<i64> = (0..n).map(|i| 1i64 << i).collect();
            rng.shuffle(&mut v);
            v
        }
        // tie-free and nearly uniform: B + 2^i
        1 => {
            let b = 1i64 << (n + 1);
            let mut v: Vec<i64> = (0..n).map(|i| b + (1i64 << i)).collect();
            rng.shuffle(&mut v);
            v
        }
        // ties possible: small weights
        _ => (0..n).map(|_| rng.range(1, 3)).collect(),
    };
    let ws = if wrepr == Repr::Const { mk_weights(wrepr, wty, n, vec![rng.range(1, 4)]) } else { mk_weights(wrepr, wty, n, vals) };
    let init: Vec<usize> = (0..n).map(|_| rng.usize(2)).collect();
    let imb = *rng.pick(&[-1.0, -0.5, 0.0, 0.05, 0.1, 0.25, 0.5, 1.0, 3.0]);
    let (ints, fbits) = if aty == Ty::F64 { (vec![], data.iter().map(|&v| bits(v as f64)).collect()) } else { (data, vec![]) };
    Op::Fm {
        max_passes: *rng.pick(&[0usize, 1, 2, 5]),
        max_moves: *rng.pick(&[0usize, 0, 1, 3, 50]),
        imb,
        max_bad: *rng.pick(&[0usize, 1, 2, 5]),
        adj: Adj { checked: rng.chance(3, 4), ty: aty, size: n, xadj, adjncy, ints, bits: fbits },
        ws,
        init,
    }
}

pub fn generate(ctx: &mut Ctx) {
    // strerror on every code of the enum
    for c in 0..9 {
        emit(ctx, Op::Strerror(c));
    }

    // ---- 1. the full configuration grid, one (quick) or several (thorough) instances per cell
    let reps = ctx.budget(1, 3);
    let maxn = ctx.budget(9, 24);
    for _ in 0..reps {
        for name in ["rcb", "rib"] {
            for &prepr in &REPRS {
                for &wrepr in &REPRS {
                    for &wty in &TYS {
                        for dim in 0..=4usize {
                            for shape in LEN_SHAPES {
                                let (pl, wl) = lens(&mut ctx.rng, shape, maxn);
                                let arity = if dim == 0 { 1 } else { dim };
                                let pts = gen_points(&mut ctx.rng, prepr, arity, pl, 20);
                                let ws = gen_weights(&mut ctx.rng, wrepr, wty, wl, 9);
                                let op = Op::Geo {
                                    name,
                                    dim,
                                    iter: 1 + ctx.rng.usize(3),
                                    tol: tol_pick(&mut ctx.rng),
                                    pts,
                                    ws,
                                    init: vec![7; pl],
                                };
                                ctx.count(&format!("grid:{}:dim{}:{}", name, dim, shape));
                                emit(ctx, op);
                            }
                        }
                    }
                }
            }
        }
        for &prepr in &REPRS {
            for &wrepr in &REPRS {
                for &wty in &TYS {
                    for shape in LEN_SHAPES {
                        let (pl, wl) = lens(&mut ctx.rng, shape, maxn);
                        let pts = gen_points(&mut ctx.rng, prepr, 2, pl, 20);
                        let ws = gen_weights(&mut ctx.rng, wrepr, wty, wl, 9);
                        let op = Op::Hilbert {
                            parts: 1 + ctx.rng.usize(4),
                            order: *ctx.rng.pick(&[1u32, 4, 12, 31, 32]),
                            pts,
                            ws,
                            init: vec![7; pl],
                        };
                        ctx.count(&format!("grid:hilbert:{}:{}", wty.s(), shape));
                        emit(ctx, op);
                    }
                }
            }
        }
        for name in ["greedy", "kk", "ckk"] {
            for &wrepr in &REPRS {
                for &wty in &TYS {
                    for n in [0usize, 1, 2, 3, 5, 8, 11] {
                        let hi = if ctx.rng.chance(1, 2) { 9 } else { 1000 };
                        let ws = gen_weights(&mut ctx.rng, wrepr, wty, n, hi);
                        let op = Op::Num {
                            name,
                            parts: *ctx.rng.pick(&[0usize, 1, 2, 2, 3, 4, 7]),
                            tol: tol_pick(&mut ctx.rng),
                            ws,
                            init: vec![7; n],
                        };
                        ctx.count(&format!("grid:{}:{}:{}", name, wrepr.s(), wty.s()));
                        emit(ctx, op);
                    }
                }
            }
        }
        for &wrepr in &REPRS {
            for &wty in &TYS {
                for &aty in &TYS {
                    for family in 0..3 {
                        let n = 3 + ctx.rng.usize(ctx.budget(7, 10));
                        let op = gen_fm(&mut ctx.rng, n, wrepr, wty, aty, family, true);
                        ctx.count(&format!("grid:fm:adj-{}:family{}", aty.s(), family));
                        emit(ctx, op);
                    }
                }
            }
        }
    }
    ctx.notes.push(format!(
        "exhaustive configuration grid x{}: rcb/rib {{3 point repr}} x {{3 weight repr}} x {{3 weight types}} x dimension 0..4 x {{equal, shorter, longer, empty}}; hilbert 3x3x3x4; greedy/kk/ckk 3 repr x 3 types x 7 lengths; fm 3 repr x 3 weight types x 3 adjacency types x 3 weight families",
        reps
    ));

    // ---- 2. random valid cases, larger
    for _ in 0..ctx.budget(150, 2500) {
        let op = gen_valid(ctx);
        ctx.count("random_valid");
        emit(ctx, op);
    }
    gen_errors(ctx);

    // ---- 4. inputs that make the library panic (or are suspected to)
    for _ in 0..ctx.budget(60, 600) {
        let (kind, op) = gen_panic(ctx);
        ctx.count(&format!("panic_stream:kind{}", kind));
        emit(ctx, op);
    }

    // ---- 5. the RELEASE library (what `ffi/Makefile` builds and installs): the panic stream and a
    // sample of ordinary cases through a second C process linked with target/release/libcoupe.so
    for _ in 0..ctx.budget(150, 900) {
        let (kind, op) = gen_panic(ctx);
        if kind == 7 {
            // an asymmetric matrix is not an adjacency structure (outside the contract); the dev
            // build stops on a debug assertion, the release build has none and FiducciaMattheyses
            // need not terminate on such input — not a statement about panics, left out here
            ctx.count("release:panic_stream:kind7_skipped_out_of_contract");
            continue;
        }
        ctx.count(&format!("release:panic_stream:kind{}", kind));
        emit_rel(ctx, op);
    }
    for _ in 0..ctx.budget(80, 600) {
        let op = gen_valid(ctx);
        ctx.count("release:random_valid");
        emit_rel(ctx, op);
    }
    for c in 0..9 {
        emit_rel(ctx, Op::Strerror(c));
    }

    // ---- 6. special floating-point values of every f64 parameter; 7. handle reuse
    gen_fparams(ctx);
    gen_reuses(ctx);
    ctx.notes.push("release library: the dev-profile Rust API stays the reference; where it panics the release result is only required to come back (recorded as `survived`; overflow checks and debug assertions are off there), elsewhere code and array are compared exactly".into());
    ctx.notes.push("FiducciaMattheyses: ids are compared exactly only on inputs whose vertex weights rule out ties (distinct powers of two, or B+2^i); on the others (hash-set iteration order is per-process random) only the code, ids in {0,1} and cut <= initial cut are compared — counted as fm_tie_possible_loose_compare".into());
    ctx.notes.push("f64 weights are integer-valued and point coordinates are integer multiples of the point count, so that rayon's reduction order cannot change a float sum (the comparison is between two processes)".into());
}

// ------------------------------ special floating-point values of the f64 parameters

/// The f64 parameters of the C entry points: `tolerance` of coupe_rcb / coupe_rib /
/// coupe_karmarkar_karp_complete (handed to the Rust struct as they are) and `max_imbalance` of
/// coupe_fiduccia_mattheyses (coupe.h: negative = the imbalance of the input partition).
const FPARAM_ENTRIES: [&str; 4] = ["rcb", "rib", "ckk", "fm"];

/// Signed zeros, subnormals, the smallest normals, infinities, quiet/signalling NaNs of both
/// signs, values that vanish next to 1, values that change when squeezed through an f32
/// (underflow, subnormal, rounding, overflow), the ends of the range — each with both signs.
fn special_values() -> Vec<f64> {
    let mut v: Vec<u64> = vec![
        0x8000_0000_0000_0000,
        0,
        1,
        0x8000_0000_0000_0001,
        0x000f_ffff_ffff_ffff,
        0x800f_ffff_ffff_ffff,
        0x0010_0000_0000_0000,
        0x8010_0000_0000_0000,
        0x7ff0_0000_0000_0000,
        0xfff0_0000_0000_0000,
        0x7ff8_0000_0000_0000,
        0xfff8_0000_0000_0000,
        0x7ff0_0000_0000_0001,
        0xfff0_0000_0000_0001,
    ];
    for x in [1e-300, 1e-50, 1e-40, 1e-17, f64::EPSILON, 0.1, 0.5, 1.0 - f64::EPSILON / 2.0, 1.0, 1.0 + f64::EPSILON, 2.0, 1e39, f64::MAX] {
        v.push(x.to_bits());
        v.push((-x).to_bits());
    }
    v.into_iter().map(f64::from_bits).collect()
}

/// A random member of a random special class, random sign.
fn rand_special(rng: &mut Rng) -> f64 {
    let m52 = (1u64 << 52) - 1;
    let mag: u64 = match rng.usize(10) {
        0 => 0,
        1 => 1 + rng.below(m52),                                      // subnormal
        2 => ((1 + rng.below(300)) << 52) | (rng.next() & m52),       // tiny normal
        3 => ((1023 - 70 + rng.below(70)) << 52) | (rng.next() & m52), // 2^-70 .. 1
        4 => (1023u64 << 52) | rng.below(4),                          // 1 and a few ulps above
        5 => (1022u64 << 52) | (m52 - rng.below(4)),                  // a few ulps below 1
        6 => ((1023 + rng.below(8)) << 52) | (rng.next() & m52),      // 1 .. 256
        7 => ((2046 - rng.below(300)) << 52) | (rng.next() & m52),    // huge
        8 => 0x7ffu64 << 52,                                          // infinity
        _ => (0x7ffu64 << 52) | (1 + rng.below(m52)),                 // NaN, random payload
    };
    f64::from_bits(mag | if rng.chance(1, 2) { 1u64 << 63 } else { 0 })
}

fn fclass(v: f64) -> String {
    let sign = if v.is_sign_negative() { "-" } else { "+" };
    let c = if v.is_nan() {
        "nan"
    } else if v.is_infinite() {
        "inf"
    } else if v == 0.0 {
        "zero"
    } else if v.abs() < f64::MIN_POSITIVE {
        "subnormal"
    } else if v.abs() < 1e-12 {
        "tiny"
    } else if v.abs() > 1e30 {
        "huge"
    } else {
        "ordinary"
    };
    format!("{}{}", sign, c)
}

/// Values a careless translation at the C boundary could turn `v` into (sign dropped or tested by
/// its bit, clamped, defaulted, squeezed through an f32, "unset", …) — used to look for inputs on
/// which such a mistake would SHOW, never to judge.
fn confusions(v: f64) -> Vec<f64> {
    let cand = [
        -v,
        v.abs(),
        0.0,
        v.max(0.0),
        v.min(1.0),
        (v as f32) as f64,
        0.05,
        -1.0,
        1.0,
        f64::INFINITY,
        f64::NAN,
        f64::MIN_POSITIVE,
        -f64::MIN_POSITIVE,
    ];
    let mut out: Vec<f64> = vec![];
    for c in cand {
        if c.to_bits() != v.to_bits() && !out.iter().any(|o| o.to_bits() == c.to_bits()) {
            out.push(c);
        }
    }
    out
}

fn param_of(op: &Op) -> f64 {
    match op {
        Op::Geo { tol, .. } | Op::Num { tol, .. } => *tol,
        Op::Fm { imb, .. } => *imb,
        _ => 0.0,
    }
}

fn with_param(op: &Op, a: f64) -> Op {
    let mut o = op.clone();
    match &mut o {
        Op::Geo { tol, .. } | Op::Num { tol, .. } => *tol = a,
        Op::Fm { imb, .. } => *imb = a,
        _ => {}
    }
    o
}

/// On how many of the plausible mis-translations of its f64 parameter the Rust API would answer
/// differently from the documented translation (0 = the input cannot tell them apart).
fn sensitivity(op: &Op) -> usize {
    let v = param_of(op);
    let base = reference(op);
    if matches!(base, Ref::Hang) {
        return 0;
    }
    let mut n = 0;
    if let Op::Fm { .. } = op {
        let key = |t: Option<f64>| t.map(|x| x.to_bits());
        let doc = fm_documented(v);
        let mut alts: Vec<Option<f64>> = vec![None, Some(v)];
        for a in confusions(v) {
            alts.push(Some(a));
        }
        let mut seen: Vec<Option<u64>> = vec![key(doc)];
        for t in alts {
            if seen.contains(&key(t)) {
                continue;
            }
            seen.push(key(t));
            FM_TRANSLATION.with(|c| c.set(Some(t)));
            let r = reference(op);
            FM_TRANSLATION.with(|c| c.set(None));
            if r != base {
                n += 1;
            }
        }
    } else {
        for a in confusions(v) {
            if reference(&with_param(op, a)) != base {
                n += 1;
            }
        }
    }
    n
}

/// One small instance of entry point `entry` (index into FPARAM_ENTRIES) with the f64 parameter `v`.
fn fparam_instance(ctx: &mut Ctx, entry: usize, v: f64, wty: Ty) -> Op {
    let rng = &mut ctx.rng;
    let wrepr = *rng.pick(&[Repr::Arr, Repr::Fn, Repr::Arr, Repr::Fn, Repr::Const]);
    let prepr = *rng.pick(&REPRS);
    match entry {
        0 | 1 => {
            let dim = 2 + rng.usize(2);
            let n = 3 + rng.usize(10);
            Op::Geo {
                name: if entry == 0 { "rcb" } else { "rib" },
                dim,
                iter: 1 + rng.usize(3),
                tol: v,
                pts: gen_points(rng, prepr, dim, n, 30),
                ws: gen_weights(rng, wrepr, wty, n, 9),
                init: vec![7; n],
            }
        }
        2 => {
            let n = 2 + rng.usize(8);
            let hi = *rng.pick(&[4i64, 12, 60]);
            Op::Num { name: "ckk", parts: 0, tol: v, ws: gen_weights(rng, wrepr, wty, n, hi), init: vec![7; n] }
        }
        _ => {
            // tie-free vertex weights only: the ids are compared exactly
            let n = 3 + rng.usize(6);
            let family = rng.usize(2);
            let mut op = gen_fm(rng, n, if wrepr == Repr::Const { Repr::Fn } else { wrepr }, wty, Ty::I64, family, true);
            if let Op::Fm { imb, adj, .. } = &mut op {
                *imb = v;
                adj.checked = true;
            }
            op
        }
    }
}

/// Emits one op of the special-value stream: among a few random instances the one on which most
/// mis-translations of `v` would change the answer of the Rust API.
fn fparam_emit(ctx: &mut Ctx, entry: usize, v: f64, wty: Ty, rel: bool) {
    if entry == 3 && v.is_nan() && v.is_sign_negative() {
        // "negative" NaN: coupe.h does not say whether a NaN with the sign bit set is negative —
        // outside the documented contract, counted and not run
        ctx.count("fparam:fm:sign-bit-nan_not_emitted_undocumented");
        return;
    }
    let tries = ctx.budget(4, 6);
    let mut best: Option<(usize, Op)> = None;
    for _ in 0..tries {
        let op = fparam_instance(ctx, entry, v, wty);
        let s = sensitivity(&op);
        if best.as_ref().map_or(true, |(b, _)| s > *b) {
            best = Some((s, op));
        }
        if s >= 3 {
            break;
        }
    }
    let (s, op) = best.unwrap();
    ctx.count(&format!(
        "fparam:{}{}:{}",
        if rel { "release:" } else { "" },
        FPARAM_ENTRIES[entry],
        if s > 0 { "value-sensitive-input" } else { "value-insensitive-input" }
    ));
    ctx.count(&format!("fparam:class:{}", fclass(v)));
    if rel {
        emit_rel(ctx, op);
    } else {
        emit(ctx, op);
    }
}

fn gen_fparams(ctx: &mut Ctx) {
    // systematic: every entry point with an f64 parameter x every special value x every weight
    // type (twice in the thorough tier)
    let specials = special_values();
    for _ in 0..ctx.budget(1, 2) {
        for entry in 0..FPARAM_ENTRIES.len() {
            for &v in &specials {
                for &wty in &TYS {
                    fparam_emit(ctx, entry, v, wty, false);
                }
            }
        }
    }
    // randomised members of the same classes
    for _ in 0..ctx.budget(80, 2000) {
        let v = rand_special(&mut ctx.rng);
        let entry = ctx.rng.usize(FPARAM_ENTRIES.len());
        let wty = *ctx.rng.pick(&TYS);
        fparam_emit(ctx, entry, v, wty, false);
    }
    // a sample through the release library
    for _ in 0..ctx.budget(40, 400) {
        let v = if ctx.rng.chance(2, 3) { *ctx.rng.pick(&specials) } else { rand_special(&mut ctx.rng) };
        let entry = ctx.rng.usize(FPARAM_ENTRIES.len());
        let wty = *ctx.rng.pick(&TYS);
        fparam_emit(ctx, entry, v, wty, true);
    }
    ctx.notes.push(format!(
        "special f64 parameter values: tolerance of rcb/rib/ckk and max_imbalance of fm at {} systematic values (signed zeros, smallest/largest subnormals, smallest normals, +-inf, quiet/signalling NaNs of both signs, 1e-300, 1e-17, epsilon, values that change through an f32, 1 +- ulp, f64::MAX; both signs) plus randomised members of the same classes; reference = the Rust API on the documented translation (tolerance as is; max_imbalance < 0 -> None, so -0.0 and NaN are Some); inputs are picked among a few random instances for being able to tell the documented translation from plausible wrong ones (counted value-sensitive-input / value-insensitive-input); FiducciaMattheyses instances there are tie-free so that ids are compared exactly; a NaN max_imbalance with the sign bit set is not emitted (undocumented)",
        specials.len()
    ));
}

// ------------------------------------------------ handle reuse across calls

fn pin_const(d: &mut DataSet, slot: &mut Option<DataSet>) {
    if d.repr == Repr::Const {
        match slot {
            Some(c) if c.ty == d.ty && c.arity == d.arity && c.len == d.len => *d = c.clone(),
            _ => *slot = Some(d.clone()),
        }
    }
}

/// A sequence of 2–4 calls whose data sets have the same shapes, so that the C driver passes the
/// SAME coupe_data handles again after overwriting the values behind them (array and callback
/// data change between the calls; a constant keeps its value: coupe.h says it is "copied" without
/// saying when).
fn gen_reuse(ctx: &mut Ctx) -> Vec<Op> {
    let rng = &mut ctx.rng;
    let steps = 2 + rng.usize(3);
    let dim = 2 + rng.usize(2);
    let wty = if rng.chance(1, 2) { Ty::F64 } else { *rng.pick(&TYS) };
    let wrepr = *rng.pick(&[Repr::Fn, Repr::Fn, Repr::Fn, Repr::Arr, Repr::Const]);
    let prepr = *rng.pick(&[Repr::Fn, Repr::Fn, Repr::Fn, Repr::Arr, Repr::Const]);
    let n = 4 + rng.usize(12);
    let mut entries: Vec<&'static str> = vec!["rib", "rib", "rcb", "fm", "fm", "greedy", "kk", "ckk"];
    if wty == Ty::F64 && dim == 2 {
        entries.extend(["hilbert", "hilbert", "hilbert", "hilbert"]);
    }
    let same = rng.chance(1, 2);
    let first = *rng.pick(&entries);
    let mut const_w: Option<DataSet> = None;
    let mut const_p: Option<DataSet> = None;
    let mut ops = vec![];
    for k in 0..steps {
        let e = if same || k == 0 { first } else { *rng.pick(&entries) };
        let mut ws = gen_weights(rng, wrepr, wty, n, 40);
        pin_const(&mut ws, &mut const_w);
        let mut pts = gen_points(rng, prepr, dim, n, 30);
        pin_const(&mut pts, &mut const_p);
        let op = match e {
            "rcb" | "rib" => Op::Geo { name: if e == "rcb" { "rcb" } else { "rib" }, dim, iter: 1 + rng.usize(3), tol: tol_pick(rng), pts, ws, init: vec![7; n] },
            "hilbert" => Op::Hilbert { parts: 2 + rng.usize(3), order: *rng.pick(&[4u32, 8, 16]), pts, ws, init: vec![7; n] },
            "greedy" => Op::Num { name: "greedy", parts: 2 + rng.usize(3), tol: 0.0, ws, init: vec![7; n] },
            "kk" => Op::Num { name: "kk", parts: 2 + rng.usize(3), tol: 0.0, ws, init: vec![7; n] },
            "ckk" => Op::Num { name: "ckk", parts: 0, tol: *rng.pick(&[0.1, 0.5]), ws, init: vec![7; n] },
            _ => {
                let family = rng.usize(2);
                let mut op = gen_fm(rng, n, wrepr, wty, Ty::I64, family, true);
                if let Op::Fm { ws, adj, .. } = &mut op {
                    adj.checked = true;
                    pin_const(ws, &mut const_w);
                }
                op
            }
        };
        ops.push(op);
    }
    ops
}

fn gen_reuses(ctx: &mut Ctx) {
    for _ in 0..ctx.budget(120, 1500) {
        let ops = gen_reuse(ctx);
        let names: Vec<&str> = ops
            .iter()
            .map(|o| match o {
                Op::Geo { name, .. } | Op::Num { name, .. } => *name,
                Op::Hilbert { .. } => "hilbert",
                Op::Fm { .. } => "fm",
                Op::Strerror(_) => "strerror",
            })
            .collect();
        ctx.count(&format!("reuse:steps{}", ops.len()));
        ctx.count(&format!("reuse:first:{}", names[0]));
        if names.iter().any(|n| *n != names[0]) {
            ctx.count("reuse:mixed_entry_points");
        }
        let s = format!("reuse {}", ops.iter().map(format_op).collect::<Vec<_>>().join(" ;; "));
        run_op(ctx, &s);
    }
    ctx.notes.push("handle reuse: sequences of 2-4 calls (one entry point repeated, or a mix of the seven) executed by the C driver on the SAME coupe_data handles — between the calls the memory behind an array handle and the values a callback returns are overwritten (a constant keeps its value), each call is compared with the Rust API on the values current at that call; a step that fails in the sequence but agrees through fresh handles is reported as ffi-handle-reuse".into());
}

fn emit_rel(ctx: &mut Ctx, op: Op) {
    let s = format!("rel {}", format_op(&op));
    run_op(ctx, &s);
}

/// One larger random valid case.
fn gen_valid(ctx: &mut Ctx) -> Op {
    let big = ctx.budget(40, 300);
    {
        let wrepr = *ctx.rng.pick(&REPRS);
        let prepr = *ctx.rng.pick(&[Repr::Arr, Repr::Arr, Repr::Fn, Repr::Fn, Repr::Const]);
        let wty = *ctx.rng.pick(&TYS);
        let n = 2 + ctx.rng.usize(big);
        let op = match ctx.rng.usize(7) {
            0 | 1 => {
                let dim = 2 + ctx.rng.usize(2);
                Op::Geo {
                    name: if ctx.rng.chance(1, 2) { "rcb" } else { "rib" },
                    dim,
                    iter: ctx.rng.usize(5),
                    tol: tol_pick(&mut ctx.rng),
                    pts: gen_points(&mut ctx.rng, prepr, dim, n, 1000),
                    ws: gen_weights(&mut ctx.rng, wrepr, wty, n, 50),
                    init: vec![0; n],
                }
            }
            2 => Op::Hilbert {
                parts: 1 + ctx.rng.usize(6),
                order: 1 + ctx.rng.usize(32) as u32,
                pts: gen_points(&mut ctx.rng, prepr, 2, n, 1000),
                ws: gen_weights(&mut ctx.rng, wrepr, Ty::F64, n, 50),
                init: vec![0; n],
            },
            3 => Op::Num { name: "greedy", parts: ctx.rng.usize(9), tol: 0.0, ws: gen_weights(&mut ctx.rng, wrepr, wty, n, 100_000), init: vec![3; n] },
            4 => Op::Num { name: "kk", parts: ctx.rng.usize(6), tol: 0.0, ws: gen_weights(&mut ctx.rng, wrepr, wty, n, 100_000), init: vec![3; n] },
            5 => {
                let n = 2 + ctx.rng.usize(11);
                Op::Num { name: "ckk", parts: 0, tol: tol_pick(&mut ctx.rng), ws: gen_weights(&mut ctx.rng, wrepr, wty, n, 60), init: vec![3; n] }
            }
            _ => {
                let n = 3 + ctx.rng.usize(ctx.budget(12, 25));
                let family = ctx.rng.usize(3);
                let wty = if family == 1 && n > 14 { Ty::I64 } else { wty };
                gen_fm(&mut ctx.rng, n, if wrepr == Repr::Const { Repr::Fn } else { wrepr }, wty, Ty::I64, family, true)
            }
        };
        op
    }
}

/// ---- 3. errors the Rust API reports, and the C prologues
fn gen_errors(ctx: &mut Ctx) {
    for _ in 0..ctx.budget(40, 400) {
        let wrepr = *ctx.rng.pick(&REPRS);
        let wty = *ctx.rng.pick(&TYS);
        let op = match ctx.rng.usize(5) {
            // NotFound: odd total, tolerance 0
            0 => {
                let n = 2 + ctx.rng.usize(8);
                let mut v: Vec<i64> = (0..n).map(|_| 2 * ctx.rng.range(1, 20)).collect();
                v[0] += 1;
                let repr = if wrepr == Repr::Const { Repr::Arr } else { wrepr };
                Op::Num { name: "ckk", parts: 0, tol: 0.0, ws: mk_weights(repr, wty, n, v), init: vec![5; n] }
            }
            // InvalidOrder
            1 => {
                let n = 1 + ctx.rng.usize(6);
                let prepr = *ctx.rng.pick(&REPRS);
                Op::Hilbert {
                    parts: 2,
                    order: *ctx.rng.pick(&[33u32, 40, 63, 64, 100, u32::MAX]),
                    pts: gen_points(&mut ctx.rng, prepr, 2, n, 20),
                    ws: gen_weights(&mut ctx.rng, wrepr, Ty::F64, n, 9),
                    init: vec![5; n],
                }
            }
            // BiPartitioningOnly
            2 => {
                let n = 3 + ctx.rng.usize(6);
                let mut op = gen_fm(&mut ctx.rng, n, wrepr, wty, Ty::I64, 0, true);
                if let Op::Fm { init, .. } = &mut op {
                    let k = ctx.rng.usize(n);
                    init[k] = 2 + ctx.rng.usize(3);
                }
                op
            }
            // adjacency size != number of weights
            3 => {
                let n = 3 + ctx.rng.usize(6);
                let mut op = gen_fm(&mut ctx.rng, n, wrepr, wty, Ty::I64, 0, true);
                if let Op::Fm { ws, init, .. } = &mut op {
                    let m = if ctx.rng.chance(1, 3) { 0 } else if ctx.rng.chance(1, 2) { n - 1 - ctx.rng.usize(2) } else { n + 1 + ctx.rng.usize(2) };
                    *ws = gen_weights(&mut ctx.rng, wrepr, wty, m, 9);
                    *init = (0..m).map(|_| ctx.rng.usize(2)).collect();
                }
                op
            }
            // structures `coupe_adjncy_csr` must refuse (unsorted row, index out of range, offsets not monotone)
            _ => {
                let n = 3 + ctx.rng.usize(5);
                let aty = *ctx.rng.pick(&TYS);
                let mut op = gen_fm(&mut ctx.rng, n, wrepr, wty, aty, 0, true);
                if let Op::Fm { adj, .. } = &mut op {
                    adj.checked = true;
                    if !adj.adjncy.is_empty() {
                        match ctx.rng.usize(3) {
                            0 => {
                                let k = ctx.rng.usize(adj.adjncy.len());
                                adj.adjncy[k] = n + ctx.rng.usize(3);
                            }
                            1 => adj.adjncy.reverse(),
                            _ => {
                                if n >= 2 {
                                    adj.xadj.swap(1, n - 1);
                                }
                            }
                        }
                    }
                }
                op
            }
        };
        ctx.count("error_stream");
        emit(ctx, op);
    }
}

/// One input that makes the library panic (or is suspected to); returns its kind.
fn gen_panic(ctx: &mut Ctx) -> (usize, Op) {
    {
        let wrepr = *ctx.rng.pick(&REPRS);
        let prepr = *ctx.rng.pick(&REPRS);
        let n = 2 + ctx.rng.usize(8);
        let nan = f64::NAN;
        let kind = ctx.rng.usize(11);
        let op = match kind {
            // a part count whose table cannot be allocated ("capacity overflow" is a panic, not an abort)
            10 => {
                let wty = *ctx.rng.pick(&TYS);
                Op::Num { name: "greedy", parts: usize::MAX, tol: 0.0, ws: gen_weights(&mut ctx.rng, wrepr, wty, n, 9), init: vec![1; n] }
            }
            // Hilbert with zero parts
            0 => Op::Hilbert { parts: 0, order: 4, pts: gen_points(&mut ctx.rng, prepr, 2, n, 20), ws: gen_weights(&mut ctx.rng, wrepr, Ty::F64, n, 9), init: vec![1; n] },
            // NaN / infinite coordinates
            1 | 2 => {
                let dim = 2 + ctx.rng.usize(2);
                let hilbert = ctx.rng.chance(1, 3);
                let dim = if hilbert { 2 } else { dim };
                let mut pts = gen_points(&mut ctx.rng, prepr, dim, n, 20);
                let k = ctx.rng.usize(pts.bits.len());
                pts.bits[k] = bits(*ctx.rng.pick(&[nan, f64::INFINITY, f64::NEG_INFINITY]));
                let wty = if hilbert { Ty::F64 } else { *ctx.rng.pick(&TYS) };
                let ws = gen_weights(&mut ctx.rng, wrepr, wty, n, 9);
                if hilbert {
                    Op::Hilbert { parts: 2, order: 6, pts, ws, init: vec![1; n] }
                } else {
                    Op::Geo { name: if kind == 1 { "rib" } else { "rcb" }, dim, iter: 2, tol: 0.05, pts, ws, init: vec![1; n] }
                }
            }
            // tolerance that does not convert to the weight type
            3 => {
                let wty = *ctx.rng.pick(&TYS);
                Op::Num {
                    name: "ckk",
                    parts: 0,
                    tol: *ctx.rng.pick(&[nan, 1e30, -1e30, f64::INFINITY]),
                    ws: gen_weights(&mut ctx.rng, wrepr, wty, n, 50),
                    init: vec![1; n],
                }
            }
            // `int` overflow in a sum
            4 | 5 => {
                let v: Vec<i64> = (0..n).map(|_| i32::MAX as i64 - ctx.rng.range(0, 5)).collect();
                let ws = mk_weights(if wrepr == Repr::Const { Repr::Arr } else { wrepr }, Ty::Int, n, v);
                match ctx.rng.usize(4) {
                    0 => Op::Num { name: "greedy", parts: 2, tol: 0.0, ws, init: vec![1; n] },
                    1 => Op::Num { name: "kk", parts: 3, tol: 0.0, ws, init: vec![1; n] },
                    2 => Op::Num { name: "ckk", parts: 0, tol: 0.1, ws, init: vec![1; n] },
                    _ => Op::Geo { name: "rcb", dim: 2, iter: 1, tol: 0.1, pts: gen_points(&mut ctx.rng, prepr, 2, n, 20), ws, init: vec![1; n] },
                }
            }
            // NaN weights
            6 => {
                let mut ws = gen_weights(&mut ctx.rng, if wrepr == Repr::Const { Repr::Fn } else { wrepr }, Ty::F64, n, 9);
                let k = ctx.rng.usize(ws.bits.len());
                ws.bits[k] = bits(nan);
                match ctx.rng.usize(3) {
                    0 => Op::Num { name: "kk", parts: 2 + ctx.rng.usize(2), tol: 0.0, ws, init: vec![1; n] },
                    1 => Op::Num { name: "ckk", parts: 0, tol: 0.1, ws, init: vec![1; n] },
                    _ => Op::Num { name: "greedy", parts: 2, tol: 0.0, ws, init: vec![1; n] },
                }
            }
            // FiducciaMattheyses on an asymmetric matrix (its internal cut bookkeeping assertion)
            7 => {
                let wty = *ctx.rng.pick(&TYS);
                let family = ctx.rng.usize(2);
                gen_fm(&mut ctx.rng, 3 + n, if wrepr == Repr::Const { Repr::Arr } else { wrepr }, wty, Ty::I64, family, false)
            }
            // FiducciaMattheyses: bound that does not convert to the weight type
            8 => {
                let wty = *ctx.rng.pick(&[Ty::Int, Ty::I64]);
                let mut op = gen_fm(&mut ctx.rng, 3 + n, if wrepr == Repr::Const { Repr::Arr } else { wrepr }, wty, Ty::I64, 0, true);
                if let Op::Fm { imb, .. } = &mut op {
                    *imb = *ctx.rng.pick(&[1e30, nan, f64::INFINITY]);
                }
                op
            }
            // negative weights
            _ => {
                let v: Vec<i64> = (0..n).map(|_| ctx.rng.range(-9, 9)).collect();
                let wty = *ctx.rng.pick(&TYS);
                let ws = mk_weights(if wrepr == Repr::Const { Repr::Arr } else { wrepr }, wty, n, v);
                match ctx.rng.usize(3) {
                    0 => Op::Num { name: "kk", parts: 2 + ctx.rng.usize(2), tol: 0.0, ws, init: vec![1; n] },
                    1 => Op::Num { name: "ckk", parts: 0, tol: 0.1, ws, init: vec![1; n] },
                    _ => Op::Geo { name: "rcb", dim: 2, iter: 2, tol: 0.1, pts: gen_points(&mut ctx.rng, prepr, 2, n, 20), ws, init: vec![1; n] },
                }
            }
        };
        (kind, op)
    }
}
