//! C06 — deterministic partitioners give the same partition for every thread count.
//!
//! Ops (inputs are regenerated from the seeds in the op line, so a line replays exactly):
//!
//! * `part <algo> <stream> <dim> <n> <shape> <wmode> <seed> <p1> <p2> <digest|->`
//!     algo ∈ rcb rib hilbert zcurve kmeans mj; stream `g` = generic integer cloud, `x` = exact-frame
//!     cloud (symmetric around an integral centroid: every f64 sum of the frame computation is exact).
//!     The same input is run under every pool size of the tier × repetitions and the ids are compared
//!     EXACTLY (MultiJagged after renaming by first occurrence).  out: `same <digest>` where the digest
//!     hashes the outcome under pool size 1, or `differs …`.  The recorded op line carries the digest,
//!     the model's claim is "same for every T": the driver echoes `same <digest>`.  When the input is
//!     outside the premise of the theorems (a frame is built and its sums are not exact: K6 applies) the
//!     digest is prefixed `inexact-frame:` and the driver prints `skip`; the oracle still compares.
//!     Stream `t` (rcb / rcbf only) = rounded-distance ties across block seams (defect N11, fixed by
//!     /repo f4e2819): two DIFFERENT coordinates on the split axis are equally near the first split
//!     target after the f32 subtraction rounds, and sit in different blocks of the cut search's fold;
//!     `shape` 0 is the N11 input verbatim, `shape` s >= 1 a randomised variant at scale 2^(s-1).
//!     Streams `s<b><E>` / `S<b><E>` (b ∈ g x l): the integer cloud of stream `b` with every coordinate
//!     multiplied by 2^-E (E <= 149: down to the f32 SUBNORMAL range, where a coordinate k * 2^-149 has
//!     no spare bit: halving or otherwise rescaling it rounds, DISTINCT coordinates then tie) or by 2^+E
//!     (E <= 100).  All coordinates stay exactly representable in f32 and f64 (small integers times a
//!     power of two), so the premise of the property holds as at scale 1.  Base `l` = small-integer
//!     lattice around the first split target (two clusters on alternating indices and a few points
//!     just left / right of the target in different 4096-blocks of the fold).
//! * `dual <kind> <nx> <ny> <nz> <seed> <digest|->`  the tools' dual graph, CSR arrays byte-wise.
//! * `parsum gen <seed> <n> <lo> <hi>` | `parsum lit <n> <v…>`  rayon's own `sum`, `fold/reduce`,
//!     `fold_with/reduce_with`, `filter/count`, `map/collect` under several pools and `with_max_len`
//!     splits against `parFold` over several split trees in the model.
//! * `bbox <dim> <seed> <n> <lo> <hi>`  the real `BoundingBox::from_points`.
//! * `rcbsplit <seed> <n> <lo> <hi> <wmax> <min> <max>`  the real `par_rcb_split` (hook), one
//!     evaluation of its 4-tuple fold/reduce, against `parNearest` over several split trees.
//! * `rcbsplits <e> <seed> <n> <lo> <hi> <wmax> <min> <max>`  the same with coordinates, `min` and
//!     `max` multiplied by 2^e (-149 <= e <= 100): the count, the weight, the pivot and the position of
//!     the cut are those of the integer computation whenever the targets are exactly representable
//!     (always when e >= -147, otherwise when min and max are multiples of 4); else not judged (`skip`).
//! * `mjsplit <seed> <n> <wmax> <k> {<num> <den>}*k`  the real `compute_split_positions` (hook),
//!     against `mjSplit` over several split trees.
//! * `frame <dim> <n> <seed> <shape> <digest|->`  the oriented-bounding-box frame itself (hook
//!     `obb_frame`: matrix + rotated points) on LARGE (16 385 … 140 003 points, i.e. 5 … 35 blocks of the
//!     blocked inertia sums) exactly / nearly isotropic integer clouds whose centroid is k/n with n not
//!     a power of two, in construction order and in shuffled orders.  The matrix BITS are compared
//!     across pool sizes: `same <digest>` / `differs@T=<t> …`.  The model's claim – the frame is a
//!     function of the input only (the block sums are added in block order; each entry is then a fixed
//!     expression, cf. `inertia_entry_schedule_free` for the exact case) – is the echo `same <digest>`;
//!     a difference is a model/implementation disagreement.  Whenever the frame differs, Rib,
//!     HilbertCurve and ZCurve are run on the cloud (and on re-shuffles of it) under the differing
//!     pools; differing ids are the oracle failure `k6-obb-frame-depends-on-pool`.

use crate::common::*;
use coupe::rayon::prelude::*;
use coupe::Partition as _;
use coupe::{Point2D, Point3D};
use std::sync::OnceLock;

// ------------------------------------------------------------------ pools

static POOLS: OnceLock<Vec<coupe::rayon::ThreadPool>> = OnceLock::new();

/// Pools of 1…16 workers, built once (warm pools: the interleavings of later
/// cases differ from those of earlier ones, which is what we want).
fn pool(t: usize) -> &'static coupe::rayon::ThreadPool {
    let pools = POOLS.get_or_init(|| {
        (1..=16)
            .map(|t| coupe::rayon::ThreadPoolBuilder::new().num_threads(t).build().expect("pool"))
            .collect()
    });
    &pools[t - 1]
}

fn in_pool<T: Send>(t: usize, f: impl FnOnce() -> T + Send) -> Caught<T> {
    catch(|| pool(t).install(f))
}

fn pool_sizes(quick: bool) -> Vec<usize> {
    if quick {
        vec![1, 2, 3, 4, 8, 16]
    } else {
        (1..=16).collect()
    }
}

fn fnv(words: impl Iterator<Item = u64>) -> u64 {
    let mut h = 0xcbf2_9ce4_8422_2325u64;
    for w in words {
        for b in w.to_le_bytes() {
            h ^= b as u64;
            h = h.wrapping_mul(0x0000_0100_0000_01b3);
        }
    }
    h
}

fn fnv_str(s: &str) -> u64 {
    fnv(s.bytes().map(|b| b as u64))
}

/// Renaming by first occurrence (`Coupe.Par.canon`).
fn canon(ids: &[usize]) -> Vec<usize> {
    let mut map = std::collections::HashMap::new();
    ids.iter()
        .map(|i| {
            let n = map.len();
            *map.entry(*i).or_insert(n)
        })
        .collect()
}

// ------------------------------------------------------------------ clouds

#[derive(Clone)]
struct Cloud {
    /// integer coordinates, `dim` per point
    pts: Vec<[i64; 3]>,
    /// integer weights
    ws: Vec<i64>,
    /// every f64 sum of the frame computation is exact (decided from the data, not from the stream)
    exact_frame: bool,
    /// stream `t`: indices of two points with different coordinates that are equally near the first
    /// split target (after rounding) and lie in different blocks of the fold
    tie: Option<(usize, usize)>,
    /// every coordinate is multiplied by 2^scale (0: the integers themselves)
    scale: i32,
}

/// `g` `x` `t` `l`-less plain streams, or `s<b><E>` / `S<b><E>` with b ∈ g x l: (base, exponent of the scale).
fn parse_stream(s: &str) -> Option<(&'static str, i32)> {
    match s {
        "g" => return Some(("g", 0)),
        "x" => return Some(("x", 0)),
        "t" => return Some(("t", 0)),
        _ => {}
    }
    let b = s.as_bytes();
    if b.len() < 3 || b.len() > 5 || !b[2..].iter().all(|c| c.is_ascii_digit()) {
        return None;
    }
    let base = match b[1] {
        b'g' => "g",
        b'x' => "x",
        b'l' => "l",
        _ => return None,
    };
    let e: i32 = s[2..].parse().ok()?;
    match b[0] {
        b's' if e <= 149 => Some((base, -e)),
        b'S' if e <= 100 => Some((base, e)),
        _ => None,
    }
}

/// Decides `ExactSums` for the frame computation: integral centroid, all sums of
/// absolute values below 2^53.
fn exact_frame(pts: &[[i64; 3]], dim: usize) -> bool {
    let n = pts.len() as i128;
    if n == 0 {
        return true;
    }
    let lim = 1i128 << 53;
    let mut c = [0i128; 3];
    for k in 0..dim {
        let s: i128 = pts.iter().map(|p| p[k] as i128).sum();
        let a: i128 = pts.iter().map(|p| (p[k] as i128).abs()).sum();
        if a >= lim || s % n != 0 {
            return false;
        }
        c[k] = s / n;
    }
    for i in 0..dim {
        for j in 0..dim {
            let a: i128 = pts.iter().map(|p| ((p[i] as i128 - c[i]) * (p[j] as i128 - c[j])).abs()).sum();
            if a >= lim {
                return false;
            }
        }
    }
    true
}

fn gen_weights(rng: &mut Rng, n: usize, wmode: usize) -> Vec<i64> {
    (0..n)
        .map(|_| match wmode {
            0 => 1,
            1 => rng.range(1, 9),
            2 => {
                if rng.chance(1, 50) {
                    rng.range(100, 1000)
                } else {
                    rng.range(1, 4)
                }
            }
            _ => rng.range(0, 3), // zeros allowed
        })
        .collect()
}

/// Stream (i): generic integer clouds.
fn generic_cloud(seed: u64, dim: usize, n: usize, shape: usize, wmode: usize) -> Cloud {
    let mut rng = Rng::new(seed);
    let mut pts = Vec::with_capacity(n);
    let r = 1000i64;
    let ncl = 3 + (seed % 4) as usize;
    let centres: Vec<[i64; 3]> = (0..ncl).map(|_| [rng.range(-r, r), rng.range(-r, r), rng.range(-r, r)]).collect();
    for i in 0..n {
        let mut p = [0i64; 3];
        match shape {
            // near-isotropic box
            0 => {
                for k in 0..dim {
                    p[k] = rng.range(0, r);
                }
            }
            // elongated box
            1 => {
                for k in 0..dim {
                    p[k] = rng.range(0, if k == 0 { 8 * r } else { r / 2 });
                }
            }
            // blobs
            2 => {
                let c = centres[rng.usize(ncl)];
                for k in 0..dim {
                    p[k] = c[k] + rng.range(-60, 60) + rng.range(-60, 60) + rng.range(-60, 60);
                }
            }
            // tiny alphabet: many duplicates and ties
            3 => {
                for k in 0..dim {
                    p[k] = rng.range(0, 20);
                }
            }
            // diagonal band: the frame is a genuine rotation
            4 => {
                let t = rng.range(-2 * r, 2 * r);
                for k in 0..dim {
                    p[k] = t * (k as i64 + 1) + rng.range(-40, 40);
                }
            }
            // ring / shell: isotropic
            5 => loop {
                let mut q = [0i64; 3];
                let mut d2 = 0;
                for k in 0..dim {
                    q[k] = rng.range(-r, r);
                    d2 += q[k] * q[k];
                }
                if d2 <= r * r && d2 >= (r * r * 4) / 5 {
                    p = q;
                    break;
                }
            },
            // regular lattice in index order
            _ => {
                let side = (n as f64).powf(1.0 / dim as f64).ceil() as usize;
                let mut j = i;
                for k in 0..dim {
                    p[k] = (j % side.max(1)) as i64;
                    j /= side.max(1);
                }
            }
        }
        pts.push(p);
    }
    let ws = gen_weights(&mut rng, n, wmode);
    let exact = exact_frame(&pts, dim);
    Cloud { pts, ws, exact_frame: exact, tie: None, scale: 0 }
}

/// Stream (ii): "exact-frame" clouds. Offsets come in full sign orbits around an
/// integral centre, so the centroid is that centre, the inertia matrix is
/// diagonal, its entries are sums of small integer products (exact in any
/// order) and one axis dominates clearly.
fn exact_cloud(seed: u64, dim: usize, n: usize, shape: usize, wmode: usize) -> Cloud {
    let mut rng = Rng::new(seed ^ 0x5eed);
    let orbit = 1usize << dim;
    let m = n / orbit;
    let main_axis = shape % dim;
    let (big, small) = match shape / 3 {
        0 => (2000i64, 100i64),
        1 => (40, 5), // many ties
        _ => (500, 200),
    };
    let centre = [rng.range(-50, 50), rng.range(-50, 50), rng.range(-50, 50)];
    let mut pts = Vec::with_capacity(m * orbit);
    for _ in 0..m {
        let mut d = [0i64; 3];
        for k in 0..dim {
            d[k] = rng.range(0, if k == main_axis { big } else { small });
        }
        for s in 0..orbit {
            let mut p = [0i64; 3];
            for k in 0..dim {
                p[k] = centre[k] + if s >> k & 1 == 1 { -d[k] } else { d[k] };
            }
            pts.push(p);
        }
    }
    rng.shuffle(&mut pts);
    let ws = gen_weights(&mut rng, pts.len(), wmode);
    let exact = exact_frame(&pts, dim);
    Cloud { pts, ws, exact_frame: exact, tie: None, scale: 0 }
}

/// Stream (iii): rounded-distance ties across block seams (defect N11, fixed by /repo f4e2819).
///
/// `par_rcb_split` looks for the point nearest to the right of the split target with a parallel
/// `fold(..).reduce(..)` over blocks of at least 4096 points; `point - split_target` is an f32
/// subtraction.  The cloud: a far-left cluster at `lo = c - 4D`, a far-right cluster at
/// `hi = c + 2D` (even / odd indices, so the first target `lo/2 + hi/2 = c - D` balances the
/// weights and the search returns at once when the tolerance is positive), and a few "tie" points
/// at `c` and `c + delta` with `D = 2^(24+k)`, `0 < delta <= 2^k`: their distances `D` and
/// `D + delta` both round to `D` (ulp `2^(k+1)`), every quantity above is exactly representable
/// in f32 (`c` is a multiple of `2^(k+3)`).  Two tie points with DIFFERENT coordinates are put
/// into sibling sub-blocks of rayon's halving of the index range (quarters or eighths, never
/// shorter than 4096), so whether they meet inside one sequential fold or in the reduce depends
/// on the number of blocks, i.e. on the pool size.  Whichever of them becomes the pivot decides
/// the side of the other.  `shape` 0: the N11 input verbatim (k = 0, c = 0, indices 1 and 5000).
fn tie_cloud(seed: u64, dim: usize, n: usize, shape: usize, wmode: usize) -> Cloud {
    let mut rng = Rng::new(seed ^ 0x7135_0011);
    let mut pts = vec![[0i64; 3]; n];
    let mut tie = None;
    if shape == 0 && n > 5000 {
        for (i, p) in pts.iter_mut().enumerate() {
            p[0] = if i % 2 == 0 { -(1i64 << 26) } else { 1i64 << 25 };
            p[1] = (i % 5) as i64;
        }
        pts[1][0] = 1;
        pts[5000][0] = 0;
        tie = Some((1, 5000));
    } else if n >= 16 {
        let k = (shape.max(1) - 1).min(20) as u32;
        let unit = 1i64 << (k + 3);
        let d = 1i64 << (24 + k);
        let c = rng.range(-8, 8) * unit;
        let (lo, hi) = (c - 4 * d, c + 2 * d);
        let delta = if k == 0 || rng.chance(1, 2) { 1 } else { rng.range(1, 1i64 << k) };
        for (i, p) in pts.iter_mut().enumerate() {
            let j = rng.range(0, 3) * unit;
            p[0] = if i % 2 == 0 { lo + j } else { hi - j };
            for (a, x) in p.iter_mut().enumerate().take(dim).skip(1) {
                *x = if a == 1 { (i % 5) as i64 } else { rng.range(0, 9) };
            }
        }
        // the tie pair: sibling sub-blocks at depth q of rayon's halving (left half = len / 2)
        let qmax = if n / 8 >= 4096 { 3 } else { 2 };
        let q = 2 + rng.usize(qmax - 1);
        let (mut s, mut e) = (0usize, n);
        for _ in 0..q - 1 {
            let mid = s + (e - s) / 2;
            if rng.chance(1, 2) {
                e = mid
            } else {
                s = mid
            }
        }
        let mid = s + (e - s) / 2;
        let a = s + rng.usize(mid - s);
        let b = mid + rng.usize(e - mid);
        let a_high = rng.chance(1, 2);
        pts[a][0] = if a_high { c + delta } else { c };
        pts[b][0] = if a_high { c } else { c + delta };
        let mut used = vec![a, b];
        // further tie points in earlier blocks (the repaired code then names the first of them)
        if s > 0 {
            for _ in 0..rng.usize(3) {
                let x = rng.usize(s);
                pts[x][0] = if rng.chance(1, 2) { c } else { c + delta };
                used.push(x);
            }
        }
        // the bounding box is [lo, hi] exactly
        let mut free = (0..n).rev().filter(|i| !used.contains(i));
        if let (Some(i), Some(j)) = (free.next(), free.next()) {
            pts[i][0] = lo;
            pts[j][0] = hi;
        }
        tie = Some((a, b));
    }
    let ws = gen_weights(&mut rng, n, wmode);
    Cloud { pts, ws, exact_frame: false, tie, scale: 0 }
}

/// Stream base `l`: a lattice of SMALL integers around the first split target of Rcb (meant to be
/// scaled into the f32 subnormal range, where k * 2^-149 has no bit to spare).  Axis 0 spans
/// `[c, c + 2M]`; even indices hold a left cluster `c + [0, M - g]`, odd indices a right cluster
/// `c + [M + g, 2M]` (so the first target `c + M` balances the weights), and a few "near" points with
/// coordinates in `c + M - g + 1 .. c + M + g - 1` (just left of, on, and just right of the target:
/// after a lossy rescaling several DIFFERENT ones are equally near) sit in sibling sub-blocks of
/// rayon's halving of the index range and in earlier blocks.  `shape` 0: the input of seed
/// C06-r3-2's demonstration (M = 4, points 100 and 5000 at 3 and 5); `shape` s >= 1: randomised,
/// M from a list indexed by s.
fn lattice_cloud(seed: u64, dim: usize, n: usize, shape: usize, wmode: usize) -> Cloud {
    let mut rng = Rng::new(seed ^ 0x1a77_1ce5);
    let mut pts = vec![[0i64; 3]; n];
    let mut tie = None;
    if shape == 0 && n > 5000 {
        for (i, p) in pts.iter_mut().enumerate() {
            p[0] = if i % 2 == 0 { (i % 3) as i64 } else { 6 + (i % 3) as i64 };
            p[1] = (i % 7) as i64;
        }
        pts[100][0] = 3;
        pts[5000][0] = 5;
        tie = Some((100, 5000));
    } else if n >= 16 {
        let m = [4i64, 4, 5, 6, 8, 9, 16, 31, 64, 100, 1000, 4096][shape % 12];
        let g = if m >= 8 && rng.chance(1, 2) { 3 } else { 2 }.min(m - 1);
        let c = if rng.chance(1, 3) { 0 } else { rng.range(-9, 9) };
        for (i, p) in pts.iter_mut().enumerate() {
            p[0] = if i % 2 == 0 { c + rng.range(0, m - g) } else { c + m + g + rng.range(0, m - g) };
            for (a, x) in p.iter_mut().enumerate().take(dim).skip(1) {
                *x = if a == 1 { (i % 7) as i64 } else { rng.range(0, 5) };
            }
        }
        let near = |rng: &mut Rng| c + m + rng.range(-(g - 1), g - 1);
        // the pair: sibling sub-blocks at depth q of rayon's halving (left half = len / 2)
        let qmax = if n / 8 >= 4096 { 3 } else if n / 4 >= 4096 { 2 } else { 1 };
        let q = 1 + rng.usize(qmax);
        let (mut s, mut e) = (0usize, n);
        for _ in 0..q - 1 {
            let mid = s + (e - s) / 2;
            if rng.chance(1, 2) {
                e = mid
            } else {
                s = mid
            }
        }
        let mid = s + (e - s) / 2;
        let a = s + rng.usize(mid - s);
        let b = mid + rng.usize(e - mid);
        // two DIFFERENT coordinates, one strictly left of the target and one right of it, or both right
        let (xa, xb) = loop {
            let (xa, xb) = (near(&mut rng), near(&mut rng));
            if xa != xb {
                break (xa, xb);
            }
        };
        pts[a][0] = xa;
        pts[b][0] = xb;
        let mut used = vec![a, b];
        for _ in 0..rng.usize(4) {
            let x = rng.usize(n);
            if !used.contains(&x) {
                pts[x][0] = near(&mut rng);
                used.push(x);
            }
        }
        // the bounding box is [c, c + 2M] exactly
        let mut free = (0..n).rev().filter(|i| !used.contains(i));
        if let (Some(i), Some(j)) = (free.next(), free.next()) {
            pts[i][0] = c + 2 * m;
            pts[j][0] = c;
        }
        tie = Some((a, b));
    }
    let ws = gen_weights(&mut rng, n, wmode);
    let exact = exact_frame(&pts, dim);
    Cloud { pts, ws, exact_frame: exact, tie, scale: 0 }
}

// ------------------------------------------------------------------ running the partitioners

#[derive(Clone, PartialEq, Eq, Debug)]
enum Outcome {
    Ids(Vec<usize>),
    Err(String),
    /// class of the panic (line numbers and numbers in the message removed)
    Panic(String),
}

impl Outcome {
    fn digest(&self) -> String {
        match self {
            Outcome::Ids(v) => format!("{:016x}", fnv(v.iter().map(|x| *x as u64))),
            Outcome::Err(e) => format!("err:{:08x}", fnv_str(e) as u32),
            Outcome::Panic(c) => format!("panic:{:08x}", fnv_str(c) as u32),
        }
    }
}

struct Params {
    algo: String,
    p1: usize,
    p2: usize,
}

fn initial_partition(n: usize, k: usize, mode: usize) -> Vec<usize> {
    // k-means needs every id 0..k to occur
    (0..n).map(|i| if mode == 0 { i % k } else { (i * k / n.max(1)).min(k - 1) }).collect()
}

macro_rules! run_dim {
    ($name:ident, $frames:ident, $D:expr, $P:ty) => {
        fn $name(cloud: &Cloud, prm: &Params, threads: usize) -> Outcome {
            // (a power of two: the product is exact, integers below 2^24 stay exact in f32 down to 2^-149)
            let unit = f64::powi(2.0, cloud.scale);
            let points: Vec<$P> = cloud
                .pts
                .iter()
                .map(|p| {
                    let mut q = <$P>::zeros();
                    for k in 0..$D {
                        q[k] = p[k] as f64 * unit;
                    }
                    q
                })
                .collect();
            let n = points.len();
            let wf: Vec<f64> = cloud.ws.iter().map(|w| *w as f64).collect();
            let wi: Vec<i64> = cloud.ws.clone();
            let algo = prm.algo.as_str();
            let (p1, p2) = (prm.p1, prm.p2);
            let res = in_pool(threads, move || -> Result<Vec<usize>, String> {
                let mut ids = vec![0usize; n];
                let tol = [0.0, 0.05, 0.1][p2 % 3];
                match algo {
                    "rcb" => coupe::Rcb { iter_count: p1, tolerance: tol }
                        .partition(&mut ids, (points.par_iter().cloned(), wi.par_iter().cloned()))
                        .map_err(|e| format!("{:?}", e))?,
                    // f64 weights with integer values: sums stay exact
                    "rcbf" => coupe::Rcb { iter_count: p1, tolerance: tol }
                        .partition(&mut ids, (points.par_iter().cloned(), wf.par_iter().cloned()))
                        .map_err(|e| format!("{:?}", e))?,
                    "rib" => coupe::Rib { iter_count: p1, tolerance: tol }
                        .partition(&mut ids, (&points[..], wi.par_iter().cloned()))
                        .map_err(|e| format!("{:?}", e))?,
                    "hilbert" => coupe::HilbertCurve { part_count: p1, order: p2 as u32 }
                        .partition(&mut ids, (&points[..], &wf[..]))
                        .map_err(|e| format!("{:?}", e))?,
                    "zcurve" => coupe::ZCurve { part_count: p1, order: p2 as u32 }
                        .partition(&mut ids, &points[..])
                        .map_err(|e| format!("{:?}", e))?,
                    "mj" => coupe::MultiJagged { part_count: p1, max_iter: p2 }
                        .partition(&mut ids, (&points[..], &wf[..]))
                        .map_err(|e| format!("{:?}", e))?,
                    "kmeans" => {
                        ids = initial_partition(n, p1.max(1), p2 % 2);
                        coupe::KMeans {
                            max_iter: 8 + 4 * (p2 / 2 % 3),
                            max_balance_iter: 1 + p2 / 6 % 3,
                            delta_threshold: if p2 / 18 % 2 == 0 { 0.01 } else { 0.0 },
                            ..Default::default()
                        }
                        .partition(&mut ids, (&points[..], &wf[..]))
                        .map_err(|e| format!("{:?}", e))?
                    }
                    _ => return Err("unknown-algo".into()),
                }
                Ok(ids)
            });
            match res {
                Caught::Ok(Ok(ids)) => Outcome::Ids(if prm.algo == "mj" { canon(&ids) } else { ids }),
                Caught::Ok(Err(e)) => Outcome::Err(e),
                Caught::Panic(m) => Outcome::Panic(panic_sig(&m)),
                Caught::Hang => Outcome::Panic("hang".into()),
            }
        }

        /// The matrix of the oriented-bounding-box frame (hook), as bit patterns.
        fn $frames(cloud: &Cloud, threads: usize) -> Option<Vec<u64>> {
            // (a power of two: the product is exact, integers below 2^24 stay exact in f32 down to 2^-149)
            let unit = f64::powi(2.0, cloud.scale);
            let points: Vec<$P> = cloud
                .pts
                .iter()
                .map(|p| {
                    let mut q = <$P>::zeros();
                    for k in 0..$D {
                        q[k] = p[k] as f64 * unit;
                    }
                    q
                })
                .collect();
            match in_pool(threads, move || coupe::verif::geometry::obb_frame::<$D>(&points)) {
                Caught::Ok(Some((_mapped, m))) => Some(m.iter().map(|x| x.to_bits()).collect()),
                _ => None,
            }
        }
    };
}

run_dim!(run_2d, frame_2d, 2, Point2D);
run_dim!(run_3d, frame_3d, 3, Point3D);

fn run_algo(cloud: &Cloud, dim: usize, prm: &Params, threads: usize) -> Outcome {
    if dim == 2 {
        run_2d(cloud, prm, threads)
    } else {
        run_3d(cloud, prm, threads)
    }
}

fn frame(cloud: &Cloud, dim: usize, threads: usize) -> Option<Vec<u64>> {
    if dim == 2 {
        frame_2d(cloud, threads)
    } else {
        frame_3d(cloud, threads)
    }
}

/// Distinct frame matrices seen over `tries` evaluations under each given pool size.
fn distinct_frames(cloud: &Cloud, dim: usize, pools: &[usize], tries: usize) -> usize {
    let mut seen: Vec<Option<Vec<u64>>> = vec![];
    for &t in pools {
        for _ in 0..tries {
            let f = frame(cloud, dim, t);
            if !seen.contains(&f) {
                seen.push(f);
            }
        }
    }
    seen.len()
}

struct PartResult {
    out: String,
    digest: String,
    fail: Option<(String, String)>,
    counts: Vec<String>,
    n: usize,
}

fn uses_frame(algo: &str) -> bool {
    matches!(algo, "rib" | "hilbert" | "zcurve" | "kmeans")
}

#[allow(clippy::too_many_arguments)]
fn part_case(
    algo: String,
    stream: String,
    dim: usize,
    n: usize,
    shape: usize,
    wmode: usize,
    seed: u64,
    p1: usize,
    p2: usize,
    pools: Vec<usize>,
    reps: usize,
) -> PartResult {
    let (base, scale) = parse_stream(&stream).unwrap_or(("g", 0));
    let mut cloud = match base {
        "x" => exact_cloud(seed, dim, n, shape, wmode),
        "t" => tie_cloud(seed, dim, n, shape, wmode),
        "l" => lattice_cloud(seed, dim, n, shape, wmode),
        _ => generic_cloud(seed, dim, n, shape, wmode),
    };
    cloud.scale = scale;
    let prm = Params { algo: algo.clone(), p1, p2 };
    let mut counts = vec![];
    let reference = run_algo(&cloud, dim, &prm, 1);
    let digest = reference.digest();
    counts.push(
        match &reference {
            Outcome::Ids(_) => "outcome:ids",
            Outcome::Err(_) => "outcome:err",
            Outcome::Panic(_) => "outcome:panic-identical-or-not",
        }
        .to_string(),
    );
    if cloud.exact_frame {
        counts.push("input:exact-frame".into());
    } else {
        counts.push("input:inexact-frame".into());
    }
    if stream.starts_with('s') || stream.starts_with('S') {
        counts.push(format!("scaled:{}:2^{}", base, scale));
        counts.push(format!(
            "scaled:{}:{}",
            algo,
            if scale <= -127 { "f32-subnormal" } else if scale < -100 { "f32-tiny-normal" } else if scale < 0 { "small" } else { "large" }
        ));
        if cloud.pts.len() >= 16_384 {
            counts.push("scaled:>=16384-points".into());
        }
        if let (Some((a, b)), Outcome::Ids(v)) = (cloud.tie, &reference) {
            counts.push(if v[a] != v[b] { "lattice:pair-separated".to_string() } else { "lattice:pair-not-separated".to_string() });
        }
    }
    if stream == "t" {
        counts.push(format!("tie:scale:2^{}", if shape == 0 { 0 } else { (shape - 1).min(20) }));
        // the two tie points differ by less than any other gap: they end in different parts iff
        // one of them was a pivot, i.e. iff the cut search really returned on the tie
        if let (Some((a, b)), Outcome::Ids(v)) = (cloud.tie, &reference) {
            counts.push(if v[a] != v[b] { "tie:pair-separated-by-a-pivot".to_string() } else { "tie:pair-not-separated".to_string() });
        }
    }
    let mut first_diff: Option<(usize, usize, String)> = None;
    let mut ndiff_runs = 0usize;
    let mut runs = 0usize;
    for &t in &pools {
        for rep in 0..reps {
            if t == 1 && rep == 0 {
                continue;
            }
            let o = run_algo(&cloud, dim, &prm, t);
            runs += 1;
            if o != reference {
                ndiff_runs += 1;
                if first_diff.is_none() {
                    let what = match (&reference, &o) {
                        (Outcome::Ids(a), Outcome::Ids(b)) => {
                            let nd = a.iter().zip(b).filter(|(x, y)| x != y).count();
                            let fi = a.iter().zip(b).position(|(x, y)| x != y).unwrap_or(0);
                            format!("{} of {} ids differ, first at {}: {} vs {}", nd, a.len(), fi, a.get(fi).unwrap_or(&0), b.get(fi).unwrap_or(&0))
                        }
                        (a, b) => format!("outcome {} vs {}", a.digest(), b.digest()),
                    };
                    first_diff = Some((t, rep, what));
                }
            }
        }
    }
    // latent K6: does the frame itself depend on the pool? (informative, and the
    // exact-frame stream must never show it)
    let mut fail = None;
    let nframes = if uses_frame(&algo) && cloud.pts.len() > 0 { distinct_frames(&cloud, dim, &[1, 2, 4, 8, 16], 2) } else { 1 };
    if uses_frame(&algo) {
        counts.push(format!("frame-varies-with-pool:{}", if nframes > 1 { "yes" } else { "no" }));
        // what the frame is under one thread: a signed permutation of the axes or a genuine rotation
        let kind = match frame(&cloud, dim, 1) {
            None => "none",
            Some(m) => {
                if m.iter().any(|b| f64::from_bits(*b).is_nan()) {
                    "nan"
                } else if m.iter().all(|b| [0.0, 1.0, -1.0].contains(&f64::from_bits(*b))) {
                    "axis-permutation"
                } else {
                    "rotation"
                }
            }
        };
        counts.push(format!("frame-kind:{}:{}", if scale == 0 { base } else { "scaled" }, kind));
    }
    if nframes > 1 && cloud.exact_frame {
        fail = Some((
            "obb-frame-varies-on-exact-input".to_string(),
            format!("{} distinct frame matrices although every sum of the frame computation is exact", nframes),
        ));
    }
    let out = match first_diff {
        None => format!("same {}", digest),
        Some((t, rep, what)) => {
            // cause signature
            let (sig, why) = if uses_frame(&algo) && !cloud.exact_frame {
                let nf = if nframes > 1 { nframes } else { distinct_frames(&cloud, dim, &[1, t, t, 16, 8, 3], 10) };
                if nf > 1 {
                    (
                        "k6-obb-frame-depends-on-pool".to_string(),
                        format!("{} ids under {} threads (rep {}) vs 1 thread: {}; {} distinct OBB matrices across pools (inertia sums are inexact: non-integral centroid)", algo, t, rep, what, nf),
                    )
                } else {
                    (
                        format!("nondeterministic-ids-{}", algo),
                        format!("{} threads (rep {}) vs 1 thread: {}; OBB matrices identical across pools", t, rep, what),
                    )
                }
            } else {
                (
                    format!("nondeterministic-ids-{}{}", algo, if cloud.exact_frame { "-exact-input" } else { "" }),
                    format!("{} threads (rep {}) vs 1 thread: {}", t, rep, what),
                )
            };
            counts.push(format!("differs:{}", algo));
            if fail.is_none() {
                fail = Some((sig, why));
            }
            format!("differs T={} rep={} runs={}/{}", t, rep, ndiff_runs, runs)
        }
    };
    // Inputs outside the premise of the theorems (the frame is built from sums that round):
    // the model makes no claim, the op line says so and the driver prints `skip`.
    let digest = if uses_frame(&algo) && !cloud.exact_frame { format!("inexact-frame:{}", digest) } else { digest };
    let out = if out.starts_with("same ") { format!("same {}", digest) } else { out };
    PartResult { out, digest, fail, counts, n: cloud.pts.len() }
}

// ------------------------------------------------------------------ dual graph

fn build_grid_mesh(kind: &str, nx: usize, ny: usize, nz: usize, seed: u64) -> mesh_io::Mesh {
    use mesh_io::ElementType::*;
    let mut rng = Rng::new(seed);
    let node2 = |i: usize, j: usize| j * (nx + 1) + i;
    let node3 = |i: usize, j: usize, k: usize| (k * (ny + 1) + j) * (nx + 1) + i;
    let three_d = kind == "hex" || kind == "tet";
    let nn = if three_d { (nx + 1) * (ny + 1) * (nz + 1) } else { (nx + 1) * (ny + 1) };
    let space = if three_d { 3 } else { 2 };
    let mut coords = Vec::with_capacity(nn * space);
    for v in 0..nn {
        coords.push((v % (nx + 1)) as f64);
        coords.push((v / (nx + 1) % (ny + 1)) as f64);
        if three_d {
            coords.push((v / ((nx + 1) * (ny + 1))) as f64);
        }
    }
    let mut tris: Vec<[usize; 3]> = vec![];
    let mut quads: Vec<[usize; 4]> = vec![];
    let mut hexes: Vec<[usize; 8]> = vec![];
    let mut tets: Vec<[usize; 4]> = vec![];
    let mut edges: Vec<[usize; 2]> = vec![];
    if three_d {
        for k in 0..nz {
            for j in 0..ny {
                for i in 0..nx {
                    let c = [
                        node3(i, j, k),
                        node3(i + 1, j, k),
                        node3(i + 1, j + 1, k),
                        node3(i, j + 1, k),
                        node3(i, j, k + 1),
                        node3(i + 1, j, k + 1),
                        node3(i + 1, j + 1, k + 1),
                        node3(i, j + 1, k + 1),
                    ];
                    if kind == "hex" {
                        hexes.push(c);
                    } else {
                        // five tetrahedra per cube
                        for t in [[0, 1, 3, 4], [1, 2, 3, 6], [1, 4, 5, 6], [3, 4, 6, 7], [1, 3, 4, 6]] {
                            tets.push([c[t[0]], c[t[1]], c[t[2]], c[t[3]]]);
                        }
                    }
                }
            }
        }
    } else {
        for j in 0..ny {
            for i in 0..nx {
                let c = [node2(i, j), node2(i + 1, j), node2(i + 1, j + 1), node2(i, j + 1)];
                let as_tri = match kind {
                    "tri" => true,
                    "quad" => false,
                    _ => rng.chance(1, 2), // mixed: two element blocks
                };
                if as_tri {
                    tris.push([c[0], c[1], c[2]]);
                    tris.push([c[0], c[2], c[3]]);
                } else {
                    quads.push(c);
                }
                if kind == "mixed" && i == 0 {
                    edges.push([c[0], c[3]]); // lower-dimensional block: ignored by dual
                }
            }
        }
    }
    rng.shuffle(&mut tris);
    rng.shuffle(&mut quads);
    rng.shuffle(&mut hexes);
    rng.shuffle(&mut tets);
    let mut topo = vec![];
    let mut push = |ty, flat: Vec<usize>, npe: usize| {
        if !flat.is_empty() {
            let cnt = flat.len() / npe;
            topo.push((ty, flat, (0..cnt as isize).collect::<Vec<_>>()));
        }
    };
    push(Edge, edges.concat(), 2);
    push(Triangle, tris.concat(), 3);
    push(Quadrangle, quads.concat(), 4);
    push(Tetrahedron, tets.concat(), 4);
    push(Hexahedron, hexes.concat(), 8);
    mesh_io::Mesh::from_raw_parts(space, coords, vec![0; nn], topo)
}

fn dual_outcome(mesh: &mesh_io::Mesh, threads: usize) -> Outcome {
    match in_pool(threads, || {
        let g = coupe_tools::dual(mesh);
        let mut v: Vec<usize> = vec![g.rows(), g.cols()];
        v.extend_from_slice(g.indptr().raw_storage());
        v.push(usize::MAX);
        v.extend_from_slice(g.indices());
        v.push(usize::MAX);
        v.extend(g.data().iter().map(|x| x.to_bits() as usize));
        v
    }) {
        Caught::Ok(v) => Outcome::Ids(v),
        Caught::Panic(m) => Outcome::Panic(panic_sig(&m)),
        Caught::Hang => Outcome::Panic("hang".into()),
    }
}

// ------------------------------------------------------------------ generator

fn budget_reps(ctx: &Ctx) -> usize {
    ctx.budget(3, 8)
}

pub fn generate(ctx: &mut Ctx) {
    let quick = ctx.quick();
    // ---- direct skeleton ops (model evaluates split trees) ----------------
    // tiny sizes exhaustively small, then random
    for n in 0..=6usize {
        let v: Vec<i64> = (0..n).map(|_| ctx.rng.range(-9, 9)).collect();
        run_op(ctx, &format!("parsum lit {} {}", n, join(&v)).trim().to_string());
    }
    for _ in 0..ctx.budget(20, 120) {
        let n = match ctx.rng.usize(4) {
            0 => ctx.rng.usize(40),
            1 => 100 + ctx.rng.usize(2000),
            2 => 4096 + ctx.rng.usize(9000),
            _ => 10_000 + ctx.rng.usize(20_000),
        };
        let (lo, hi) = *ctx.rng.pick(&[(-9i64, 9i64), (0, 1), (-1000, 1000), (-1_000_000, 1_000_000), (5, 5)]);
        let seed = ctx.rng.below(1 << 32);
        run_op(ctx, &format!("parsum gen {} {} {} {}", seed, n, lo, hi));
    }
    for _ in 0..ctx.budget(12, 80) {
        let dim = 2 + ctx.rng.usize(2);
        let n = *ctx.rng.pick(&[0usize, 1, 2, 17, 1000, 5000, 12000, 30000]);
        let (lo, hi) = *ctx.rng.pick(&[(-9i64, 9i64), (0, 1), (-100_000, 100_000)]);
        let seed = ctx.rng.below(1 << 32);
        run_op(ctx, &format!("bbox {} {} {} {} {}", dim, seed, n, lo, hi));
    }
    for _ in 0..ctx.budget(24, 200) {
        let n = match ctx.rng.usize(5) {
            0 => ctx.rng.usize(20),
            1 => 100 + ctx.rng.usize(4000),
            _ => 8192 + ctx.rng.usize(22_000), // with_min_len(4096): below 8192 items rayon cannot split
        };
        // small alphabets give ties at the nearest distance
        let (lo, hi) = *ctx.rng.pick(&[(0i64, 20i64), (0, 200), (-5000, 5000), (0, 3)]);
        let wmax = *ctx.rng.pick(&[1i64, 9, 1000]);
        // the cut: anywhere around the data, including outside (no item on the right)
        let a = ctx.rng.range(lo - 3, hi + 3);
        let b = ctx.rng.range(lo - 3, hi + 3);
        let (mn, mx) = (a.min(b), a.max(b));
        let seed = ctx.rng.below(1 << 32);
        run_op(ctx, &format!("rcbsplit {} {} {} {} {} {} {}", seed, n, lo, hi, wmax, mn, mx));
    }
    for _ in 0..ctx.budget(24, 200) {
        let n = match ctx.rng.usize(5) {
            0 => ctx.rng.usize(12),
            1 => 50 + ctx.rng.usize(3000),
            _ => 5000 + ctx.rng.usize(25_000),
        };
        let wmax = *ctx.rng.pick(&[1i64, 1, 9, 1000]);
        let k = 2 + ctx.rng.usize(7);
        // modifiers as the code builds them: fat parts (q+1)/s, regular parts q/s
        let q = 1 + ctx.rng.usize(4);
        let fat = ctx.rng.usize(k);
        let s = fat * (q + 1) + (k - fat) * q;
        let mut m = String::new();
        for i in 0..k {
            m.push_str(&format!(" {} {}", if i < fat { q + 1 } else { q }, s));
        }
        let seed = ctx.rng.below(1 << 32);
        run_op(ctx, &format!("mjsplit {} {} {} {}{}", seed, n, wmax, k, m));
    }

    // ---- the partitioners, two input streams ---------------------------------
    let algos = ["rcb", "rcbf", "rib", "hilbert", "zcurve", "mj", "kmeans"];
    let per_algo = ctx.budget(40, 80);
    for algo in algos {
        for c in 0..per_algo {
            // alternate the streams; the exact-frame stream only matters where a frame is used,
            // but its symmetric clouds are also the tie-heavy inputs for rcb / mj
            let stream = if c % 2 == 0 { "g" } else { "x" };
            let dim = 2 + ctx.rng.usize(2);
            let big = [5000usize, 8192, 9000, 12_000, 16_384, 20_000, 30_000];
            let n = if algo == "kmeans" {
                *ctx.rng.pick(&[300usize, 1000, 2500, 5000])
            } else if c == per_algo - 1 {
                *ctx.rng.pick(&[0usize, 1, 2, 3, 7, 64])
            } else if !quick || ctx.rng.chance(7, 8) {
                *ctx.rng.pick(&big)
            } else {
                500 + ctx.rng.usize(4000)
            };
            let shape = if stream == "g" { ctx.rng.usize(7) } else { ctx.rng.usize(9) };
            let wmode = ctx.rng.usize(4);
            let seed = ctx.rng.below(1 << 32);
            let (p1, p2) = match algo {
                "rcb" | "rcbf" | "rib" => (1 + ctx.rng.usize(5), ctx.rng.usize(3)),
                "hilbert" => (2 + ctx.rng.usize(15), *ctx.rng.pick(&[4usize, 8, 12, 16, 21])),
                // every recursive call of z_curve_partition_recurse maps ALL points, so the cost is
                // n x (number of non-empty cells): deep orders only on small inputs
                "zcurve" => (
                    2 + ctx.rng.usize(15),
                    if n > 4000 {
                        *ctx.rng.pick(if dim == 2 { &[2usize, 3, 4] } else { &[1usize, 2, 3] })
                    } else {
                        *ctx.rng.pick(&[4usize, 6, 8, 10])
                    },
                ),
                "mj" => (2 + ctx.rng.usize(19), 1 + ctx.rng.usize(4)),
                _ => (2 + ctx.rng.usize(5), ctx.rng.usize(36)),
            };
            run_op(ctx, &format!("part {} {} {} {} {} {} {} {} {} -", algo, stream, dim, n, shape, wmode, seed, p1, p2));
        }
    }
    // ---- rounded-distance ties across block seams (N11) ------------------------------
    // Rcb only (Rib rotates the cloud with f64 arithmetic first: the ties do not survive).
    // >= 16 384 points: with_min_len(4096) and one thread give two blocks, more threads four or more.
    {
        let sizes = [16_384usize, 20_001, 32_769, 40_000];
        let mut c = 0usize;
        // the N11 input verbatim, both weight types, each size
        for &n in &sizes {
            for algo in ["rcb", "rcbf"] {
                run_op(ctx, &format!("part {} t 2 {} 0 0 0 1 1 -", algo, n));
            }
        }
        for _ in 0..ctx.budget(28, 120) {
            let algo = if c % 3 == 2 { "rcbf" } else { "rcb" };
            let n = sizes[c % sizes.len()];
            c += 1;
            let dim = 2 + ctx.rng.usize(2);
            let shape = 1 + ctx.rng.usize(13); // scale 2^0 … 2^12
            let wmode = *ctx.rng.pick(&[0usize, 0, 1, 3]);
            let seed = ctx.rng.below(1 << 32);
            let p1 = 1 + ctx.rng.usize(3);
            let p2 = 1 + ctx.rng.usize(2); // tolerance 0.05 / 0.1: the search returns on the first target
            run_op(ctx, &format!("part {} t {} {} {} {} {} {} {} -", algo, dim, n, shape, wmode, seed, p1, p2));
        }
    }
    // ---- the same comparisons at other coordinate SCALES ------------------------------
    // 2^-149 * k (f32 subnormals: no spare bit, halving / rescaling a coordinate or a difference
    // rounds and distinct coordinates tie), 2^-140, 2^-126 (the subnormal boundary), a few others and
    // large scales; >= 16 384 points so that the number of blocks of the cut search depends on the pool.
    {
        let sizes = [16_384usize, 20_001, 32_769];
        let main_scales = ["s149", "s140", "s126"];
        let other_scales = ["s148", "s147", "s145", "s133", "s127", "s125", "s100", "s24", "s1", "S1", "S60", "S100"];
        // the lattice of seed C06-r3-2's demonstration verbatim, then randomised lattices: Rcb
        for (i, sc) in main_scales.iter().enumerate() {
            run_op(ctx, &format!("part rcb sl{} 2 {} 0 0 0 1 1 -", &sc[1..], sizes[i]));
        }
        let mut c = 0usize;
        for _ in 0..ctx.budget(24, 150) {
            let algo = if c % 3 == 2 { "rcbf" } else { "rcb" };
            let n = sizes[c % sizes.len()];
            let sc = if c % 4 == 3 { *ctx.rng.pick(&other_scales) } else { main_scales[(c / 3) % 3] };
            c += 1;
            let dim = 2 + ctx.rng.usize(2);
            let shape = 1 + ctx.rng.usize(12);
            let wmode = *ctx.rng.pick(&[0usize, 0, 1, 3]);
            let seed = ctx.rng.below(1 << 32);
            let p1 = 1 + ctx.rng.usize(3);
            let p2 = ctx.rng.usize(3);
            run_op(ctx, &format!("part {} {}l{} {} {} {} {} {} {} {} -", algo, &sc[..1], &sc[1..], dim, n, shape, wmode, seed, p1, p2));
        }
        // every point partitioner on the generic / exact-frame / lattice clouds at these scales
        for algo in ["rcb", "rcbf", "rib", "hilbert", "zcurve", "mj", "kmeans"] {
            for k in 0..ctx.budget(4, 24) {
                let sc = if k % 4 == 3 { *ctx.rng.pick(&other_scales) } else { main_scales[k % 4 % 3] };
                let base = *ctx.rng.pick(&["g", "x", "x", "l"]);
                let dim = 2 + ctx.rng.usize(2);
                let n = if algo == "kmeans" { *ctx.rng.pick(&[1000usize, 2500, 5000]) } else { sizes[ctx.rng.usize(3)] };
                let shape = match base {
                    "g" => *ctx.rng.pick(&[0usize, 1, 2, 3, 3, 6]),
                    "x" => ctx.rng.usize(9),
                    _ => 1 + ctx.rng.usize(12),
                };
                let wmode = ctx.rng.usize(4);
                let seed = ctx.rng.below(1 << 32);
                let (p1, p2) = match algo {
                    "rcb" | "rcbf" | "rib" => (1 + ctx.rng.usize(4), ctx.rng.usize(3)),
                    "hilbert" => (2 + ctx.rng.usize(15), *ctx.rng.pick(&[4usize, 8, 12, 16])),
                    "zcurve" => (2 + ctx.rng.usize(15), *ctx.rng.pick(if dim == 2 { &[2usize, 3, 4] } else { &[1usize, 2, 3] })),
                    "mj" => (2 + ctx.rng.usize(19), 1 + ctx.rng.usize(4)),
                    _ => (2 + ctx.rng.usize(5), ctx.rng.usize(36)),
                };
                run_op(ctx, &format!("part {} {}{}{} {} {} {} {} {} {} {} -", algo, &sc[..1], base, &sc[1..], dim, n, shape, wmode, seed, p1, p2));
            }
        }
        // the cut search itself (hook) at these scales against the integer computation
        for (e, mn, mx) in [(-149i64, 0i64, 8i64), (-149, -4, 12), (-148, 0, 8), (-140, 0, 8), (-126, 0, 8)] {
            run_op(ctx, &format!("rcbsplits {} 11 16384 0 8 1 {} {}", e, mn, mx));
        }
        for k in 0..ctx.budget(30, 240) {
            let e: i64 = match k % 5 {
                0 | 1 => -149,
                2 => *ctx.rng.pick(&[-148i64, -147, -146, -140]),
                3 => *ctx.rng.pick(&[-133i64, -127, -126, -125]),
                _ => *ctx.rng.pick(&[-100i64, -24, -1, 1, 60, 100]),
            };
            let n = match ctx.rng.usize(4) {
                0 => 100 + ctx.rng.usize(4000),
                _ => *ctx.rng.pick(&[16_384usize, 20_001, 32_769, 9000]),
            };
            let (lo, hi) = *ctx.rng.pick(&[(0i64, 8i64), (0, 20), (-7, 9), (0, 200), (-5000, 5000), (0, 3)]);
            let wmax = *ctx.rng.pick(&[1i64, 9, 1000]);
            // mostly multiples of 4 (exact targets even at 2^-149), now and then arbitrary
            let q = if ctx.rng.chance(5, 6) { 4 } else { 1 };
            let a = ctx.rng.range(lo - 3, hi + 3).div_euclid(q) * q;
            let b = ctx.rng.range(lo - 3, hi + 3).div_euclid(q) * q;
            let (mn, mx) = (a.min(b), a.max(b));
            let seed = ctx.rng.below(1 << 32);
            run_op(ctx, &format!("rcbsplits {} {} {} {} {} {} {} {}", e, seed, n, lo, hi, wmax, mn, mx));
        }
    }
    // ---- dual graph ----------------------------------------------------------
    for _ in 0..ctx.budget(8, 40) {
        let kind = *ctx.rng.pick(&["tri", "quad", "mixed", "hex", "tet"]);
        let (nx, ny, nz) = if kind == "hex" || kind == "tet" {
            (3 + ctx.rng.usize(14), 3 + ctx.rng.usize(14), 2 + ctx.rng.usize(8))
        } else {
            (10 + ctx.rng.usize(120), 10 + ctx.rng.usize(120), 1)
        };
        let seed = ctx.rng.below(1 << 32);
        run_op(ctx, &format!("dual {} {} {} {} {} -", kind, nx, ny, nz, seed));
    }
    run_op(ctx, "dual tri 1 1 1 1 -");
    // ---- the frame itself, on large near-isotropic clouds ------------------------
    // sizes just above / far above the 4096-point blocks of the inertia sums, never multiples of
    // powers of two; >= 5 blocks (16 385 points) are needed before the association of the block sums
    // can depend on the pool at all
    let sizes: &[usize] = if quick { &[16_385, 16_422, 20_001, 32_771, 65_548, 70_001] } else { &[16_385, 16_422, 20_001, 32_771, 40_963, 65_548, 70_001, 131_077, 140_003] };
    for c in 0..ctx.budget(36, 160) {
        let dim = 2 + c % 2;
        let n = sizes[(c / 2) % sizes.len()];
        let shape = ctx.rng.usize(FRAME_SHAPES);
        // the low 4 bits choose the order of the points (0: construction order), the rest the cloud
        let cloud_seed = ctx.rng.below(1 << 24) << 4;
        let orders = if quick { 2 } else { 3 };
        for o in 0..orders {
            let seed = cloud_seed | if o == 0 && ctx.rng.chance(1, 3) { 0 } else { 1 + ctx.rng.below(15) };
            run_op(ctx, &format!("frame {} {} {} {} -", dim, n, seed, shape));
        }
    }
    for (dim, n) in [(2usize, 0usize), (2, 1), (3, 2), (2, 4097), (3, 8193), (2, 16_384)] {
        run_op(ctx, &format!("frame {} {} {} {} -", dim, n, 17, 0));
    }
    // ---- malformed stream: both sides answer `bad-op` --------------------------
    for m in [
        "parsum lit 3 1 2",
        "parsum gen 1 5 9 0",
        "bbox 4 1 10 0 5",
        "rcbsplit 1 10 5 0 1 0 1",
        "mjsplit 1 10 1 0",
        "part foo g 2 10 0 0 1 1 1 -",
        "part rcb g 4 10 0 0 1 1 1 -",
        "part rcb q 2 10 0 0 1 1 1 -",
        "part rib t 2 16384 0 0 1 1 1 -",
        "part rcb sl150 2 16384 0 0 1 1 1 -",
        "part rcb sq149 2 16384 0 0 1 1 1 -",
        "part rcb S 2 16384 0 0 1 1 1 -",
        "part rcb st10 2 16384 0 0 1 1 1 -",
        "rcbsplits -150 1 10 0 5 1 0 4",
        "rcbsplits -149 1 10 5 0 1 0 4",
        "rcbsplits 0 1 10",
        "dual tri 3 3",
        "frame 4 100 1 0 -",
        "frame 2 100 1 99 -",
        "frobnicate 1 2 3",
    ] {
        ctx.count("malformed");
        run_op(ctx, m);
    }
    let ps = pool_sizes(quick);
    ctx.notes.push(format!(
        "pool sizes {:?} x {} repetitions per case (warm pools built once); every run is compared with the first run under 1 thread",
        ps,
        budget_reps(ctx)
    ));
}

// ------------------------------------------------------------------ the frame op

const FRAME_SHAPES: usize = 6;

/// Clouds for the `frame` op: exactly or nearly isotropic integer clouds (so that the principal
/// axis is decided by the last bits of the inertia matrix), made of `n - e` points of a symmetric
/// body plus `e` (1…3) off-centre points, so that the centroid is `centre + k/n` – not
/// representable when `n` is not a power of two – and every offset `point - centroid` rounds.
/// The cloud depends on `seed >> 4`, the order of its points on `seed & 15` (0: construction
/// order, i.e. sorted by norm / row by row / orbit by orbit; otherwise shuffled).
fn iso_cloud(dim: usize, n: usize, seed: u64, shape: usize) -> Vec<[i64; 3]> {
    let mut rng = Rng::new((seed >> 4) ^ 0xf4a3e);
    let extras = if n == 0 { 0 } else { (1 + (seed >> 4) % 3).min(n as u64) as usize };
    let body = n - extras;
    let mut pts: Vec<[i64; 3]> = Vec::with_capacity(n);
    let lattice = |r: i64| -> Vec<[i64; 3]> {
        let mut v = vec![];
        let zr = if dim == 3 { r } else { 0 };
        for z in -zr..=zr {
            for y in -r..=r {
                for x in -r..=r {
                    v.push([x, y, z]);
                }
            }
        }
        v
    };
    let norm2 = |p: &[i64; 3]| p[0] * p[0] + p[1] * p[1] + p[2] * p[2];
    // all signed permutations of a point: 8 images in 2-D, 48 in 3-D (duplicates kept: the
    // multiset is what makes the inertia matrix a multiple of the identity)
    let orbit = |d: [i64; 3], out: &mut Vec<[i64; 3]>| {
        let perms: &[[usize; 3]] = if dim == 2 { &[[0, 1, 2], [1, 0, 2]] } else { &[[0, 1, 2], [0, 2, 1], [1, 0, 2], [1, 2, 0], [2, 0, 1], [2, 1, 0]] };
        for pm in perms {
            for s in 0..(1usize << dim) {
                let mut p = [0i64; 3];
                for k in 0..dim {
                    p[k] = if s >> k & 1 == 1 { -d[pm[k]] } else { d[pm[k]] };
                }
                out.push(p);
            }
        }
    };
    let orbit_len = if dim == 2 { 8 } else { 48 };
    match shape {
        // disc / ball: the `body` lattice points nearest to the origin
        0 | 5 => {
            let mut r = 1i64;
            while (2 * r + 1).pow(dim as u32) < 2 * body as i64 + 8 {
                r += 1;
            }
            let mut v = lattice(r);
            v.sort_by_key(|p| (norm2(p), p[2], p[1], p[0]));
            v.truncate(body);
            pts = v;
        }
        // square / cube, row by row
        1 => {
            let mut r = 0i64;
            while (2 * r + 1).pow(dim as u32) < body as i64 {
                r += 1;
            }
            let mut v = lattice(r);
            v.truncate(body);
            pts = v;
        }
        // full signed-permutation orbits of random points: exactly isotropic
        2 => {
            while pts.len() + orbit_len <= body {
                let d = [rng.range(0, 300), rng.range(0, 300), rng.range(0, 300)];
                orbit(d, &mut pts);
            }
        }
        // ring / shell of full orbits
        3 => {
            while pts.len() + orbit_len <= body {
                let d = [rng.range(0, 300), rng.range(0, 300), if dim == 3 { rng.range(0, 300) } else { 0 }];
                let m = norm2(&d);
                if m <= 300 * 300 && m >= 270 * 270 {
                    orbit(d, &mut pts);
                }
            }
        }
        // independent, identically distributed coordinates: isotropic only statistically
        _ => {
            for _ in 0..body {
                pts.push([rng.range(-500, 500), rng.range(-500, 500), if dim == 3 { rng.range(-500, 500) } else { 0 }]);
            }
        }
    }
    // fill up with points at the centre (they do not disturb the symmetry), then the off-centre ones
    while pts.len() < body {
        pts.push([0, 0, 0]);
    }
    for e in 0..extras {
        let mut p = [0i64; 3];
        p[e % dim] = 1 + e as i64;
        pts.push(p);
    }
    // translation: none, small, or large (shape 5: a far-away disc, the centroid then has few
    // fraction bits left)
    let tr: [i64; 3] = if shape == 5 {
        [100_003, -77_777, 31_337]
    } else {
        match (seed >> 4) % 3 {
            0 => [0, 0, 0],
            1 => [3, -2, 5],
            _ => [1000, 777, -333],
        }
    };
    for p in pts.iter_mut() {
        for k in 0..dim {
            p[k] += tr[k];
        }
    }
    if seed & 15 != 0 {
        Rng::new(seed ^ 0x0bde).shuffle(&mut pts);
    }
    pts
}

#[derive(Clone, PartialEq, Eq, Debug)]
enum FrameOut {
    /// matrix bits, digest of the rotated points
    Frame(Vec<u64>, u64),
    None,
    Panic(String),
}

impl FrameOut {
    fn digest(&self) -> String {
        match self {
            FrameOut::Frame(m, d) => format!("{:016x}", fnv(m.iter().cloned().chain(std::iter::once(*d)))),
            FrameOut::None => "none".into(),
            FrameOut::Panic(c) => format!("panic:{:08x}", fnv_str(c) as u32),
        }
    }
}

macro_rules! frame_full_dim {
    ($name:ident, $D:expr, $P:ty) => {
        fn $name(pts: &[[i64; 3]], threads: usize) -> FrameOut {
            let points: Vec<$P> = pts
                .iter()
                .map(|p| {
                    let mut q = <$P>::zeros();
                    for k in 0..$D {
                        q[k] = p[k] as f64;
                    }
                    q
                })
                .collect();
            match in_pool(threads, move || coupe::verif::geometry::obb_frame::<$D>(&points)) {
                Caught::Ok(Some((mapped, m))) => FrameOut::Frame(
                    m.iter().map(|x| x.to_bits()).collect(),
                    fnv(mapped.iter().flat_map(|p| p.iter().map(|x| x.to_bits()).collect::<Vec<_>>())),
                ),
                Caught::Ok(None) => FrameOut::None,
                Caught::Panic(m) => FrameOut::Panic(panic_sig(&m)),
                Caught::Hang => FrameOut::Panic("hang".into()),
            }
        }
    };
}

frame_full_dim!(frame_full_2d, 2, Point2D);
frame_full_dim!(frame_full_3d, 3, Point3D);

fn frame_full(pts: &[[i64; 3]], dim: usize, threads: usize) -> FrameOut {
    if dim == 2 {
        frame_full_2d(pts, threads)
    } else {
        frame_full_3d(pts, threads)
    }
}

/// Largest absolute difference between two frame matrices (`inf` when they are not comparable).
fn frame_distance(a: &FrameOut, b: &FrameOut) -> f64 {
    match (a, b) {
        (FrameOut::Frame(x, _), FrameOut::Frame(y, _)) if x.len() == y.len() => {
            x.iter().zip(y).map(|(p, q)| (f64::from_bits(*p) - f64::from_bits(*q)).abs()).fold(0.0, |m, d| if d > m || d.is_nan() { d } else { m })
        }
        _ => f64::INFINITY,
    }
}

/// The frame of `pts` depends on the pool (seen under `t_diff` threads): look for the failing
/// input of the PROPERTY – a cloud on which Rib / HilbertCurve / ZCurve ids differ between one
/// thread and several.  Whether an ulp in the inertia matrix changes an id depends on the order of
/// the points, so re-shuffles of the cloud are screened with the (cheap) frame first and the
/// partitioners are run on the orders whose frames differ.
fn find_id_flip(pts: &[[i64; 3]], dim: usize, t_diff: usize, seed: u64, max_shuffles: usize, secs: u64) -> (Option<String>, usize, usize) {
    let t0 = std::time::Instant::now();
    let pools: Vec<usize> = {
        let mut v = vec![t_diff, 16, 2, 4];
        v.dedup();
        v.retain(|t| *t > 1);
        v
    };
    let algos: [(&str, usize, usize); 3] = [("hilbert", 7, if dim == 2 { 16 } else { 12 }), ("zcurve", 7, if dim == 2 { 3 } else { 2 }), ("rib", 3, 0)];
    let mut screened = 0usize;
    let mut tried = 0usize;
    for s in 0..max_shuffles {
        if t0.elapsed().as_secs() >= secs {
            break;
        }
        let mut c = pts.to_vec();
        if s > 0 {
            Rng::new(seed.wrapping_mul(31).wrapping_add(s as u64) ^ 0x51f1e).shuffle(&mut c);
        }
        screened += 1;
        let f1 = frame_full(&c, dim, 1);
        let mut worst: Option<(usize, f64)> = None;
        for &p in &pools {
            let f = frame_full(&c, dim, p);
            if f != f1 {
                let d = frame_distance(&f1, &f);
                if worst.map(|w| d > w.1).unwrap_or(true) {
                    worst = Some((p, d));
                }
            }
        }
        // (even a last-bit difference of the matrix moves a point across a cell boundary now and
        // then, so every order whose frames differ is run through the partitioners, the most
        // sensitive one first, until the time is used up)
        let Some((p, d)) = worst else { continue };
        tried += 1;
        let cloud = Cloud { ws: vec![1; c.len()], exact_frame: false, pts: c, tie: None, scale: 0 };
        for (algo, p1, p2) in algos {
            let prm = Params { algo: algo.to_string(), p1, p2 };
            let reference = run_algo(&cloud, dim, &prm, 1);
            for &q in &[p, p, 16] {
                let o = run_algo(&cloud, dim, &prm, q);
                if o != reference {
                    let what = match (&reference, &o) {
                        (Outcome::Ids(a), Outcome::Ids(b)) => format!("{} of {} ids differ", a.iter().zip(b).filter(|(x, y)| x != y).count(), a.len()),
                        (a, b) => format!("outcome {} vs {}", a.digest(), b.digest()),
                    };
                    return (
                        Some(format!(
                            "{} ids under {} threads vs 1 thread: {} (points in {}; the OBB matrices of this order differ by {:e} between the pools)",
                            algo,
                            q,
                            what,
                            if s == 0 { "the order of the op".to_string() } else { format!("re-shuffle #{} of the op's cloud", s) },
                            d
                        )),
                        screened,
                        tried,
                    );
                }
            }
        }
    }
    (None, screened, tried)
}

fn op_frame(ctx: &mut Ctx, op: &str, t: &[&str]) {
    if t.len() != 6 {
        return bad(ctx, op);
    }
    let p = |i: usize| t[i].parse::<u64>().ok();
    let (Some(dim), Some(n), Some(seed), Some(shape)) = (p(1), p(2), p(3), p(4)) else {
        return bad(ctx, op);
    };
    if !(dim == 2 || dim == 3) || n > 400_000 || shape as usize >= FRAME_SHAPES {
        return bad(ctx, op);
    }
    let (dim, n, shape) = (dim as usize, n as usize, shape as usize);
    let pts = iso_cloud(dim, n, seed, shape);
    let exact = exact_frame(&pts, dim);
    let reference = frame_full(&pts, dim, 1);
    let digest = reference.digest();
    let pools = pool_sizes(ctx.quick());
    let reps = ctx.budget(2, 3);
    let mut first_diff: Option<(usize, usize, FrameOut)> = None;
    let mut ndiff = 0usize;
    let mut runs = 0usize;
    for &th in &pools {
        for rep in 0..reps {
            if th == 1 && rep == 0 {
                continue;
            }
            let f = frame_full(&pts, dim, th);
            runs += 1;
            if f != reference {
                ndiff += 1;
                if first_diff.is_none() {
                    first_diff = Some((th, rep, f));
                }
            }
        }
    }
    ctx.count("op:frame");
    ctx.count(&format!("frame:shape-{}", shape));
    ctx.count(&format!(
        "large:frame:{}",
        if n <= 16_384 { "<=4-blocks" } else if n < 32_768 { "5..8-blocks" } else if n < 100_000 { "9..24-blocks" } else { ">24-blocks" }
    ));
    ctx.count(if seed & 15 == 0 { "frame:order-construction" } else { "frame:order-shuffled" });
    ctx.count(if exact { "frame:input-exact" } else { "frame:input-inexact-centroid" });
    ctx.count(match &reference {
        FrameOut::Frame(m, _) => {
            if m.iter().all(|b| [0.0, 1.0, -1.0].contains(&f64::from_bits(*b))) {
                "frame:kind-axis-permutation"
            } else {
                "frame:kind-rotation"
            }
        }
        FrameOut::None => "frame:kind-none",
        FrameOut::Panic(_) => "frame:kind-panic",
    });
    let prefix = t[..5].join(" ");
    match first_diff {
        None => {
            ctx.count("frame:same");
            ctx.record(format!("{} {}", prefix, digest), format!("same {}", digest), n > 16_384 && !exact);
        }
        Some((th, rep, f)) => {
            ctx.count("frame:differs");
            let d = frame_distance(&reference, &f);
            let out = format!("differs@T={} rep={} runs={}/{} matrix-distance={:e} {}", th, rep, ndiff, runs, d, f.digest());
            let idx = ctx.record(format!("{} {}", prefix, digest), out, true);
            // the failing input of the property: ids that differ between pools (search bounded in
            // time, and abandoned once a few have been found in this run)
            let found = ctx.hist.get("oracle_fail:k6-obb-frame-depends-on-pool").copied().unwrap_or(0);
            if found < 3 {
                let (hit, screened, tried) = find_id_flip(&pts, dim, th, seed, if ctx.quick() { 400 } else { 1500 }, if ctx.quick() { 8 } else { 30 });
                ctx.count("frame:id-flip-searches");
                match hit {
                    Some(what) => ctx.fail(idx, "k6-obb-frame-depends-on-pool", what),
                    None => {
                        ctx.count("frame:id-flip-not-found");
                        ctx.notes.push(format!(
                            "frame differs under {} threads on `{}` but no id flip was found in {} orders ({} run through the partitioners)",
                            th, prefix, screened, tried
                        ));
                    }
                }
            }
        }
    }
}

// ------------------------------------------------------------------ data shared with the driver

/// `n` integers in `lo..=hi` from the harness PRNG seeded with `seed` (the Lean
/// driver has the same generator: `Driver/C06.lean: genInts`).
fn gen_ints(seed: u64, n: usize, lo: i64, hi: i64) -> Vec<i64> {
    let mut r = Rng::new(seed);
    (0..n).map(|_| r.range(lo, hi)).collect()
}

fn toks<'a>(op: &'a str) -> Vec<&'a str> {
    op.split_whitespace().collect()
}

fn bad(ctx: &mut Ctx, op: &str) {
    ctx.record(op.to_string(), "bad-op".into(), false);
}

pub fn run_op(ctx: &mut Ctx, op: &str) {
    if ctx.hang_limit_reached() {
        return;
    }
    let t = toks(op);
    match t.first().copied() {
        Some("part") => op_part(ctx, op, &t),
        Some("dual") => op_dual(ctx, op, &t),
        Some("parsum") => op_parsum(ctx, op, &t),
        Some("bbox") => op_bbox(ctx, op, &t),
        Some("rcbsplit") => op_rcbsplit(ctx, op, &t),
        Some("rcbsplits") => op_rcbsplit_scaled(ctx, op, &t),
        Some("mjsplit") => op_mjsplit(ctx, op, &t),
        Some("frame") => op_frame(ctx, op, &t),
        _ => bad(ctx, op),
    }
}

fn op_part(ctx: &mut Ctx, op: &str, t: &[&str]) {
    if t.len() != 11 {
        return bad(ctx, op);
    }
    let p = |i: usize| t[i].parse::<u64>().ok();
    let (Some(dim), Some(n), Some(shape), Some(wmode), Some(seed), Some(p1), Some(p2)) = (p(3), p(4), p(5), p(6), p(7), p(8), p(9)) else {
        return bad(ctx, op);
    };
    let algo = t[1].to_string();
    let stream = t[2].to_string();
    if !(dim == 2 || dim == 3)
        || !["rcb", "rcbf", "rib", "hilbert", "zcurve", "mj", "kmeans"].contains(&algo.as_str())
        || !(parse_stream(&stream).is_some() && (stream != "t" || algo == "rcb" || algo == "rcbf"))
        || n > 200_000
    {
        return bad(ctx, op);
    }
    let pools = pool_sizes(ctx.quick());
    let reps = budget_reps(ctx);
    let (a2, s2) = (algo.clone(), stream.clone());
    let res = catch_timeout(600, move || {
        part_case(a2, s2, dim as usize, n as usize, shape as usize, wmode as usize, seed, p1 as usize, p2 as usize, pools, reps)
    });
    let prefix = t[..10].join(" ");
    match res {
        Caught::Ok(r) => {
            ctx.count(&format!("algo:{}", algo));
            let skey = match parse_stream(&stream) {
                Some((b, e)) if e != 0 || stream.len() > 1 => format!("scaled-{}", b),
                _ => stream.clone(),
            };
            ctx.count(&format!("stream:{}:{}", skey, algo));
            ctx.count(&format!("dim:{}", dim));
            ctx.count(&format!("n:{}", if r.n < 4096 { "<4096" } else if r.n < 8192 { "4096..8191" } else { ">=8192" }));
            for c in &r.counts {
                ctx.count(c);
            }
            ctx.count(if r.out.starts_with("same") { "part:same" } else { "part:differs" });
            let idx = ctx.record(format!("{} {}", prefix, r.digest), r.out, r.n >= 1000);
            if let Some((sig, what)) = r.fail {
                ctx.fail(idx, &sig, what);
            }
        }
        Caught::Panic(m) => {
            let idx = ctx.record(format!("{} -", prefix), format!("harness-panic {}", m), false);
            ctx.fail(idx, "harness-panic", m);
        }
        Caught::Hang => {
            let idx = ctx.record(format!("{} -", prefix), "hang".into(), true);
            ctx.fail(idx, "hang", "no result within 600 s".into());
        }
    }
}

fn op_dual(ctx: &mut Ctx, op: &str, t: &[&str]) {
    if t.len() != 7 || !["tri", "quad", "mixed", "hex", "tet"].contains(&t[1]) {
        return bad(ctx, op);
    }
    let p = |i: usize| t[i].parse::<u64>().ok();
    let (Some(nx), Some(ny), Some(nz), Some(seed)) = (p(2), p(3), p(4), p(5)) else {
        return bad(ctx, op);
    };
    if nx == 0 || ny == 0 || nz == 0 || nx * ny * nz > 200_000 {
        return bad(ctx, op);
    }
    let mesh = build_grid_mesh(t[1], nx as usize, ny as usize, nz as usize, seed);
    let reference = dual_outcome(&mesh, 1);
    let digest = reference.digest();
    let mut diff = None;
    for &th in &pool_sizes(ctx.quick()) {
        for rep in 0..budget_reps(ctx) {
            let o = dual_outcome(&mesh, th);
            if o != reference && diff.is_none() {
                diff = Some((th, rep, o.digest()));
            }
        }
    }
    ctx.count(&format!("dual:{}", t[1]));
    let cells = match &reference {
        Outcome::Ids(v) => v[0],
        _ => 0,
    };
    let prefix = t[..6].join(" ");
    match diff {
        None => {
            ctx.count("dual:same");
            ctx.record(format!("{} {}", prefix, digest), format!("same {}", digest), cells >= 100);
        }
        Some((th, rep, d)) => {
            let idx = ctx.record(format!("{} {}", prefix, digest), format!("differs T={} rep={} {}", th, rep, d), true);
            ctx.fail(idx, "nondeterministic-dual-graph", format!("CSR arrays under {} threads (rep {}) differ from 1 thread", th, rep));
        }
    }
}

fn parse_data(t: &[&str]) -> Option<Vec<i64>> {
    match *t.first()? {
        "gen" if t.len() == 5 => {
            let seed: u64 = t[1].parse().ok()?;
            let n: usize = t[2].parse().ok()?;
            let lo: i64 = t[3].parse().ok()?;
            let hi: i64 = t[4].parse().ok()?;
            if n > 1_000_000 || lo > hi || lo < -(1 << 40) || hi > (1 << 40) {
                return None;
            }
            Some(gen_ints(seed, n, lo, hi))
        }
        "lit" => {
            let n: usize = t.get(1)?.parse().ok()?;
            if t.len() != n + 2 {
                return None;
            }
            t[2..].iter().map(|x| x.parse().ok()).collect()
        }
        _ => None,
    }
}

fn op_parsum(ctx: &mut Ctx, op: &str, t: &[&str]) {
    let Some(xs) = parse_data(&t[1..]) else {
        return bad(ctx, op);
    };
    // oracle: plain sequential loops
    let mut s = 0i64;
    let mut q = 0i64;
    let mut neg = 0usize;
    let mut mn = i64::MAX;
    let mut mx = i64::MIN;
    for &x in &xs {
        s += x;
        q += x * x;
        if x < 0 {
            neg += 1;
        }
        mn = mn.min(x);
        mx = mx.max(x);
    }
    let line = |s: i64, q: i64, neg: usize, mm: Option<(i64, i64)>, coll: bool| {
        format!(
            "sum {} sq {} neg {} {} collect {}",
            s,
            q,
            neg,
            match mm {
                Some((a, b)) => format!("min {} max {}", a, b),
                None => "min - max -".into(),
            },
            if coll { "ok" } else { "REORDERED" }
        )
    };
    // (an empty range still has one leaf, whose initial accumulator `reduce_with` returns)
    let expect = line(s, q, neg, Some((mn, mx)), true);
    let mut first_bad: Option<String> = None;
    let mut leaves_max = 0usize;
    let pools: &[usize] = if ctx.quick() { &[1, 2, 4, 16] } else { &[1, 2, 3, 4, 7, 8, 16] };
    for &th in pools {
        for max_len in [0usize, 1, 3, 64, 1000] {
            let xs = &xs;
            let r = in_pool(th, move || {
                macro_rules! it {
                    () => {{
                        let i = xs.par_iter();
                        // `with_max_len(m)` forces at least len/m leaves
                        i.with_max_len(if max_len == 0 { usize::MAX } else { max_len })
                    }};
                }
                let s1: i64 = it!().cloned().sum();
                // the number of leaves rayon really used is observed through the fold
                let (s2, leaves) = it!()
                    .fold(|| (0i64, 1usize), |a, x| (a.0 + *x, a.1))
                    .reduce(|| (0i64, 0usize), |a, b| (a.0 + b.0, a.1 + b.1));
                let q: i64 = it!().map(|x| x * x).sum();
                let neg = it!().filter(|x| **x < 0).count();
                let mm = it!()
                    .fold_with((i64::MAX, i64::MIN), |(lo, hi), v| (if *v < lo { *v } else { lo }, if hi < *v { *v } else { hi }))
                    .reduce_with(|a, b| (a.0.min(b.0), a.1.max(b.1)));
                let coll: Vec<i64> = it!().map(|x| x + 1).collect();
                let coll_ok = coll.iter().zip(xs.iter()).all(|(a, b)| *a == b + 1) && coll.len() == xs.len();
                (s1, s2, q, neg, mm, coll_ok, leaves)
            });
            match r {
                Caught::Ok((s1, s2, q, neg, mm, coll_ok, leaves)) => {
                    leaves_max = leaves_max.max(leaves);
                    let got = line(s1, q, neg, mm, coll_ok);
                    if (got != expect || s1 != s2) && first_bad.is_none() {
                        first_bad = Some(format!("T={} max_len={}: {} (fold/reduce sum {})", th, max_len, got, s2));
                    }
                }
                Caught::Panic(m) => {
                    if first_bad.is_none() {
                        first_bad = Some(format!("panic {}", m));
                    }
                }
                Caught::Hang => {}
            }
        }
    }
    ctx.count("op:parsum");
    ctx.count(if leaves_max > 1 { "parsum:rayon-split-observed" } else { "parsum:single-leaf-only" });
    match first_bad {
        None => {
            ctx.record(op.to_string(), expect, xs.len() >= 2);
        }
        Some(b) => {
            let idx = ctx.record(op.to_string(), format!("rayon-differs {}", b), true);
            ctx.fail(idx, "rayon-skeleton-schedule-dependent", b);
        }
    }
}

fn op_bbox(ctx: &mut Ctx, op: &str, t: &[&str]) {
    if t.len() != 6 {
        return bad(ctx, op);
    }
    let Some(dim) = t[1].parse::<usize>().ok().filter(|d| *d == 2 || *d == 3) else {
        return bad(ctx, op);
    };
    let Some(n) = t[3].parse::<usize>().ok() else {
        return bad(ctx, op);
    };
    let spec = ["gen", t[2], &(n * dim).to_string(), t[4], t[5]].iter().map(|s| s.to_string()).collect::<Vec<_>>();
    let spec_ref: Vec<&str> = spec.iter().map(|s| s.as_str()).collect();
    let Some(flat) = parse_data(&spec_ref) else {
        return bad(ctx, op);
    };
    // oracle
    let expect = if n == 0 {
        "bbox none".to_string()
    } else {
        let mut mn = vec![i64::MAX; dim];
        let mut mx = vec![i64::MIN; dim];
        for p in flat.chunks(dim) {
            for k in 0..dim {
                mn[k] = mn[k].min(p[k]);
                mx[k] = mx[k].max(p[k]);
            }
        }
        format!("bbox {} {}", join(&mn), join(&mx))
    };
    let mut first_bad = None;
    for &th in &pool_sizes(ctx.quick()) {
        for _ in 0..2 {
            let got = if dim == 2 {
                let pts: Vec<Point2D> = flat.chunks(2).map(|p| Point2D::new(p[0] as f64, p[1] as f64)).collect();
                in_pool(th, move || coupe::BoundingBox::<2>::from_points(pts.par_iter().cloned()).map(|b| (b.p_min.iter().cloned().collect::<Vec<f64>>(), b.p_max.iter().cloned().collect::<Vec<f64>>())))
            } else {
                let pts: Vec<Point3D> = flat.chunks(3).map(|p| Point3D::new(p[0] as f64, p[1] as f64, p[2] as f64)).collect();
                in_pool(th, move || coupe::BoundingBox::<3>::from_points(pts.par_iter().cloned()).map(|b| (b.p_min.iter().cloned().collect::<Vec<f64>>(), b.p_max.iter().cloned().collect::<Vec<f64>>())))
            };
            let line = match got {
                Caught::Ok(None) => "bbox none".to_string(),
                Caught::Ok(Some((a, b))) => {
                    let a: Vec<i64> = a.iter().map(|x| *x as i64).collect();
                    let b: Vec<i64> = b.iter().map(|x| *x as i64).collect();
                    format!("bbox {} {}", join(&a), join(&b))
                }
                Caught::Panic(m) => format!("panic {}", m),
                Caught::Hang => "hang".into(),
            };
            if line != expect && first_bad.is_none() {
                first_bad = Some(format!("T={}: {}", th, line));
            }
        }
    }
    ctx.count("op:bbox");
    match first_bad {
        None => {
            ctx.record(op.to_string(), expect, n >= 2);
        }
        Some(b) => {
            let idx = ctx.record(op.to_string(), format!("differs {}", b), true);
            ctx.fail(idx, "bbox-schedule-dependent", b);
        }
    }
}

/// `rcbsplits <e> …`: `rcbsplit …` at scale 2^e.
fn op_rcbsplit_scaled(ctx: &mut Ctx, op: &str, t: &[&str]) {
    if t.len() != 9 {
        return bad(ctx, op);
    }
    let Some(e) = t[1].parse::<i64>().ok().filter(|e| (-149..=100).contains(e)) else {
        return bad(ctx, op);
    };
    let mut u = vec![t[0]];
    u.extend_from_slice(&t[2..]);
    rcbsplit_at(ctx, op, &u, e as i32)
}

fn op_rcbsplit(ctx: &mut Ctx, op: &str, t: &[&str]) {
    rcbsplit_at(ctx, op, t, 0)
}

fn rcbsplit_at(ctx: &mut Ctx, op: &str, t: &[&str], e: i32) {
    if t.len() != 8 {
        return bad(ctx, op);
    }
    let scaled = t.len() == 8 && op.starts_with("rcbsplits");
    let unit = f64::powi(2.0, e);
    let pi = |i: usize| t[i].parse::<i64>().ok();
    let (Some(seed), Some(n), Some(lo), Some(hi), Some(wmax), Some(mn), Some(mx)) = (pi(1), pi(2), pi(3), pi(4), pi(5), pi(6), pi(7)) else {
        return bad(ctx, op);
    };
    if n < 0 || n > 1_000_000 || lo > hi || lo < -(1 << 20) || hi > (1 << 20) || wmax < 1 || wmax > 1_000_000 || mn > mx || mn < -(1 << 20) || mx > (1 << 20) {
        return bad(ctx, op);
    }
    // the targets min/2 + max/2 and min/2 + (that)/2 are exactly representable in f32: k * 2^e is a
    // multiple of 2^-149 with few significant bits iff k * 2^(e + 149) is an integer
    let exact_targets = e >= -147 || (mn % 4 == 0 && mx % 4 == 0);
    let coords = gen_ints(seed as u64, n as usize, lo, hi);
    let weights = gen_ints(seed as u64 ^ 0xabcdef, n as usize, 1, wmax);
    // oracle (independent of the model): one or two evaluations of the cut, on integers x4
    let c4: Vec<i64> = coords.iter().map(|c| 4 * c).collect();
    let t1 = 2 * (mn + mx);
    let t2 = 3 * mn + mx;
    let eval = |target4: i64| {
        let cnt = c4.iter().filter(|c| **c < target4).count();
        let w: i64 = c4.iter().zip(&weights).filter(|(c, _)| **c < target4).map(|(_, w)| *w).sum();
        let piv = c4.iter().filter(|c| **c >= target4).min().map(|c| c / 4);
        (cnt, w, piv)
    };
    let (cnt1, w1, piv1) = eval(t1);
    let (exp_split, exp_w, exp_piv, exp_pos4, iters) = if piv1.is_some() {
        (cnt1, w1, piv1, t1, 1)
    } else {
        let (cnt2, w2, piv2) = eval(t2);
        if piv2.is_some() {
            (cnt2, w2, piv2, t2, 2)
        } else {
            // all items left twice: everything goes left, weight = sum, split_pos = max = first target
            (n as usize, weights.iter().sum(), None, t1, 2)
        }
    };
    let expect = format!(
        "split {} {} {} pos4 {}",
        exp_split,
        exp_w,
        match exp_piv {
            Some(p) => p.to_string(),
            None => "none".into(),
        },
        exp_pos4
    );
    let mut first_bad = None;
    let mut lines_seen = std::collections::HashSet::new();
    let mut tie_variants = std::collections::HashSet::new();
    for &th in &pool_sizes(ctx.quick()) {
        for _ in 0..2 {
            // (e = 0: `unit` is 1 and these are the conversions `as f32` of the integers)
            let cf: Vec<f32> = coords.iter().map(|c| (*c as f64 * unit) as f32).collect();
            let wv = weights.clone();
            let (fmn, fmx) = ((mn as f64 * unit) as f32, (mx as f64 * unit) as f32);
            let r = in_pool(th, move || coupe::verif::rcb::par_rcb_split::<1>([cf], wv, 0, 1.0, fmn, fmx));
            let line = match r {
                Caught::Ok((ids, split, wl, pos)) => {
                    let left_ok = ids[..split].iter().all(|i| exp_piv.map(|p| coords[*i] < p).unwrap_or(true))
                        && ids[split..].iter().all(|i| exp_piv.map(|p| coords[*i] >= p).unwrap_or(false));
                    let mut sorted = ids.clone();
                    sorted.sort_unstable();
                    let perm_ok = sorted.iter().enumerate().all(|(i, x)| i == *x);
                    let piv = ids[split..].iter().map(|i| coords[*i]).min();
                    // which arrangement was produced (depends on the index of the pivot on ties)
                    tie_variants.insert(fnv(ids.iter().map(|x| *x as u64)));
                    format!(
                        "split {} {} {} pos4 {}{}",
                        split,
                        wl,
                        match piv {
                            Some(p) => p.to_string(),
                            None => "none".into(),
                        },
                        (pos as f64 / unit * 4.0) as i64,
                        if left_ok && perm_ok { "" } else { " BAD-SETS" }
                    )
                }
                Caught::Panic(m) => format!("panic {}", m),
                Caught::Hang => "hang".into(),
            };
            lines_seen.insert(line.clone());
            if line != expect && first_bad.is_none() {
                first_bad = Some(format!("T={}: {}", th, line));
            }
        }
    }
    ctx.count("op:rcbsplit");
    ctx.count(&format!("rcbsplit:iterations-{}", iters));
    ctx.count(if exp_piv.is_some() { "rcbsplit:pivot-found" } else { "rcbsplit:all-left" });
    if tie_variants.len() > 1 {
        ctx.count("rcbsplit:arrangement-differs-sets-equal");
    }
    if scaled {
        ctx.count("op:rcbsplits");
        ctx.count(&format!("rcbsplits:{}", if e <= -127 { "f32-subnormal" } else if e < -100 { "f32-tiny-normal" } else if e < 0 { "small" } else { "large" }));
        ctx.count(if exact_targets { "rcbsplits:targets-exact" } else { "rcbsplits:targets-round-not-judged" });
        if !exact_targets {
            // outside the contract (the targets round): all pools must still agree with each other
            if lines_seen.len() > 1 {
                let idx = ctx.record(op.to_string(), format!("differs-between-pools {}", lines_seen.len()), true);
                ctx.fail(idx, "rcb-split-schedule-dependent", format!("{} different results across pools at scale 2^{}", lines_seen.len(), e));
            } else {
                ctx.record(op.to_string(), "unjudged targets-round".into(), false);
            }
            return;
        }
    }
    match first_bad {
        None => {
            ctx.record(op.to_string(), expect, n >= 2);
        }
        Some(b) => {
            let idx = ctx.record(op.to_string(), format!("differs {} (expected {})", b, expect), true);
            if scaled && lines_seen.len() == 1 {
                // every pool computes the same cut, but not the cut of the exact computation: the
                // fold no longer is the modelled one (count of the points left of the target, nearest
                // point on its right) although every operand is exactly representable at this scale
                // All pools agree, so C06 itself ("same result for every thread count") is not violated on
                // this input: no oracle failure. The recorded line differs from the model's, which the check
                // reports as a broken correspondence (the cut search no longer is the modelled one).
                let _ = idx;
                ctx.count("rcbsplits:same-for-all-pools-but-not-the-exact-cut");
            } else {
                ctx.fail(idx, "rcb-split-schedule-dependent", b);
            }
        }
    }
}

fn op_mjsplit(ctx: &mut Ctx, op: &str, t: &[&str]) {
    if t.len() < 5 {
        return bad(ctx, op);
    }
    let (Some(seed), Some(n), Some(wmax), Some(k)) = (t[1].parse::<u64>().ok(), t[2].parse::<usize>().ok(), t[3].parse::<i64>().ok(), t[4].parse::<usize>().ok()) else {
        return bad(ctx, op);
    };
    if t.len() != 5 + 2 * k || k == 0 || k > 64 || n > 1_000_000 || wmax < 1 || wmax > 1_000_000 {
        return bad(ctx, op);
    }
    let mut mods = vec![];
    for i in 0..k {
        let (Some(a), Some(b)) = (t[5 + 2 * i].parse::<u32>().ok(), t[6 + 2 * i].parse::<u32>().ok()) else {
            return bad(ctx, op);
        };
        if b == 0 || a == 0 {
            return bad(ctx, op);
        }
        mods.push(a as f64 / b as f64);
    }
    let ws = gen_ints(seed, n, if wmax == 1 { 1 } else { 0 }, wmax);
    let wf: Vec<f64> = ws.iter().map(|w| *w as f64).collect();
    let perm: Vec<usize> = (0..n).collect();
    // oracle: first position whose inclusive prefix sum exceeds the threshold (the code's own
    // f64 thresholds, compared the way the final walk compares them)
    let total: f64 = wf.iter().sum();
    let mut consumed = 0.0f64;
    let mut expect = vec![];
    for m in &mods[..k - 1] {
        consumed += total * m;
        let thr = consumed;
        let mut sum = 0.0f64;
        let mut idx = 0usize;
        while idx < n {
            let v = sum + wf[idx];
            if v < thr || approx_ulps_eq(thr, v) {
                sum = v;
                idx += 1;
            } else {
                break;
            }
        }
        expect.push(idx);
    }
    let expect_line = format!("splits {}", join(&expect)).trim().to_string();
    let mut first_bad = None;
    for &th in &pool_sizes(ctx.quick()) {
        for _ in 0..2 {
            let (wf2, perm2, mods2) = (&wf, &perm, &mods);
            let r = in_pool(th, move || coupe::verif::multi_jagged::compute_split_positions(wf2, perm2, mods2));
            let line = match r {
                Caught::Ok(v) => format!("splits {}", join(&v)).trim().to_string(),
                Caught::Panic(m) => format!("panic {}", m),
                Caught::Hang => "hang".into(),
            };
            if line != expect_line && first_bad.is_none() {
                first_bad = Some(format!("T={}: {}", th, line));
            }
        }
    }
    ctx.count("op:mjsplit");
    match first_bad {
        None => {
            ctx.record(op.to_string(), expect_line, n >= 2 && k >= 2);
        }
        Some(b) => {
            let idx = ctx.record(op.to_string(), format!("differs {} (expected {})", b, expect_line), true);
            ctx.fail(idx, "mj-split-schedule-dependent", b);
        }
    }
}

/// `approx::Ulps::default().eq(a, b)` for f64 (epsilon = f64::EPSILON, 4 ulps), written out.
fn approx_ulps_eq(a: f64, b: f64) -> bool {
    if (a - b).abs() <= f64::EPSILON {
        return true;
    }
    if a.signum() != b.signum() {
        return false;
    }
    let (x, y) = (a.to_bits(), b.to_bits());
    if x <= y {
        y - x <= 4
    } else {
        x - y <= 4
    }
}
