//! C02 — Partition-improving algorithms keep a valid partition valid.
//!
//! All six improvers run through the public API on inputs inside the usage contract (valid
//! partition: every id 0..=max used; matching lengths; non-negative weights with positive total;
//! symmetric loop-free graphs with positive integer edge weights; two parts for FM / KL).
//!
//! ops (first token = algorithm; `threads` = rayon pool size):
//!  `vnbest|vnfirst <i64|u64|f64> <threads> <n> <w…> <m> <ids…>`                (tail = C14's op)
//!  `kl <threads> <max_passes|-> <max_flips|-> <max_bad> <wlen> <n> <ids…> <rows> {<deg> {<j> <w>}}`
//!                                                                                (tail = C15's op)
//!  `fm <threads> <wt:i|f> <max_imbalance: none|f64 hex> <max_bad> <max_passes: none|N>
//!      <max_moves: none|N> <rows> {<deg> {<j> <w>}} <m> <ids…> <l> <ws…>`       (tail = C07's op)
//!      recorded with ` => <ids> | <moves_per_pass> | <rewinded_moves_per_pass>` (HashSet order:
//!      on tie-sensitive cases the model searches a choice sequence giving that line)
//!  `arcswap <threads> <wt:i|f> <max_imbalance: none|f64 hex> <rows> {<deg> {<j> <w>}} <m> <ids…> <l> <ws…>`
//!      (threads = 1, i64 weights: compared exactly with C05's sequential model; else oracle only)
//!  `kmeans2|kmeans3 <threads> <imbalance_tol hex> <delta_threshold hex> <max_iter> <max_balance_iter>
//!      <erode 0|1> <mbr_early_break 0|1> <n> <ids…> <coords: n*D integers, value = t/16> <weights: n
//!      integers, value = t/4>`
//!      recorded with ` => ` + the sweeps reported by the k-means hook
//!      (`coupe::verif_hooks::set_kmeans_observer`): `S <k> <center_ids…> <nchg> {<point> <id>}…`
//!      = one assignment sweep (centre ids in the order used, entries that changed), `R <c>` = `c`
//!      further sweeps identical to the previous one (same order, nothing changed).
//!  A stale ` => …` suffix of a corpus line is ignored and recomputed.
//! out: `ok <ids>` | `err <error>` | `panic file:line: message` | `hang`

use crate::common::*;
use coupe::sprs::CsMat;
use coupe::Partition as _;
use std::sync::{Arc, Mutex};

type Rows = Vec<Vec<(usize, i64)>>;

#[derive(Clone, Debug)]
enum Case {
    Vn { best: bool, ty: String, threads: usize, ws: Vec<i64>, ids: Vec<usize> },
    Kl { threads: usize, mp: Option<usize>, mf: Option<usize>, mb: usize, wlen: usize, ids: Vec<usize>, rows: Rows },
    Fm {
        threads: usize,
        f64w: bool,
        mi: Option<f64>,
        mb: usize,
        mp: Option<usize>,
        mm: Option<usize>,
        rows: Rows,
        ids: Vec<usize>,
        ws: Vec<i64>,
    },
    ArcSwap { threads: usize, f64w: bool, mi: Option<f64>, rows: Rows, ids: Vec<usize>, ws: Vec<i64> },
    KMeans {
        dim: usize,
        threads: usize,
        tol: f64,
        delta: f64,
        max_iter: usize,
        max_balance_iter: usize,
        erode: bool,
        mbr: bool,
        ids: Vec<usize>,
        /// coordinates x 16, row-major
        coords: Vec<i64>,
        /// weights x 4
        ws: Vec<i64>,
    },
}

impl Case {
    fn algo(&self) -> &'static str {
        match self {
            Case::Vn { best: true, .. } => "vnbest",
            Case::Vn { best: false, .. } => "vnfirst",
            Case::Kl { .. } => "kl",
            Case::Fm { .. } => "fm",
            Case::ArcSwap { .. } => "arcswap",
            Case::KMeans { dim: 2, .. } => "kmeans2",
            Case::KMeans { .. } => "kmeans3",
        }
    }
    fn ids(&self) -> &[usize] {
        match self {
            Case::Vn { ids, .. }
            | Case::Kl { ids, .. }
            | Case::Fm { ids, .. }
            | Case::ArcSwap { ids, .. }
            | Case::KMeans { ids, .. } => ids,
        }
    }
}

// ------------------------------------------------------------------ protocol

fn opt_dash(x: Option<usize>) -> String {
    x.map(|v| v.to_string()).unwrap_or_else(|| "-".into())
}
fn opt_none(x: Option<usize>) -> String {
    x.map(|v| v.to_string()).unwrap_or_else(|| "none".into())
}
fn opt_hex(x: Option<f64>) -> String {
    x.map(|v| format!("{:x}", v.to_bits())).unwrap_or_else(|| "none".into())
}
fn push_rows(s: &mut String, rows: &Rows) {
    s.push_str(&format!(" {}", rows.len()));
    for r in rows {
        s.push_str(&format!(" {}", r.len()));
        for (j, w) in r {
            s.push_str(&format!(" {} {}", j, w));
        }
    }
}
fn push_list<T: std::fmt::Display>(s: &mut String, xs: &[T]) {
    s.push_str(&format!(" {}", xs.len()));
    for x in xs {
        s.push_str(&format!(" {}", x));
    }
}
fn list(xs: &[usize]) -> String {
    if xs.is_empty() {
        "-".into()
    } else {
        join(xs)
    }
}

fn format_op(c: &Case) -> String {
    let mut s = String::new();
    match c {
        Case::Vn { ty, threads, ws, ids, .. } => {
            s.push_str(&format!("{} {} {}", c.algo(), ty, threads));
            push_list(&mut s, ws);
            push_list(&mut s, ids);
        }
        Case::Kl { threads, mp, mf, mb, wlen, ids, rows } => {
            s.push_str(&format!("kl {} {} {} {} {}", threads, opt_dash(*mp), opt_dash(*mf), mb, wlen));
            push_list(&mut s, ids);
            push_rows(&mut s, rows);
        }
        Case::Fm { threads, f64w, mi, mb, mp, mm, rows, ids, ws } => {
            s.push_str(&format!(
                "fm {} {} {} {} {} {}",
                threads,
                if *f64w { "f" } else { "i" },
                opt_hex(*mi),
                mb,
                opt_none(*mp),
                opt_none(*mm)
            ));
            push_rows(&mut s, rows);
            push_list(&mut s, ids);
            push_list(&mut s, ws);
        }
        Case::ArcSwap { threads, f64w, mi, rows, ids, ws } => {
            s.push_str(&format!("arcswap {} {} {}", threads, if *f64w { "f" } else { "i" }, opt_hex(*mi)));
            push_rows(&mut s, rows);
            push_list(&mut s, ids);
            push_list(&mut s, ws);
        }
        Case::KMeans { threads, tol, delta, max_iter, max_balance_iter, erode, mbr, ids, coords, ws, .. } => {
            s.push_str(&format!(
                "{} {} {:x} {:x} {} {} {} {}",
                c.algo(),
                threads,
                tol.to_bits(),
                delta.to_bits(),
                max_iter,
                max_balance_iter,
                *erode as u8,
                *mbr as u8
            ));
            push_list(&mut s, ids);
            for x in coords {
                s.push_str(&format!(" {}", x));
            }
            for x in ws {
                s.push_str(&format!(" {}", x));
            }
        }
    }
    s
}

struct Toks<'a>(std::str::SplitWhitespace<'a>);
impl<'a> Toks<'a> {
    fn s(&mut self) -> Option<&'a str> {
        self.0.next()
    }
    fn u(&mut self) -> Option<usize> {
        self.s()?.parse().ok()
    }
    fn i(&mut self) -> Option<i64> {
        self.s()?.parse().ok()
    }
    fn opt(&mut self, none: &str) -> Option<Option<usize>> {
        let t = self.s()?;
        if t == none {
            Some(None)
        } else {
            t.parse().ok().map(Some)
        }
    }
    fn hex(&mut self) -> Option<f64> {
        Some(f64::from_bits(u64::from_str_radix(self.s()?, 16).ok()?))
    }
    fn opt_hex(&mut self) -> Option<Option<f64>> {
        let t = self.s()?;
        if t == "none" {
            Some(None)
        } else {
            Some(Some(f64::from_bits(u64::from_str_radix(t, 16).ok()?)))
        }
    }
    fn us(&mut self, n: usize) -> Option<Vec<usize>> {
        (0..n).map(|_| self.u()).collect()
    }
    fn is(&mut self, n: usize) -> Option<Vec<i64>> {
        (0..n).map(|_| self.i()).collect()
    }
    fn counted_us(&mut self) -> Option<Vec<usize>> {
        let n = self.u()?;
        if n > 1 << 20 {
            return None;
        }
        self.us(n)
    }
    fn counted_is(&mut self) -> Option<Vec<i64>> {
        let n = self.u()?;
        if n > 1 << 20 {
            return None;
        }
        self.is(n)
    }
    fn rows(&mut self) -> Option<Rows> {
        let n = self.u()?;
        if n > 1 << 16 {
            return None;
        }
        let mut rows = Vec::with_capacity(n);
        for _ in 0..n {
            let d = self.u()?;
            let mut r = Vec::new();
            for _ in 0..d {
                let j = self.u()?;
                let w = self.i()?;
                r.push((j, w));
            }
            rows.push(r);
        }
        // sprs invariants: square, indices in range, strictly ascending rows
        for r in &rows {
            for (k, (j, _)) in r.iter().enumerate() {
                if *j >= n || (k > 0 && r[k - 1].0 >= *j) {
                    return None;
                }
            }
        }
        Some(rows)
    }
    fn done(&mut self) -> Option<()> {
        if self.0.next().is_some() {
            None
        } else {
            Some(())
        }
    }
}

fn parse_op(op: &str) -> Option<Case> {
    let base = op.split("=>").next()?;
    let mut t = Toks(base.split_whitespace());
    let algo = t.s()?;
    let c = match algo {
        "vnbest" | "vnfirst" => {
            let ty = t.s()?.to_string();
            if !["i64", "u64", "f64"].contains(&ty.as_str()) {
                return None;
            }
            let threads = t.u()?;
            let ws = t.counted_is()?;
            let ids = t.counted_us()?;
            if ty == "u64" && ws.iter().any(|&w| w < 0) {
                return None;
            }
            Case::Vn { best: algo == "vnbest", ty, threads, ws, ids }
        }
        "kl" => {
            let threads = t.u()?;
            let mp = t.opt("-")?;
            let mf = t.opt("-")?;
            let mb = t.u()?;
            let wlen = t.u()?;
            let ids = t.counted_us()?;
            let rows = t.rows()?;
            if wlen > 1 << 20 {
                return None;
            }
            Case::Kl { threads, mp, mf, mb, wlen, ids, rows }
        }
        "fm" => {
            let threads = t.u()?;
            let f64w = match t.s()? {
                "f" => true,
                "i" => false,
                _ => return None,
            };
            let mi = t.opt_hex()?;
            let mb = t.u()?;
            let mp = t.opt("none")?;
            let mm = t.opt("none")?;
            let rows = t.rows()?;
            let ids = t.counted_us()?;
            let ws = t.counted_is()?;
            Case::Fm { threads, f64w, mi, mb, mp, mm, rows, ids, ws }
        }
        "arcswap" => {
            let threads = t.u()?;
            let f64w = match t.s()? {
                "f" => true,
                "i" => false,
                _ => return None,
            };
            let mi = t.opt_hex()?;
            let rows = t.rows()?;
            let ids = t.counted_us()?;
            let ws = t.counted_is()?;
            Case::ArcSwap { threads, f64w, mi, rows, ids, ws }
        }
        "kmeans2" | "kmeans3" => {
            let dim = if algo == "kmeans2" { 2 } else { 3 };
            let threads = t.u()?;
            let tol = t.hex()?;
            let delta = t.hex()?;
            let max_iter = t.u()?;
            let max_balance_iter = t.u()?;
            let erode = t.u()? != 0;
            let mbr = t.u()? != 0;
            let ids = t.counted_us()?;
            let coords = t.is(ids.len() * dim)?;
            let ws = t.is(ids.len())?;
            if max_iter > 100_000 || max_balance_iter > 1000 {
                return None;
            }
            Case::KMeans { dim, threads, tol, delta, max_iter, max_balance_iter, erode, mbr, ids, coords, ws }
        }
        _ => return None,
    };
    t.done()?;
    let threads = match &c {
        Case::Vn { threads, .. }
        | Case::Kl { threads, .. }
        | Case::Fm { threads, .. }
        | Case::ArcSwap { threads, .. }
        | Case::KMeans { threads, .. } => *threads,
    };
    if threads < 1 || threads > 16 {
        return None;
    }
    Some(c)
}

// ------------------------------------------------------------------ running the implementation

/// A rayon pool with roomy worker stacks (`balanced_k_means_iter` recurses `max_iter` deep and the
/// closure runs ON a worker).
fn pool(threads: usize) -> coupe::rayon::ThreadPool {
    coupe::rayon::ThreadPoolBuilder::new()
        .num_threads(threads)
        .stack_size(64 << 20)
        .build()
        .expect("pool")
}

fn csmat<T: Clone>(rows: &Rows, conv: impl Fn(i64) -> T) -> CsMat<T> {
    let n = rows.len();
    let mut indptr = vec![0usize];
    let mut indices = vec![];
    let mut data = vec![];
    for r in rows {
        for (j, w) in r {
            indices.push(*j);
            data.push(conv(*w));
        }
        indptr.push(indices.len());
    }
    CsMat::new((n, n), indptr, indices, data)
}

enum Ran {
    /// ids afterwards + FM metadata (moves, rewound)
    Ok(Vec<usize>, Option<(Vec<usize>, Vec<usize>)>),
    Err(String),
    Panic(String),
    Hang,
}

type Sweeps = Vec<(Vec<usize>, Vec<usize>)>;

fn err_name(e: &coupe::Error) -> String {
    match e {
        coupe::Error::InputLenMismatch { .. } => "lenmismatch".into(),
        coupe::Error::BiPartitioningOnly => "bionly".into(),
        coupe::Error::NegativeValues => "negative".into(),
        e => format!("{:?}", e).split_whitespace().collect::<Vec<_>>().join("_"),
    }
}

/// Runs the implementation on `c`.  With `reuse`, the SAME algorithm value is first used on another
/// input (same weights / graph / points, the id array reversed) and then on `c`; what is returned
/// (ids, metadata, recorded sweeps) belongs to the second call.
fn run_impl(c: &Case, reuse: bool) -> (Ran, Sweeps) {
    let c = c.clone();
    let rec: Arc<Mutex<Sweeps>> = Arc::new(Mutex::new(Vec::new()));
    let is_kmeans = matches!(c, Case::KMeans { .. });
    if is_kmeans {
        let rec2 = rec.clone();
        coupe::verif_hooks::set_kmeans_observer(Some(Box::new(move |a: &[usize], cids: &[usize]| {
            if let Ok(mut g) = rec2.lock() {
                if g.len() < 20_000 && g.len() * a.len() < 60_000_000 {
                    g.push((a.to_vec(), cids.to_vec()));
                }
            }
        })));
    }
    let rec3 = rec.clone();
    type R = (Result<Option<(Vec<usize>, Vec<usize>)>, String>, Vec<usize>);
    // `C02_WATCHDOG` only serves to tell a slow run from a hang when a finding is examined by hand
    let secs = std::env::var("C02_WATCHDOG").ok().and_then(|v| v.parse().ok()).unwrap_or(60u64);
    let res: Caught<R> = catch_timeout(secs, move || {
        let threads = match &c {
            Case::Vn { threads, .. }
            | Case::Kl { threads, .. }
            | Case::Fm { threads, .. }
            | Case::ArcSwap { threads, .. }
            | Case::KMeans { threads, .. } => *threads,
        };
        let p = pool(threads);
        p.install(move || -> R {
            // the warm-up input of a reuse case
            let mut ids_a: Vec<usize> = c.ids().iter().rev().copied().collect();
            let forget = || {
                if let Ok(mut g) = rec3.lock() {
                    g.clear();
                }
            };
            match c {
                Case::Vn { best, ty, ws, ids, .. } => {
                    let mut ids = ids;
                    let wu: Vec<u64> = ws.iter().map(|&x| x as u64).collect();
                    let wf: Vec<f64> = ws.iter().map(|&x| x as f64).collect();
                    let vb = coupe::VnBest;
                    let vf = coupe::VnFirst;
                    let mut call = |ids: &mut Vec<usize>| {
                        let (mut vb, mut vf) = (vb, vf);
                        match ty.as_str() {
                            "i64" => {
                                if best {
                                    vb.partition(ids, ws.iter().cloned())
                                } else {
                                    vf.partition(ids, &ws[..])
                                }
                            }
                            "u64" => {
                                if best {
                                    vb.partition(ids, wu.iter().cloned())
                                } else {
                                    vf.partition(ids, &wu[..])
                                }
                            }
                            _ => {
                                if best {
                                    vb.partition(ids, wf.iter().cloned())
                                } else {
                                    vf.partition(ids, &wf[..])
                                }
                            }
                        }
                    };
                    if reuse {
                        let _ = call(&mut ids_a);
                    }
                    let r = call(&mut ids);
                    (r.map(|_| None).map_err(|e| err_name(&e)), ids)
                }
                Case::Kl { mp, mf, mb, wlen, ids, rows, .. } => {
                    let mut ids = ids;
                    let mat: CsMat<f64> = csmat(&rows, |w| w as f64);
                    let weights = vec![1.0f64; wlen];
                    let mut kl = coupe::KernighanLin {
                        max_passes: mp,
                        max_flips_per_pass: mf,
                        max_imbalance_per_flip: None,
                        max_bad_move_in_a_row: mb,
                    };
                    if reuse {
                        let _ = kl.partition(&mut ids_a, (mat.view(), &weights[..]));
                    }
                    let r = kl.partition(&mut ids, (mat.view(), &weights[..]));
                    (r.map(|_| None).map_err(|e| format!("{:?}", e)), ids)
                }
                Case::Fm { f64w, mi, mb, mp, mm, rows, ids, ws, .. } => {
                    let mut ids = ids;
                    let mat: CsMat<i64> = csmat(&rows, |w| w);
                    let mut fm = coupe::FiducciaMattheyses {
                        max_imbalance: mi,
                        max_bad_move_in_a_row: mb,
                        max_passes: mp,
                        max_moves_per_pass: mm,
                    };
                    let wf: Vec<f64> = ws.iter().map(|&x| x as f64).collect();
                    let mut call = |ids: &mut Vec<usize>| {
                        if f64w {
                            fm.partition(ids, (mat.view(), &wf[..]))
                        } else {
                            fm.partition(ids, (mat.view(), &ws[..]))
                        }
                    };
                    if reuse {
                        let _ = call(&mut ids_a);
                    }
                    let r = call(&mut ids);
                    (
                        r.map(|md| Some((md.moves_per_pass.clone(), md.rewinded_moves_per_pass.clone())))
                            .map_err(|e| err_name(&e)),
                        ids,
                    )
                }
                Case::ArcSwap { f64w, mi, rows, ids, ws, .. } => {
                    let mut ids = ids;
                    let mat: CsMat<i64> = csmat(&rows, |w| w);
                    let mut a = coupe::ArcSwap { max_imbalance: mi };
                    let wf: Vec<f64> = ws.iter().map(|&x| x as f64).collect();
                    let mut call = |ids: &mut Vec<usize>| {
                        if f64w {
                            a.partition(ids, (mat.view(), &wf[..])).map(|_| ())
                        } else {
                            a.partition(ids, (mat.view(), &ws[..])).map(|_| ())
                        }
                    };
                    if reuse {
                        let _ = call(&mut ids_a);
                    }
                    let r = call(&mut ids);
                    (r.map(|_| None).map_err(|e| err_name(&e)), ids)
                }
                Case::KMeans { dim, tol, delta, max_iter, max_balance_iter, erode, mbr, ids, coords, ws, .. } => {
                    let mut ids = ids;
                    let w: Vec<f64> = ws.iter().map(|&x| x as f64 / 4.0).collect();
                    let mut km = coupe::KMeans {
                        imbalance_tol: tol,
                        delta_threshold: delta,
                        max_iter,
                        max_balance_iter,
                        erode,
                        hilbert: true,
                        mbr_early_break: mbr,
                    };
                    let x = |k: usize| coords[k] as f64 / 16.0;
                    if dim == 2 {
                        let pts: Vec<coupe::Point2D> =
                            (0..ids.len()).map(|i| coupe::Point2D::new(x(2 * i), x(2 * i + 1))).collect();
                        if reuse {
                            km.partition(&mut ids_a, (&pts[..], &w[..])).unwrap();
                            forget();
                        }
                        km.partition(&mut ids, (&pts[..], &w[..])).unwrap();
                    } else {
                        let pts: Vec<coupe::Point3D> = (0..ids.len())
                            .map(|i| coupe::Point3D::new(x(3 * i), x(3 * i + 1), x(3 * i + 2)))
                            .collect();
                        if reuse {
                            km.partition(&mut ids_a, (&pts[..], &w[..])).unwrap();
                            forget();
                        }
                        km.partition(&mut ids, (&pts[..], &w[..])).unwrap();
                    }
                    (Ok(None), ids)
                }
            }
        })
    });
    if is_kmeans {
        coupe::verif_hooks::set_kmeans_observer(None);
    }
    let sweeps = rec.lock().map(|mut g| std::mem::take(&mut *g)).unwrap_or_default();
    let ran = match res {
        Caught::Ok((Ok(md), ids)) => Ran::Ok(ids, md),
        Caught::Ok((Err(e), _)) => Ran::Err(e),
        // assert messages may span several lines; the protocol is line based
        Caught::Panic(m) => Ran::Panic(m.split_whitespace().collect::<Vec<_>>().join(" ")),
        Caught::Hang => Ran::Hang,
    };
    (ran, sweeps)
}

/// The recorded sweeps as protocol tokens (see the module comment).
fn encode_sweeps(ids0: &[usize], sweeps: &Sweeps) -> String {
    let mut s = String::new();
    let mut prev: Vec<usize> = ids0.to_vec();
    let mut prev_c: Option<&Vec<usize>> = None;
    let mut rep = 0usize;
    for (a, c) in sweeps {
        let chg: Vec<usize> = (0..a.len().max(prev.len())).filter(|&p| a.get(p) != prev.get(p)).collect();
        if chg.is_empty() && prev_c == Some(c) {
            rep += 1;
        } else {
            if rep > 0 {
                s.push_str(&format!(" R {}", rep));
                rep = 0;
            }
            s.push_str(&format!(" S {} {} {}", c.len(), join(c), chg.len()));
            for p in chg {
                // an entry beyond the array (cannot happen with a slice) would show as usize::MAX
                s.push_str(&format!(" {} {}", p, a.get(p).copied().unwrap_or(usize::MAX)));
            }
        }
        prev = a.clone();
        prev_c = Some(c);
    }
    if rep > 0 {
        s.push_str(&format!(" R {}", rep));
    }
    s.split_whitespace().collect::<Vec<_>>().join(" ")
}

// ------------------------------------------------------------------ contract + oracle

/// Is the input inside the property's quantifier? `Err(why)` if not.
fn contract(c: &Case) -> Result<(), &'static str> {
    let ids = c.ids();
    let n = ids.len();
    if n == 0 {
        return Err("empty");
    }
    let max = *ids.iter().max().unwrap();
    let mut used = vec![false; max.min(1 << 20) + 1];
    for &i in ids {
        if i < used.len() {
            used[i] = true;
        }
    }
    if max >= 1 << 20 || used.iter().any(|u| !u) {
        return Err("invalid-partition");
    }
    let graph_ok = |rows: &Rows| -> Result<(), &'static str> {
        if rows.len() != n {
            return Err("graph-size");
        }
        for (v, r) in rows.iter().enumerate() {
            for &(j, w) in r {
                if j == v {
                    return Err("self-loop");
                }
                if w <= 0 {
                    return Err("edge-weight");
                }
                if rows[j].iter().find(|(x, _)| *x == v).map(|(_, w2)| *w2) != Some(w) {
                    return Err("asymmetric");
                }
            }
        }
        Ok(())
    };
    let weights_ok = |ws: &[i64]| -> Result<(), &'static str> {
        if ws.len() != n {
            return Err("weights-len");
        }
        if ws.iter().any(|&w| w < 0) {
            return Err("negative-weight");
        }
        if ws.iter().map(|&w| w as i128).sum::<i128>() <= 0 {
            return Err("zero-total");
        }
        Ok(())
    };
    match c {
        Case::Vn { ws, .. } => weights_ok(ws),
        Case::Kl { wlen, rows, .. } => {
            if max != 1 {
                return Err("not-two-way");
            }
            if *wlen != n {
                return Err("weights-len");
            }
            graph_ok(rows)
        }
        Case::Fm { rows, ws, .. } => {
            if max != 1 {
                return Err("not-two-way");
            }
            weights_ok(ws)?;
            graph_ok(rows)
        }
        Case::ArcSwap { rows, ws, .. } => {
            weights_ok(ws)?;
            graph_ok(rows)
        }
        Case::KMeans { ws, tol, delta, .. } => {
            if tol.is_nan() || delta.is_nan() {
                return Err("nan-setting");
            }
            weights_ok(ws)
        }
    }
}

pub fn run_op(ctx: &mut Ctx, op: &str) {
    if ctx.hang_limit_reached() {
        return;
    }
    let op = op.trim();
    if op.starts_with("large ") {
        run_large(ctx, op);
        return;
    }
    let (reuse, rest) = match op.strip_prefix("reuse ") {
        Some(r) => (true, r),
        None => (false, op),
    };
    let Some(c) = parse_op(rest) else {
        ctx.record(op.to_string(), "bad-op".into(), false);
        return;
    };
    run_case_m(ctx, &c, None, reuse);
}

/// Runs one case; returns the implementation's id array when it returned `Ok`.
fn run_case(ctx: &mut Ctx, c: &Case) -> Option<Vec<usize>> {
    run_case_m(ctx, c, None, false)
}

/// At most 40 entries of an id array (messages stay short on large inputs).
fn show(ids: &[usize]) -> String {
    if ids.len() <= 40 {
        format!("{:?}", ids)
    } else {
        format!("{:?}… ({} entries)", &ids[..40], ids.len())
    }
}

fn fnv(ids: &[usize]) -> u64 {
    let mut h = 0xcbf2_9ce4_8422_2325u64;
    for &i in ids {
        h = (h ^ i as u64).wrapping_mul(0x1000_0000_01b3);
    }
    h
}

/// `label`: the op text to record instead of the expanded op (large recipe cases; the canonical
/// output is then a digest).  `reuse`: see `run_impl`; the result must not depend on the history of
/// the algorithm value (compared with a fresh value where the algorithm is deterministic).
fn run_case_m(ctx: &mut Ctx, c: &Case, label: Option<String>, reuse: bool) -> Option<Vec<usize>> {
    if ctx.hang_limit_reached() {
        return None;
    }
    let c = c.clone();
    let algo = c.algo();
    let mut large = label.is_some();
    let in_contract = contract(&c);
    let ids0 = c.ids().to_vec();
    let n = ids0.len();
    let max0 = ids0.iter().copied().max().unwrap_or(0);
    // which ids the input uses (ids beyond 2^20 are outside the contract anyway)
    let mut in_input = vec![false; max0.min(1 << 20) + 1];
    for &i in &ids0 {
        if i < in_input.len() {
            in_input[i] = true;
        }
    }
    let uses = |i: usize| i < in_input.len() && in_input[i];
    let (ran, sweeps) = run_impl(&c, reuse);
    if reuse {
        ctx.count(&format!("reuse:{}", algo));
    }
    if large {
        // a large case is recorded with its full op (and compared exactly with the Lean model) when
        // the compiled model runs it in a few seconds: VnFirst always (0.2 s at 70 001 elements),
        // VnBest when moves x n stays small (3 s at 20 001 elements and 93 moves), KMeans up to
        // 8193 points and 10 sweeps (2 s with 64 clusters); FM (tie search), KL (minutes at 2049
        // vertices) and ArcSwap (C05's seq op stops at 64 vertices) are oracle only
        let cheap = match (&c, &ran) {
            (Case::Vn { best: false, .. }, _) => true,
            (Case::Vn { best: true, .. }, Ran::Ok(ids, _)) => {
                ids.iter().zip(&ids0).filter(|(a, b)| a != b).count() * n <= 2_000_000
            }
            (Case::KMeans { .. }, Ran::Ok(..)) => n <= 8193 && sweeps.len() <= 10,
            (Case::Fm { .. } | Case::Kl { .. }, _) => n <= 12,
            (Case::ArcSwap { threads, .. }, _) => n <= 64 && *threads == 1,
            _ => false,
        };
        ctx.count(if cheap { "large:model:compared-exactly" } else { "large:model:skip(oracle only)" });
        if cheap {
            large = false;
        }
    }
    let base = match (&label, large) {
        (Some(l), true) => l.clone(),
        _ => format!("{}{}", if reuse { "reuse " } else { "" }, format_op(&c)),
    };
    let was_large = label.is_some();
    let mut verdict: Option<(String, String)> = None;
    let mut suffix = String::new();
    if let Case::KMeans { .. } = c {
        if !large {
            suffix = format!(" => {}", encode_sweeps(&ids0, &sweeps));
        }
        ctx.count(&format!(
            "kmeans:sweeps:{}",
            match sweeps.len() {
                0 => "0",
                1 => "1",
                2..=5 => "2-5",
                6..=50 => "6-50",
                _ => ">50",
            }
        ));
        // the K5 situation: after some sweep a centre id owns no point
        let emptied = sweeps.iter().any(|(a, cids)| {
            let mut seen = vec![false; max0 + 1];
            for &i in a {
                if i <= max0 {
                    seen[i] = true;
                }
            }
            cids.iter().any(|&cid| cid > max0 || !seen[cid])
        });
        ctx.count(if emptied { "kmeans:some-cluster-emptied" } else { "kmeans:no-cluster-emptied" });
        if was_large {
            ctx.count(if emptied { "large:kmeans:some-cluster-emptied" } else { "large:kmeans:no-cluster-emptied" });
            ctx.count(&format!("large:kmeans:sweeps:{}", sweeps.len().min(9)));
        }
    }
    let out = match &ran {
        Ran::Ok(ids, md) => {
            if let (Some((mv, rw)), false) = (md, large) {
                suffix = format!(" => {} | {} | {}", list(ids), list(mv), list(rw));
            }
            // ORACLE (independent of any model, O(n)): only relabelled, within the input's range
            if ids.len() != n {
                verdict = Some((format!("length-changed@{}", algo), format!("{} ids in, {} out", n, ids.len())));
            } else if let Some(p) = ids.iter().position(|&i| i > max0) {
                verdict = Some((
                    format!("id-out-of-range@{}", algo),
                    format!("element {} got id {} > largest input id {} (ids {})", p, ids[p], max0, show(ids)),
                ));
            } else if matches!(c, Case::Fm { .. } | Case::Kl { .. }) && ids.iter().any(|&i| !uses(i)) {
                verdict = Some((
                    format!("id-out-of-range@{}", algo),
                    format!("two-way algorithm wrote a label the input does not use: {} -> {}", show(&ids0), show(ids)),
                ));
            }
            if let Case::KMeans { .. } = c {
                // what the hook saw must explain the result: ids only ever drawn from the input's ids,
                // and the array returned is the array after the last sweep
                let last = sweeps.last().map(|(a, _)| a.as_slice()).unwrap_or(&ids0[..]);
                if last != &ids[..] && verdict.is_none() {
                    verdict = Some((
                        "kmeans-final-differs-from-last-sweep".into(),
                        format!("last sweep {}, returned {}", show(last), show(ids)),
                    ));
                }
                let mut s0 = ids0.clone();
                s0.sort();
                s0.dedup();
                for (k, (a, cids)) in sweeps.iter().enumerate() {
                    let bad_a = a.iter().any(|&i| !uses(i));
                    let mut s1 = cids.clone();
                    s1.sort();
                    if (bad_a || s1 != s0) && verdict.is_none() {
                        verdict = Some((
                            "kmeans-sweep-foreign-id".into(),
                            format!("sweep {}: assignments {}, center_ids {:?}, input {}", k, show(a), cids, show(&ids0)),
                        ));
                    }
                }
            }
            if reuse && verdict.is_none() {
                // same input => same output, whatever the algorithm value did before; compared with a
                // fresh value where the result is deterministic (FM: HashSet order; parallel f64 sums
                // of KMeans and free-running ArcSwap only in a single-worker pool)
                let deterministic = match &c {
                    Case::Vn { .. } | Case::Kl { .. } => true,
                    Case::Fm { .. } => false,
                    Case::ArcSwap { threads, .. } | Case::KMeans { threads, .. } => *threads == 1,
                };
                if deterministic {
                    ctx.count("reuse:compared-with-fresh-value");
                    match run_impl(&c, false).0 {
                        Ran::Ok(fresh, _) => {
                            if &fresh != ids {
                                let p = fresh.iter().zip(ids.iter()).position(|(a, b)| a != b).unwrap_or(0);
                                verdict = Some((
                                    format!("reuse-differs@{}", algo),
                                    format!(
                                        "second use of the same algorithm value gives {} but a fresh value gives {} (first difference at element {})",
                                        show(ids),
                                        show(&fresh),
                                        p
                                    ),
                                ));
                            }
                        }
                        _ => {
                            verdict = Some((
                                format!("reuse-differs@{}", algo),
                                "the fresh algorithm value did not return Ok".into(),
                            ));
                        }
                    }
                } else {
                    ctx.count("reuse:oracle-only(nondeterministic)");
                }
            }
            if ids != &ids0 {
                ctx.count(&format!("{}:changed", algo));
            } else {
                ctx.count(&format!("{}:unchanged", algo));
            }
            if large {
                let changed = ids.iter().zip(&ids0).filter(|(a, b)| a != b).count();
                format!("ok n={} changed={} fnv={:016x}", ids.len(), changed, fnv(ids))
            } else {
                format!("ok {}", join(ids)).trim_end().to_string()
            }
        }
        Ran::Err(e) => {
            verdict = Some((format!("unexpected-error@{}", algo), format!("Err({}) on an input inside the contract", e)));
            format!("err {}", e)
        }
        Ran::Panic(m) => {
            verdict = Some((panic_sig(m), format!("{} [{}]", m, algo)));
            format!("panic {}", m)
        }
        Ran::Hang => {
            verdict = Some((format!("hang@{}", algo), "watchdog (60 s)".into()));
            "hang".to_string()
        }
    };
    match &in_contract {
        Ok(()) => ctx.count(&format!("{}:in-contract", algo)),
        Err(w) => {
            ctx.count(&format!("{}:outside-contract:{}", algo, w));
            // outside the quantifier the property claims nothing (errors and the documented
            // panics are legitimate); a hang is still reported
            if !matches!(ran, Ran::Hang) {
                verdict = None;
            }
        }
    }
    let nontrivial = in_contract.is_ok() && n >= 2 && max0 >= 1;
    let idx = ctx.record(format!("{}{}", base, suffix), out, nontrivial);
    if let Some((sig, what)) = verdict {
        ctx.fail(idx, &sig, what);
    }
    match ran {
        Ran::Ok(ids, _) => Some(ids),
        _ => None,
    }
}

// ------------------------------------------------------------------ large / corner recipes

/// `large <algo> <threads> <n> <k> <order> <variant> <reuse 0|1> <seed>`: a case described by its
/// recipe (the op line stays short; the expansion below is deterministic in the line's fields).
///  order   `blocked` (ids ascending, k equal blocks) | `runs` (ascending runs of 4096 ids – shorter
///          when n < 4096 k – cycling through the parts) | `random`
///  variant selects weights / graph / point set / settings (see `expand_large`)
fn run_large(ctx: &mut Ctx, op: &str) {
    let t: Vec<&str> = op.split_whitespace().collect();
    let parsed = (|| {
        if t.len() != 9 {
            return None;
        }
        let algo = t[1];
        let threads: usize = t[2].parse().ok()?;
        let n: usize = t[3].parse().ok()?;
        let k: usize = t[4].parse().ok()?;
        let order = t[5];
        let variant: usize = t[6].parse().ok()?;
        let reuse = match t[7] {
            "0" => false,
            "1" => true,
            _ => return None,
        };
        let seed: u64 = t[8].parse().ok()?;
        if threads < 1 || threads > 16 || n < 2 || n > 400_000 || k < 2 || k > n || k > 4096 {
            return None;
        }
        Some((expand_large(algo, threads, n, k, order, variant, seed)?, reuse))
    })();
    let Some((c, reuse)) = parsed else {
        ctx.record(op.to_string(), "bad-op".into(), false);
        return;
    };
    let n = c.ids().len();
    ctx.count(&format!(
        "large:{}",
        match n {
            0..=4096 => "n<=4096",
            4097..=8192 => "4097..8192",
            8193..=16384 => "8193..16384",
            16385..=65536 => "16385..65536",
            _ => ">65536",
        }
    ));
    ctx.count(&format!("large:{}:{}", c.algo(), t[5]));
    ctx.count(&format!("large:threads:{}", t[2]));
    if t[4].parse::<usize>().map(|k| k >= 63).unwrap_or(false) {
        ctx.count(&format!("corner:parts:{}", t[4]));
    }
    let t0 = std::time::Instant::now();
    // `C02_EXPAND=1` records the expanded op instead of the recipe (to time the model by hand)
    let label = if std::env::var("C02_EXPAND").is_ok() { None } else { Some(op.to_string()) };
    run_case_m(ctx, &c, label, reuse);
    if std::env::var("C02_TIMES").is_ok() {
        eprintln!("{:6.2}s {}", t0.elapsed().as_secs_f64(), op);
    }
    if t0.elapsed().as_secs() >= 10 {
        ctx.count("large:slower-than-10s");
    }
}

fn large_ids(rng: &mut Rng, n: usize, k: usize, order: &str) -> Option<Vec<usize>> {
    let mut ids: Vec<usize> = match order {
        "blocked" => (0..n).map(|i| i * k / n).collect(),
        "runs" => {
            let mut r = 4096usize;
            while r > 1 && r * k > n {
                r /= 2;
            }
            (0..n).map(|i| (i / r) % k).collect()
        }
        "random" => (0..n).map(|_| rng.usize(k)).collect(),
        _ => return None,
    };
    // every id is used (a no-op except for tiny n / random order)
    let mut cnt = vec![0usize; k];
    for &i in &ids {
        cnt[i] += 1;
    }
    for p in 0..k {
        if cnt[p] == 0 {
            let q = (0..n).find(|&q| cnt[ids[q]] >= 2)?;
            cnt[ids[q]] -= 1;
            ids[q] = p;
            cnt[p] = 1;
        }
    }
    Some(ids)
}

/// weights: 0 unit | 1 random 0..=1000 | 2 huge (total just below 2^61 for the integer types, just
/// below 2^53 for f64 – sums still exact / without overflow) | 3 many zeros
fn large_weights(rng: &mut Rng, n: usize, shape: usize, f64w: bool) -> Vec<i64> {
    match shape % 4 {
        0 => vec![1; n],
        1 => (0..n).map(|_| rng.range(0, 1000)).collect(),
        2 => {
            let top: i64 = if f64w { 1 << 52 } else { 1 << 60 };
            let each = top / n as i64;
            (0..n).map(|_| each - rng.range(0, 1000)).collect()
        }
        _ => (0..n).map(|_| if rng.chance(1, 4) { rng.range(1, 9) } else { 0 }).collect(),
    }
}

/// graph: 0 grid numbered row by row, rows of 4096 vertices (64 when n < 8192), last row partial
///        | 1 path + one random chord per vertex (edge weights 1..=3)
fn large_graph(rng: &mut Rng, n: usize, shape: usize) -> Rows {
    let mut rows: Rows = vec![vec![]; n];
    let mut add = |rows: &mut Rows, u: usize, v: usize, w: i64| {
        if u != v && !rows[u].iter().any(|(x, _)| *x == v) {
            rows[u].push((v, w));
            rows[v].push((u, w));
        }
    };
    if shape % 2 == 0 {
        let b = if n >= 8192 { 4096 } else { 64 };
        for v in 0..n {
            if (v + 1) % b != 0 && v + 1 < n {
                add(&mut rows, v, v + 1, 1);
            }
            if v + b < n {
                add(&mut rows, v, v + b, 1);
            }
        }
    } else {
        for v in 1..n {
            let w = rng.range(1, 3);
            add(&mut rows, v, v - 1, w);
            let u = rng.usize(n);
            let w = rng.range(1, 3);
            add(&mut rows, v, u, w);
        }
    }
    for r in rows.iter_mut() {
        r.sort();
    }
    rows
}

fn expand_large(algo: &str, threads: usize, n: usize, k: usize, order: &str, variant: usize, seed: u64) -> Option<Case> {
    let mut rng = Rng::new(seed ^ 0xC02_1A26E);
    let ids = large_ids(&mut rng, n, k, order)?;
    let v = variant;
    Some(match algo {
        "vnbest" | "vnfirst" => {
            let ty = ["i64", "u64", "f64"][(v / 4) % 3];
            let ws = large_weights(&mut rng, n, v, ty == "f64");
            Case::Vn { best: algo == "vnbest", ty: ty.into(), threads, ws, ids }
        }
        "kl" => {
            if k != 2 {
                return None;
            }
            let rows = large_graph(&mut rng, n, v);
            Case::Kl {
                threads,
                mp: Some(1 + (v / 2) % 2),
                mf: if (v / 4) % 2 == 0 { None } else { Some(100) },
                mb: 1,
                wlen: n,
                ids,
                rows,
            }
        }
        "fm" => {
            if k != 2 {
                return None;
            }
            let rows = large_graph(&mut rng, n, v);
            let f64w = (v / 8) % 2 == 1;
            let ws = large_weights(&mut rng, n, v / 2, f64w);
            Case::Fm {
                threads,
                f64w,
                mi: if (v / 16) % 2 == 0 { None } else { Some(0.1) },
                mb: if (v / 32) % 2 == 0 { 1 } else { 50 },
                mp: Some(1 + (v / 64) % 2),
                mm: None,
                rows,
                ids,
                ws,
            }
        }
        "arcswap" => {
            let rows = large_graph(&mut rng, n, v);
            let f64w = (v / 8) % 2 == 1;
            let ws = large_weights(&mut rng, n, v / 2, f64w);
            Case::ArcSwap { threads, f64w, mi: if (v / 16) % 2 == 0 { None } else { Some(0.1) }, rows, ids, ws }
        }
        "kmeans2" | "kmeans3" => {
            let dim = if algo == "kmeans2" { 2 } else { 3 };
            let mut coords = Vec::with_capacity(n * dim);
            match v % 3 {
                0 => {
                    // concentric rings around the origin, ring = the point's own part: every centre
                    // is (nearly) the origin, so whole clusters lose all their points in a sweep
                    for (i, &p) in ids.iter().enumerate() {
                        let r = 100.0 * (p + 1) as f64;
                        let a = i as f64 * 2.399963229728653; // golden angle
                        coords.push((r * a.cos() * 16.0).round() as i64);
                        coords.push((r * a.sin() * 16.0).round() as i64);
                        if dim == 3 {
                            coords.push(0);
                        }
                    }
                }
                1 => {
                    for _ in 0..n * dim {
                        coords.push(rng.range(0, 1 << 20));
                    }
                }
                _ => {
                    // lattice numbered row by row, rows of 4096 points
                    for i in 0..n as i64 {
                        coords.push((i % 4096) * 16);
                        coords.push((i / 4096) * 16);
                        if dim == 3 {
                            coords.push(((i * 7) % 5) * 16);
                        }
                    }
                }
            }
            let ws = large_weights(&mut rng, n, if (v / 3) % 2 == 0 { 0 } else { 1 }, true);
            Case::KMeans {
                dim,
                threads,
                // the balance loop never meets its tolerance: every sweep of max_balance_iter runs
                tol: if (v / 6) % 2 == 0 { 0.0 } else { 1e-9 },
                delta: 0.0,
                max_iter: (v / 12) % 2,
                max_balance_iter: [3usize, 1, 5][(v / 24) % 3],
                erode: false, // max_distance is quadratic in the cluster size
                mbr: (v / 72) % 2 == 1,
                ids,
                coords,
                ws,
            }
        }
        _ => return None,
    })
}

fn with_ids(c: &Case, new_ids: Vec<usize>) -> Case {
    let mut c = c.clone();
    match &mut c {
        Case::Vn { ids, .. }
        | Case::Kl { ids, .. }
        | Case::Fm { ids, .. }
        | Case::ArcSwap { ids, .. }
        | Case::KMeans { ids, .. } => *ids = new_ids,
    }
    c
}

/// Runs a generated case and, one time in four, runs the algorithm again on its own output
/// (a locally optimal input) when that output is still inside the contract.
fn run_gen(ctx: &mut Ctx, c: Case) {
    let out = run_case(ctx, &c);
    if ctx.rng.chance(1, 4) {
        if let Some(ids) = out {
            let c2 = with_ids(&c, ids);
            if contract(&c2).is_ok() {
                ctx.count(&format!("stream:rerun-on-own-output:{}", c2.algo()));
                run_case(ctx, &c2);
            }
        }
    }
}

// ------------------------------------------------------------------ generator

type Edges = Vec<(usize, usize, i64)>;

fn rows_of(n: usize, edges: &Edges) -> Rows {
    let mut rows: Rows = vec![vec![]; n];
    for &(u, v, w) in edges {
        if u != v && !rows[u].iter().any(|(x, _)| *x == v) {
            rows[u].push((v, w));
            rows[v].push((u, w));
        }
    }
    for r in rows.iter_mut() {
        r.sort();
    }
    rows
}

/// A symmetric loop-free graph on exactly `n` vertices with positive integer edge weights.
fn gen_graph(ctx: &mut Ctx, n: usize) -> (Rows, &'static str) {
    // expected degree stays below ~12 on large inputs (debug build, instrumented atomics)
    let cap = |den: u64| -> u64 { if n > 60 { den.min(1200 / n as u64) } else { den } };
    let wmode = ctx.rng.usize(3);
    let ew = |rng: &mut Rng| match wmode {
        0 => 1,
        1 => rng.range(1, 3),
        _ => rng.range(1, 1000),
    };
    let mut edges: Edges = vec![];
    let shape = match ctx.rng.usize(8) {
        0 | 1 => {
            let den = cap(*ctx.rng.pick(&[15u64, 30, 60]));
            for u in 0..n {
                for v in 0..u {
                    if ctx.rng.chance(den, 100) {
                        edges.push((u, v, ew(&mut ctx.rng)));
                    }
                }
            }
            "random"
        }
        2 | 3 => {
            // rows of width b (the last one may be shorter)
            let b = 1 + ctx.rng.usize(n.min(6));
            for v in 0..n {
                if (v + 1) % b != 0 && v + 1 < n {
                    edges.push((v, v + 1, ew(&mut ctx.rng)));
                }
                if v + b < n {
                    edges.push((v, v + b, ew(&mut ctx.rng)));
                }
            }
            "grid"
        }
        4 => {
            let n1 = 1 + ctx.rng.usize(n - 1);
            for u in 0..n {
                for v in 0..u {
                    if (u < n1) == (v < n1) && ctx.rng.chance(cap(50), 100) {
                        edges.push((u, v, ew(&mut ctx.rng)));
                    }
                }
            }
            "disconnected"
        }
        5 => {
            let live: Vec<bool> = (0..n).map(|_| ctx.rng.chance(60, 100)).collect();
            for u in 0..n {
                for v in 0..u {
                    if live[u] && live[v] && ctx.rng.chance(cap(40), 100) {
                        edges.push((u, v, ew(&mut ctx.rng)));
                    }
                }
            }
            "isolated"
        }
        6 => {
            let kind = ctx.rng.usize(3);
            for u in 1..n {
                match kind {
                    0 => edges.push((u, u - 1, ew(&mut ctx.rng))),
                    1 => edges.push((u, 0, ew(&mut ctx.rng))),
                    _ => {
                        edges.push((u, u - 1, ew(&mut ctx.rng)));
                        if u == n - 1 && n > 2 {
                            edges.push((u, 0, ew(&mut ctx.rng)));
                        }
                    }
                }
            }
            "path-star-cycle"
        }
        _ => {
            if n <= 8 {
                for u in 0..n {
                    for v in 0..u {
                        edges.push((u, v, ew(&mut ctx.rng)));
                    }
                }
                "complete"
            } else {
                "edgeless"
            }
        }
    };
    (rows_of(n, &edges), shape)
}

/// A valid partition of `n ≥ k` elements into exactly `k` parts.
fn gen_valid_ids(ctx: &mut Ctx, n: usize, k: usize) -> (Vec<usize>, &'static str) {
    let (mut ids, name): (Vec<usize>, &'static str) = match ctx.rng.usize(6) {
        0 => {
            // one big part, all others of size 1
            let big = ctx.rng.usize(k);
            let mut v = vec![big; n];
            let mut pos: Vec<usize> = (0..n).collect();
            ctx.rng.shuffle(&mut pos);
            let mut q = 0;
            for p in 0..k {
                if p != big {
                    v[pos[q]] = p;
                    q += 1;
                }
            }
            (v, "ids:singletons")
        }
        1 => ((0..n).map(|i| i * k / n).collect(), "ids:blocks"),
        2 => ((0..n).map(|i| i % k).collect(), "ids:interleaved"),
        3 => ((0..n).map(|i| k - 1 - i * k / n).collect(), "ids:blocks-reversed"),
        _ => ((0..n).map(|_| ctx.rng.usize(k)).collect(), "ids:random"),
    };
    // repair: every id must be used
    for p in 0..k {
        if !ids.contains(&p) {
            // take an element from a part that has at least two
            let mut cand: Vec<usize> =
                (0..n).filter(|&i| ids.iter().filter(|&&x| x == ids[i]).count() >= 2).collect();
            ctx.rng.shuffle(&mut cand);
            ids[cand[0]] = p;
        }
    }
    (ids, name)
}

fn gen_weights(ctx: &mut Ctx, n: usize) -> (Vec<i64>, &'static str) {
    let (mut w, name): (Vec<i64>, &'static str) = match ctx.rng.usize(6) {
        0 => (vec![1; n], "w:unit"),
        1 => ((0..n).map(|_| ctx.rng.range(1, 9)).collect(), "w:small"),
        2 => ((0..n).map(|_| ctx.rng.range(0, 2)).collect(), "w:zeros"),
        3 => {
            let mut w: Vec<i64> = (0..n).map(|_| ctx.rng.range(0, 5)).collect();
            let k = ctx.rng.usize(n);
            w[k] = ctx.rng.range(50, 500);
            (w, "w:dominant")
        }
        4 => ((0..n).map(|_| ctx.rng.range(0, 1_000_000)).collect(), "w:wide"),
        _ => {
            // all zero but one
            let mut w = vec![0; n];
            let k = ctx.rng.usize(n);
            w[k] = ctx.rng.range(1, 9);
            (w, "w:single-nonzero")
        }
    };
    if w.iter().all(|&x| x == 0) {
        w[0] = 1;
    }
    (w, name)
}

const CAPS: [Option<f64>; 4] = [None, Some(0.0), Some(0.1), Some(1.0)];

fn cap_name(mi: Option<f64>) -> String {
    match mi {
        None => "None".into(),
        Some(x) => format!("{}", x),
    }
}

fn threads_of(ctx: &mut Ctx) -> usize {
    *ctx.rng.pick(&[1usize, 4])
}

fn gen_vn(ctx: &mut Ctx, best: bool) -> Case {
    let k = 2 + ctx.rng.usize(7);
    let span = if ctx.rng.chance(1, 4) { 2 } else { 24 };
    let n = k + ctx.rng.usize(span);
    let (ids, im) = gen_valid_ids(ctx, n, k);
    let (ws, wm) = gen_weights(ctx, n);
    let ty = *ctx.rng.pick(&["i64", "u64", "f64"]);
    let a = if best { "vnbest" } else { "vnfirst" };
    ctx.count(&format!("{}:{}", a, im));
    ctx.count(&format!("{}:{}", a, wm));
    ctx.count(&format!("{}:parts:{}", a, k));
    Case::Vn { best, ty: ty.into(), threads: threads_of(ctx), ws, ids }
}

fn lim(ctx: &mut Ctx, n: usize) -> Option<usize> {
    match ctx.rng.usize(6) {
        0 | 1 => None,
        2 => Some(0),
        3 => Some(1),
        4 => Some(n),
        _ => Some(1 + ctx.rng.usize(4)),
    }
}

fn gen_kl(ctx: &mut Ctx) -> Case {
    let n = 2 + ctx.rng.usize(if ctx.quick() { 11 } else { 15 });
    let (ids, im) = gen_valid_ids(ctx, n, 2);
    let (rows, shape) = gen_graph(ctx, n);
    let mp = lim(ctx, n);
    let mf = lim(ctx, n);
    let mb = *ctx.rng.pick(&[0usize, 1, 1, 2, 5]);
    ctx.count(&format!("kl:{}", im));
    ctx.count(&format!("kl:graph:{}", shape));
    ctx.count(&format!("kl:max_passes:{}", opt_none(mp.map(|x| x.min(2)))));
    ctx.count(&format!("kl:max_flips:{}", opt_none(mf.map(|x| x.min(2)))));
    Case::Kl { threads: threads_of(ctx), mp, mf, mb, wlen: n, ids, rows }
}

fn gen_fm(ctx: &mut Ctx) -> Case {
    let n = 2 + ctx.rng.usize(if ctx.quick() { 9 } else { 12 });
    let (ids, im) = gen_valid_ids(ctx, n, 2);
    let (rows, shape) = gen_graph(ctx, n);
    let (ws, wm) = gen_weights(ctx, n);
    let mi = *ctx.rng.pick(&CAPS);
    let mb = *ctx.rng.pick(&[0usize, 1, 2, 5, usize::MAX]);
    let mp = lim(ctx, n);
    let mm = lim(ctx, n);
    ctx.count(&format!("fm:{}", im));
    ctx.count(&format!("fm:graph:{}", shape));
    ctx.count(&format!("fm:{}", wm));
    ctx.count(&format!("fm:max_imbalance:{}", cap_name(mi)));
    ctx.count(&format!("fm:max_passes:{}", opt_none(mp.map(|x| x.min(2)))));
    ctx.count(&format!("fm:max_moves:{}", opt_none(mm.map(|x| x.min(2)))));
    Case::Fm { threads: threads_of(ctx), f64w: ctx.rng.chance(1, 3), mi, mb, mp, mm, rows, ids, ws }
}

fn gen_arcswap(ctx: &mut Ctx, large: bool) -> Case {
    let k = 2 + ctx.rng.usize(7);
    let span = if ctx.rng.chance(1, 4) { 2 } else { 40 };
    let n = if large { 100 + ctx.rng.usize(200) } else { k + ctx.rng.usize(span) };
    let (ids, im) = gen_valid_ids(ctx, n, k);
    let (rows, shape) = gen_graph(ctx, n);
    let (ws, wm) = gen_weights(ctx, n);
    let mi = *ctx.rng.pick(&CAPS);
    ctx.count(&format!("arcswap:{}", im));
    ctx.count(&format!("arcswap:graph:{}", shape));
    ctx.count(&format!("arcswap:{}", wm));
    ctx.count(&format!("arcswap:max_imbalance:{}", cap_name(mi)));
    ctx.count(&format!("arcswap:parts:{}", k));
    let threads = threads_of(ctx);
    // single-worker i64 runs are compared exactly with C05's sequential model
    let f64w = if threads == 1 { ctx.rng.chance(1, 6) } else { ctx.rng.chance(1, 3) };
    ctx.count(&format!("arcswap:threads:{}:{}", threads, if f64w { "f64" } else { "i64" }));
    Case::ArcSwap { threads, f64w, mi, rows, ids, ws }
}

fn gen_kmeans(ctx: &mut Ctx, large: bool) -> Case {
    let dim = 2 + ctx.rng.usize(2);
    let k = 2 + ctx.rng.usize(7);
    let span = if ctx.rng.chance(1, 4) { 2 } else { 40 };
    let n = if large { 300 + ctx.rng.usize(300) } else { k + ctx.rng.usize(span) };
    let (ids, im) = gen_valid_ids(ctx, n, k);
    let (pm, coords): (&str, Vec<i64>) = match ctx.rng.usize(7) {
        0 => ("pts:uniform", (0..n * dim).map(|_| ctx.rng.range(0, 1023)).collect()),
        1 => {
            // k' blobs
            let kb = 1 + ctx.rng.usize(k + 1);
            let cs: Vec<i64> = (0..kb * dim).map(|_| ctx.rng.range(0, 2000)).collect();
            let mut v = vec![];
            for _ in 0..n {
                let b = ctx.rng.usize(kb);
                for d in 0..dim {
                    v.push(cs[b * dim + d] + ctx.rng.range(-40, 40));
                }
            }
            ("pts:blobs", v)
        }
        2 => {
            // on a line (axis parallel or oblique)
            let dir: Vec<i64> = (0..dim).map(|_| ctx.rng.range(-2, 2)).collect();
            let mut v = vec![];
            for _ in 0..n {
                let t = ctx.rng.range(0, 60);
                for d in 0..dim {
                    v.push(t * dir[d] * 16);
                }
            }
            ("pts:collinear", v)
        }
        3 => {
            let p: Vec<i64> = (0..dim).map(|_| ctx.rng.range(-50, 50)).collect();
            ("pts:identical", (0..n * dim).map(|i| p[i % dim]).collect())
        }
        4 => {
            // few distinct positions, many duplicates (the K5 shape)
            let m = 1 + ctx.rng.usize(3);
            let ps: Vec<i64> = (0..m * dim).map(|_| ctx.rng.range(0, 4) * 32).collect();
            let mut v = vec![];
            for _ in 0..n {
                let b = ctx.rng.usize(m);
                for d in 0..dim {
                    v.push(ps[b * dim + d]);
                }
            }
            ("pts:duplicates", v)
        }
        5 => {
            // integer lattice
            let b = 1 + ctx.rng.usize(6) as i64;
            let mut v = vec![];
            for i in 0..n as i64 {
                v.push((i % b) * 16);
                v.push((i / b) * 16);
                if dim == 3 {
                    v.push(0);
                }
            }
            ("pts:lattice", v)
        }
        _ => ("pts:wide", (0..n * dim).map(|_| ctx.rng.range(-1_000_000_000, 1_000_000_000)).collect()),
    };
    let (ws, wm) = gen_weights(ctx, n);
    let max_iter = if large { *ctx.rng.pick(&[5usize, 50]) } else { *ctx.rng.pick(&[0usize, 1, 5, 5, 500]) };
    let max_balance_iter = 1 + ctx.rng.usize(3);
    let tol = *ctx.rng.pick(&[0.0f64, 0.5, 5.0, 1e9]);
    let delta = *ctx.rng.pick(&[0.0f64, 0.01, 1.0, 1e9]);
    let erode = ctx.rng.chance(1, 3);
    let mbr = ctx.rng.chance(1, 3);
    let a = if dim == 2 { "kmeans2" } else { "kmeans3" };
    ctx.count(&format!("{}:{}", a, im));
    ctx.count(&format!("{}:{}", a, pm));
    ctx.count(&format!("{}:{}", a, wm));
    ctx.count(&format!("{}:parts:{}", a, k));
    ctx.count(&format!("kmeans:max_iter:{}", max_iter));
    ctx.count(&format!("kmeans:max_balance_iter:{}", max_balance_iter));
    ctx.count(&format!("kmeans:erode:{}", erode));
    ctx.count(&format!("kmeans:mbr_early_break:{}", mbr));
    Case::KMeans {
        dim,
        threads: threads_of(ctx),
        tol,
        delta,
        max_iter,
        max_balance_iter,
        erode,
        mbr,
        ids,
        coords,
        ws,
    }
}

/// All valid partitions of `n` elements with exactly `k` parts (ids 0..k all used).
fn all_valid_ids(n: usize, k: usize) -> Vec<Vec<usize>> {
    let mut out = vec![];
    let total = k.pow(n as u32);
    for code in 0..total {
        let mut c = code;
        let v: Vec<usize> = (0..n)
            .map(|_| {
                let d = c % k;
                c /= k;
                d
            })
            .collect();
        if (0..k).all(|p| v.contains(&p)) {
            out.push(v);
        }
    }
    out
}

pub fn generate(ctx: &mut Ctx) {
    // (1) exhaustive small sub-spaces -------------------------------------------------------
    // KMeans: every valid 2- and 3-part partition of up to 5 (quick) / 6 points placed on a fixed
    // pattern with a duplicated position, two settings
    let pattern: [(i64, i64); 6] = [(0, 0), (0, 0), (32, 0), (32, 0), (16, 48), (80, 16)];
    let nmax = ctx.budget(5, 6);
    for n in 2..=nmax {
        for k in 2..=3usize.min(n) {
            for ids in all_valid_ids(n, k) {
                for (max_iter, mbi, erode) in [(5usize, 1usize, false), (1, 2, true)] {
                    let c = Case::KMeans {
                        dim: 2,
                        threads: 1,
                        tol: 0.0,
                        delta: 0.0,
                        max_iter,
                        max_balance_iter: mbi,
                        erode,
                        mbr: false,
                        ids: ids.clone(),
                        coords: pattern[..n].iter().flat_map(|&(x, y)| [x, y]).collect(),
                        ws: vec![4; n],
                    };
                    ctx.count("stream:exhaustive-kmeans");
                    run_op(ctx, &format_op(&c));
                }
            }
        }
    }
    // two-way algorithms: every valid two-way partition of the path and the cycle on 2..=6 vertices
    for n in 2..=ctx.budget(5, 6) {
        for cyc in [false, true] {
            let mut edges: Edges = (1..n).map(|u| (u, u - 1, 1)).collect();
            if cyc && n > 2 {
                edges.push((n - 1, 0, 2));
            }
            let rows = rows_of(n, &edges);
            for ids in all_valid_ids(n, 2) {
                for (mp, mf, mb) in [(None, None, 1usize), (Some(1), Some(0), 0)] {
                    ctx.count("stream:exhaustive-twoway");
                    run_op(ctx, &format_op(&Case::Kl { threads: 1, mp, mf, mb, wlen: n, ids: ids.clone(), rows: rows.clone() }));
                    run_op(
                        ctx,
                        &format_op(&Case::Fm {
                            threads: 1,
                            f64w: false,
                            mi: if mb == 0 { Some(0.0) } else { None },
                            mb,
                            mp,
                            mm: mf,
                            rows: rows.clone(),
                            ids: ids.clone(),
                            ws: (1..=n as i64).collect(),
                        }),
                    );
                }
                ctx.count("stream:exhaustive-arcswap");
                run_op(
                    ctx,
                    &format_op(&Case::ArcSwap {
                        threads: 1,
                        f64w: false,
                        mi: None,
                        rows: rows.clone(),
                        ids: ids.clone(),
                        ws: vec![1; n],
                    }),
                );
            }
        }
    }
    ctx.notes.push(format!(
        "exhaustive sub-spaces: KMeans on every valid 2-/3-part partition of 2..={} points (fixed pattern with \
         duplicated positions) x 2 settings; KL, FM (2 settings each) and ArcSwap on every valid two-way partition \
         of the path and the cycle with 2..={} vertices",
        nmax,
        ctx.budget(5, 6)
    ));
    // (2) random, valid inputs, all six ------------------------------------------------------
    let per = ctx.budget(2500, 20000);
    for _ in 0..per {
        let c = gen_vn(ctx, true);
        run_gen(ctx, c);
        let c = gen_vn(ctx, false);
        run_gen(ctx, c);
        let c = gen_kl(ctx);
        run_gen(ctx, c);
        let c = gen_fm(ctx);
        run_gen(ctx, c);
        let c = gen_arcswap(ctx, false);
        run_gen(ctx, c);
        let c = gen_kmeans(ctx, false);
        run_gen(ctx, c);
    }
    // (2b) larger inputs for the two parallel algorithms (real concurrency in ArcSwap, many sweeps
    //      and emptied clusters in KMeans)
    for _ in 0..ctx.budget(12, 150) {
        ctx.count("stream:large");
        let c = gen_arcswap(ctx, true);
        run_op(ctx, &format_op(&c));
        let c = gen_kmeans(ctx, true);
        run_op(ctx, &format_op(&c));
    }
    // (2c) LARGE / CORNER / REUSE stream: size-gated and corner-gated code paths ---------------
    large_stream(ctx);
    // (3) a small stream outside the contract (the models' abort paths; no oracle) -----------
    for _ in 0..ctx.budget(20, 200) {
        // KMeans on a partition with an unused id
        if let Case::KMeans { dim, threads, tol, delta, max_iter, max_balance_iter, erode, mbr, mut ids, coords, ws } =
            gen_kmeans(ctx, false)
        {
            let m = *ids.iter().max().unwrap();
            let hole = ctx.rng.usize(m);
            for i in ids.iter_mut() {
                if *i == hole {
                    *i = m;
                }
            }
            run_op(
                ctx,
                &format_op(&Case::KMeans { dim, threads, tol, delta, max_iter, max_balance_iter, erode, mbr, ids, coords, ws }),
            );
        }
        // three labels for the two-way algorithms
        if let Case::Kl { threads, mp, mf, mb, wlen, mut ids, rows } = gen_kl(ctx) {
            if ids.len() >= 3 {
                let p = ctx.rng.usize(ids.len());
                ids[p] = 2;
                if ids.contains(&0) && ids.contains(&1) {
                    run_op(ctx, &format_op(&Case::Kl { threads, mp, mf, mb, wlen, ids, rows }));
                }
            }
        }
        if let Case::Fm { threads, f64w, mi, mb, mp, mm, rows, mut ids, ws } = gen_fm(ctx) {
            let p = ctx.rng.usize(ids.len());
            ids[p] = 2;
            run_op(ctx, &format_op(&Case::Fm { threads, f64w, mi, mb, mp, mm, rows, ids, ws }));
        }
    }
}


fn large_op(algo: &str, threads: usize, n: usize, k: usize, order: &str, variant: usize, reuse: bool, seed: u64) -> String {
    format!("large {} {} {} {} {} {} {} {}", algo, threads, n, k, order, variant, reuse as u8, seed)
}

/// Sizes just above the usual block thresholds and far above them, none a multiple of a power of
/// two; pools 1/2/3/16; ids in blocks, in block-aligned runs of 4096 and in random order; 2..8 and 64
/// parts; part-count corners; huge weights; reuse of one algorithm value for two calls.
fn large_stream(ctx: &mut Ctx) {
    const ORDERS: [&str; 3] = ["blocked", "runs", "random"];
    const POOLS: [usize; 4] = [1, 2, 3, 16];
    // --- fixed handful for every run (quick: these only) ---
    let s0 = ctx.rng.below(1 << 40);
    let v = ctx.rng.usize(1 << 12);
    let core: Vec<String> = vec![
        large_op("vnbest", 16, 20001, 8, "random", v, false, s0 + 1),
        large_op("vnbest", 3, 8193, 64, "runs", 6, true, s0 + 2),
        large_op("vnfirst", 2, 70001, 5, "random", v / 3, false, s0 + 3),
        large_op("vnfirst", 16, 8193, 64, "blocked", 2, true, s0 + 4),
        // concentric rings, 64 clusters, max_iter 0, three balance sweeps that never meet the tolerance
        large_op("kmeans2", 2, 20001, 64, "blocked", 0, false, s0 + 5),
        large_op("kmeans3", 16, 8193, 5, "runs", 14, false, s0 + 6),
        large_op("kmeans2", 1, 8193, 7, "random", 12, true, s0 + 7),
        large_op("fm", 1, 8193, 2, "runs", 2 * (v % 64), false, s0 + 8),
        large_op("fm", 3, 20001, 2, "random", 1 + 2 * (v % 32), false, s0 + 9),
        large_op("arcswap", 3, 20001, 8, "runs", 2 * (v % 16), false, s0 + 10),
        large_op("arcswap", 16, 4097, 64, "random", 1, false, s0 + 11),
        large_op("arcswap", 1, 4097, 2, "blocked", 3, true, s0 + 12),
        // KernighanLin is quadratic (n/2 flips per pass, each a scan of all vertices): 4097 here,
        // 8193 / 20 001 in the thorough tier are the largest feasible sizes
        large_op("kl", 2, 4097, 2, "random", 1, false, s0 + 13),
        large_op("kl", 1, 2049, 2, "runs", 0, true, s0 + 14),
        // thousands of parts / part-count corners on mid-size inputs
        large_op("vnbest", 2, 8193, 3000, "random", 1, false, s0 + 15),
        large_op("kmeans2", 2, 4097, 257, "random", 1, false, s0 + 16),
        large_op("arcswap", 2, 2049, 256, "random", 1, false, s0 + 17),
    ];
    for op in &core {
        run_op(ctx, op);
    }
    // --- part-count corners and huge weights on small inputs (models compared where they exist) ---
    for &k in &[63usize, 64, 65, 128, 255, 256, 257] {
        let n = k + ctx.rng.usize(40);
        let s = ctx.rng.below(1 << 40);
        let v = ctx.rng.usize(1 << 12);
        let o = *ctx.rng.pick(&ORDERS);
        let t = *ctx.rng.pick(&POOLS);
        run_op(ctx, &large_op("vnbest", t, n, k, o, v, false, s));
        run_op(ctx, &large_op("vnfirst", t, n, k, o, v, false, s + 1));
        run_op(ctx, &large_op(if v % 2 == 0 { "kmeans2" } else { "kmeans3" }, t, n + 13, k, o, v, false, s + 2));
        run_op(ctx, &large_op("arcswap", t, n + 50, k, o, v, false, s + 3));
    }
    for &(n, k) in &[(2usize, 2usize), (3, 2), (3, 3), (17, 3), (50, 8)] {
        for v in [2usize, 6, 10] {
            // v % 4 = 2: totals just below 2^60 (i64, u64) / 2^52 (f64)
            ctx.count("corner:huge-weights");
            let s = ctx.rng.below(1 << 40);
            run_op(ctx, &large_op("vnbest", 1, n, k, "random", v, false, s));
            run_op(ctx, &large_op("vnfirst", 2, n, k, "blocked", v, false, s + 1));
        }
        ctx.count("corner:huge-weights");
        let s = ctx.rng.below(1 << 40);
        // FM / ArcSwap: weights shape = (variant / 2) % 4
        run_op(ctx, &large_op("fm", 1, n.max(2), 2, "random", 4, false, s));
        run_op(ctx, &large_op("fm", 1, n.max(2), 2, "random", 4 + 8, false, s + 1));
        run_op(ctx, &large_op("arcswap", 1, n, k, "random", 4, false, s + 2));
    }
    // --- reuse of one algorithm value for two calls, small inputs, all six ---
    for i in 0..ctx.budget(120, 2400) {
        let c = match i % 6 {
            0 => gen_vn(ctx, true),
            1 => gen_vn(ctx, false),
            2 => gen_kl(ctx),
            3 => gen_fm(ctx),
            4 => gen_arcswap(ctx, false),
            _ => gen_kmeans(ctx, false),
        };
        run_case_m(ctx, &c, None, true);
    }
    if ctx.quick() {
        ctx.notes.push(
            "large/corner stream (quick): 17 recipe cases with 2049..70001 elements (KL: 4097, quadratic) + 28 \
             part-count corners + 30 huge-weight corners + 120 reuse cases"
                .into(),
        );
        return;
    }
    // --- thorough: more sizes, up to 140 003 elements ---
    let sizes_fast: [usize; 8] = [4097, 8193, 16422, 20001, 65548, 70001, 131077, 140003];
    let ks: [usize; 8] = [2, 3, 5, 7, 8, 64, 64, 6];
    for algo in ["vnbest", "vnfirst", "kmeans2", "kmeans3"] {
        for i in 0..12 {
            let n = sizes_fast[(i + ctx.rng.usize(2)) % 8];
            let k = *ctx.rng.pick(&ks);
            let op = large_op(
                algo,
                *ctx.rng.pick(&POOLS),
                n,
                k,
                ORDERS[i % 3],
                ctx.rng.usize(1 << 12),
                i % 5 == 4 && n <= 20001,
                ctx.rng.below(1 << 40),
            );
            run_op(ctx, &op);
        }
    }
    // FM: the harness build has debug assertions on, and FM then recomputes the edge cut after every
    // move (quadratic): 1.5-4 s at 20 001 vertices, 17-29 s at 30 011, up to 90 s at 70 001 – so
    // 24 001 is the largest size used
    for (i, &n) in [4097usize, 8193, 12301, 16422, 20001, 20001, 20001, 24001].iter().enumerate() {
        let op = large_op("fm", POOLS[i % 4], n, 2, ORDERS[i % 3], ctx.rng.usize(1 << 12), i == 1, ctx.rng.below(1 << 40));
        run_op(ctx, &op);
    }
    // ArcSwap: the row-numbered grid is fast at every size; the random sparse graph with many parts
    // takes ~7 s at 20 001 vertices, so it stops there
    for (i, &n) in [4097usize, 8193, 16422, 20001, 65548, 70001, 131077, 140003].iter().enumerate() {
        // the cost grows with the part count (one gain per target part): 64 parts take 12 s at
        // 70 001 and 36 s at 140 003 vertices, so above 30 000 vertices at most 8 parts
        let k = if n > 30000 { *ctx.rng.pick(&[2usize, 3, 5, 7, 8]) } else { *ctx.rng.pick(&ks) };
        let op = large_op("arcswap", POOLS[i % 4], n, k, ORDERS[i % 3], 2 * ctx.rng.usize(1 << 11), false, ctx.rng.below(1 << 40));
        run_op(ctx, &op);
    }
    for (i, &n) in [4097usize, 8193, 16422, 20001].iter().enumerate() {
        let k = *ctx.rng.pick(&ks);
        let op = large_op(
            "arcswap",
            POOLS[(i + 1) % 4],
            n,
            k,
            ORDERS[(i + 1) % 3],
            1 + 2 * ctx.rng.usize(1 << 11),
            i == 0,
            ctx.rng.below(1 << 40),
        );
        run_op(ctx, &op);
    }
    // KL: quadratic – 8193 (~2 s) and once 20 001 (max_passes 1)
    for (i, &n) in [4097usize, 8193, 8193, 16422, 20001].iter().enumerate() {
        let v = if n > 10000 { 4 * ctx.rng.usize(8) + (i % 2) } else { ctx.rng.usize(64) };
        let op = large_op("kl", POOLS[i % 4], n, 2, ORDERS[i % 3], v, i == 0, ctx.rng.below(1 << 40));
        run_op(ctx, &op);
    }
    // thousands of parts
    for (algo, n, k) in [("vnbest", 20001usize, 4096usize), ("vnfirst", 70001, 4096), ("kmeans2", 8193, 2000), ("arcswap", 8193, 1000)] {
        ctx.count("corner:thousands-of-parts");
        let op = large_op(algo, *ctx.rng.pick(&POOLS), n, k, "random", ctx.rng.usize(1 << 12), false, ctx.rng.below(1 << 40));
        run_op(ctx, &op);
    }
    ctx.notes.push(
        "large/corner stream (thorough): the quick stream + 48 Vn/KMeans cases with 4097..140003 elements, 8 FM \
         (to 24001: quadratic with debug assertions), 12 ArcSwap (grid to 140003, random sparse to 20001), 5 KL (to 20001: quadratic), 4 cases \
         with 1000..4096 parts, 2400 reuse cases"
            .into(),
    );
}
