//! C02 — Partition-improving algorithms keep a valid partition valid.
//!
//! All six improvers run through the public API on inputs inside the usage contract (valid
//! partition: every id 0..=max used; matching lengths; non-negative weights with positive total;
//! symmetric loop-free graphs with positive integer edge weights; two parts for FM / KL).
//!
//! ops (first token = algorithm; `threads` = rayon pool size):
//!  `vnbest|vnfirst <i64|u64|f64> <threads> <n> <w…> <m> <ids…>`                (tail = C14's op)
//!  `kl <threads> <max_passes|-> <max_flips|-> <max_bad> <wlen> <n> <ids…> <rows> {<deg> {<j> <w>}}`
//!                                                                                (tail = C15's op)
//!  `fm <threads> <wt:i|f> <max_imbalance: none|f64 hex> <max_bad> <max_passes: none|N>
//!      <max_moves: none|N> <rows> {<deg> {<j> <w>}} <m> <ids…> <l> <ws…>`       (tail = C07's op)
//!      recorded with ` => <ids> | <moves_per_pass> | <rewinded_moves_per_pass>` (HashSet order:
//!      on tie-sensitive cases the model searches a choice sequence giving that line)
//!  `arcswap <threads> <wt:i|f> <max_imbalance: none|f64 hex> <rows> {<deg> {<j> <w>}} <m> <ids…> <l> <ws…>`
//!      (threads = 1, i64 weights: compared exactly with C05's sequential model; else oracle only)
//!  `kmeans2|kmeans3 <threads> <imbalance_tol hex> <delta_threshold hex> <max_iter> <max_balance_iter>
//!      <erode 0|1> <mbr_early_break 0|1> <n> <ids…> <coords: n*D integers, value = t/16> <weights: n
//!      integers, value = t/4>`
//!      recorded with ` => ` + the sweeps reported by the k-means hook
//!      (`coupe::verif_hooks::set_kmeans_observer`): `S <k> <center_ids…> <nchg> {<point> <id>}…`
//!      = one assignment sweep (centre ids in the order used, entries that changed), `R <c>` = `c`
//!      further sweeps identical to the previous one (same order, nothing changed).
//!  A stale ` => …` suffix of a corpus line is ignored and recomputed.
//! out: `ok <ids>` | `err <error>` | `panic file:line: message` | `hang`

use crate::common::*;
use coupe::sprs::CsMat;
use coupe::Partition as _;
use std::sync::{Arc, Mutex};

type Rows = Vec<Vec<(usize, i64)>>;

#[derive(Clone, Debug)]
enum Case {
    Vn { best: bool, ty: String, threads: usize, ws: Vec<i64>, ids: Vec<usize> },
    Kl { threads: usize, mp: Option<usize>, mf: Option<usize>, mb: usize, wlen: usize, ids: Vec<usize>, rows: Rows },
    Fm {
        threads: usize,
        f64w: bool,
        mi: Option<f64>,
        mb: usize,
        mp: Option<usize>,
        mm: Option<usize>,
        rows: Rows,
        ids: Vec<usize>,
        ws: Vec<i64>,
    },
    ArcSwap { threads: usize, f64w: bool, mi: Option<f64>, rows: Rows, ids: Vec<usize>, ws: Vec<i64> },
    KMeans {
        dim: usize,
        threads: usize,
        tol: f64,
        delta: f64,
        max_iter: usize,
        max_balance_iter: usize,
        erode: bool,
        mbr: bool,
        ids: Vec<usize>,
        /// coordinates x 16, row-major
        coords: Vec<i64>,
        /// weights x 4
        ws: Vec<i64>,
    },
}

impl Case {
    fn algo(&self) -> &'static str {
        match self {
            Case::Vn { best: true, .. } => "vnbest",
            Case::Vn { best: false, .. } => "vnfirst",
            Case::Kl { .. } => "kl",
            Case::Fm { .. } => "fm",
            Case::ArcSwap { .. } => "arcswap",
            Case::KMeans { dim: 2, .. } => "kmeans2",
            Case::KMeans { .. } => "kmeans3",
        }
    }
    fn ids(&self) -> &[usize] {
        match self {
            Case::Vn { ids, .. }
            | Case::Kl { ids, .. }
            | Case::Fm { ids, .. }
            | Case::ArcSwap { ids, .. }
            | Case::KMeans { ids, .. } => ids,
        }
    }
}

// ------------------------------------------------------------------ protocol

fn opt_dash(x: Option<usize>) -> String {
    x.map(|v| v.to_string()).unwrap_or_else(|| "-".into())
}
fn opt_none(x: Option<usize>) -> String {
    x.map(|v| v.to_string()).unwrap_or_else(|| "none".into())
}
fn opt_hex(x: Option<f64>) -> String {
    x.map(|v| format!("{:x}", v.to_bits())).unwrap_or_else(|| "none".into())
}
fn push_rows(s: &mut String, rows: &Rows) {
    s.push_str(&format!(" {}", rows.len()));
    for r in rows {
        s.push_str(&format!(" {}", r.len()));
        for (j, w) in r {
            s.push_str(&format!(" {} {}", j, w));
        }
    }
}
fn push_list<T: std::fmt::Display>(s: &mut String, xs: &[T]) {
    s.push_str(&format!(" {}", xs.len()));
    for x in xs {
        s.push_str(&format!(" {}", x));
    }
}
fn list(xs: &[usize]) -> String {
    if xs.is_empty() {
        "-".into()
    } else {
        join(xs)
    }
}

fn format_op(c: &Case) -> String {
    let mut s = String::new();
    match c {
        Case::Vn { ty, threads, ws, ids, .. } => {
            s.push_str(&format!("{} {} {}", c.algo(), ty, threads));
            push_list(&mut s, ws);
            push_list(&mut s, ids);
        }
        Case::Kl { threads, mp, mf, mb, wlen, ids, rows } => {
            s.push_str(&format!("kl {} {} {} {} {}", threads, opt_dash(*mp), opt_dash(*mf), mb, wlen));
            push_list(&mut s, ids);
            push_rows(&mut s, rows);
        }
        Case::Fm { threads, f64w, mi, mb, mp, mm, rows, ids, ws } => {
            s.push_str(&format!(
                "fm {} {} {} {} {} {}",
                threads,
                if *f64w { "f" } else { "i" },
                opt_hex(*mi),
                mb,
                opt_none(*mp),
                opt_none(*mm)
            ));
            push_rows(&mut s, rows);
            push_list(&mut s, ids);
            push_list(&mut s, ws);
        }
        Case::ArcSwap { threads, f64w, mi, rows, ids, ws } => {
            s.push_str(&format!("arcswap {} {} {}", threads, if *f64w { "f" } else { "i" }, opt_hex(*mi)));
            push_rows(&mut s, rows);
            push_list(&mut s, ids);
            push_list(&mut s, ws);
        }
        Case::KMeans { threads, tol, delta, max_iter, max_balance_iter, erode, mbr, ids, coords, ws, .. } => {
            s.push_str(&format!(
                "{} {} {:x} {:x} {} {} {} {}",
                c.algo(),
                threads,
                tol.to_bits(),
                delta.to_bits(),
                max_iter,
                max_balance_iter,
                *erode as u8,
                *mbr as u8
            ));
            push_list(&mut s, ids);
            for x in coords {
                s.push_str(&format!(" {}", x));
            }
            for x in ws {
                s.push_str(&format!(" {}", x));
            }
        }
    }
    s
}

struct Toks<'a>(std::str::SplitWhitespace<'a>);
impl<'a> Toks<'a> {
    fn s(&mut self) -> Option<&'a str> {
        self.0.next()
    }
    fn u(&mut self) -> Option<usize> {
        self.s()?.parse().ok()
    }
    fn i(&mut self) -> Option<i64> {
        self.s()?.parse().ok()
    }
    fn opt(&mut self, none: &str) -> Option<Option<usize>> {
        let t = self.s()?;
        if t == none {
            Some(None)
        } else {
            t.parse().ok().map(Some)
        }
    }
    fn hex(&mut self) -> Option<f64> {
        Some(f64::from_bits(u64::from_str_radix(self.s()?, 16).ok()?))
    }
    fn opt_hex(&mut self) -> Option<Option<f64>> {
        let t = self.s()?;
        if t == "none" {
            Some(None)
        } else {
            Some(Some(f64::from_bits(u64::from_str_radix(t, 16).ok()?)))
        }
    }
    fn us(&mut self, n: usize) -> Option<Vec<usize>> {
        (0..n).map(|_| self.u()).collect()
    }
    fn is(&mut self, n: usize) -> Option<Vec<i64>> {
        (0..n).map(|_| self.i()).collect()
    }
    fn counted_us(&mut self) -> Option<Vec<usize>> {
        let n = self.u()?;
        if n > 1 << 20 {
            return None;
        }
        self.us(n)
    }
    fn counted_is(&mut self) -> Option<Vec<i64>> {
        let n = self.u()?;
        if n > 1 << 20 {
            return None;
        }
        self.is(n)
    }
    fn rows(&mut self) -> Option<Rows> {
        let n = self.u()?;
        if n > 1 << 16 {
            return None;
        }
        let mut rows = Vec::with_capacity(n);
        for _ in 0..n {
            let d = self.u()?;
            let mut r = Vec::new();
            for _ in 0..d {
                let j = self.u()?;
                let w = self.i()?;
                r.push((j, w));
            }
            rows.push(r);
        }
        // sprs invariants: square, indices in range, strictly ascending rows
        for r in &rows {
            for (k, (j, _)) in r.iter().enumerate() {
                if *j >= n || (k > 0 && r[k - 1].0 >= *j) {
                    return None;
                }
            }
        }
        Some(rows)
    }
    fn done(&mut self) -> Option<()> {
        if self.0.next().is_some() {
            None
        } else {
            Some(())
        }
    }
}

fn parse_op(op: &str) -> Option<Case> {
    let base = op.split("=>").next()?;
    let mut t = Toks(base.split_whitespace());
    let algo = t.s()?;
    let c = match algo {
        "vnbest" | "vnfirst" => {
            let ty = t.s()?.to_string();
            if !["i64", "u64", "f64"].contains(&ty.as_str()) {
                return None;
            }
            let threads = t.u()?;
            let ws = t.counted_is()?;
            let ids = t.counted_us()?;
            if ty == "u64" && ws.iter().any(|&w| w < 0) {
                return None;
            }
            Case::Vn { best: algo == "vnbest", ty, threads, ws, ids }
        }
        "kl" => {
            let threads = t.u()?;
            let mp = t.opt("-")?;
            let mf = t.opt("-")?;
            let mb = t.u()?;
            let wlen = t.u()?;
            let ids = t.counted_us()?;
            let rows = t.rows()?;
            if wlen > 1 << 20 {
                return None;
            }
            Case::Kl { threads, mp, mf, mb, wlen, ids, rows }
        }
        "fm" => {
            let threads = t.u()?;
            let f64w = match t.s()? {
                "f" => true,
                "i" => false,
                _ => return None,
            };
            let mi = t.opt_hex()?;
            let mb = t.u()?;
            let mp = t.opt("none")?;
            let mm = t.opt("none")?;
            let rows = t.rows()?;
            let ids = t.counted_us()?;
            let ws = t.counted_is()?;
            Case::Fm { threads, f64w, mi, mb, mp, mm, rows, ids, ws }
        }
        "arcswap" => {
            let threads = t.u()?;
            let f64w = match t.s()? {
                "f" => true,
                "i" => false,
                _ => return None,
            };
            let mi = t.opt_hex()?;
            let rows = t.rows()?;
            let ids = t.counted_us()?;
            let ws = t.counted_is()?;
            Case::ArcSwap { threads, f64w, mi, rows, ids, ws }
        }
        "kmeans2" | "kmeans3" => {
            let dim = if algo == "kmeans2" { 2 } else { 3 };
            let threads = t.u()?;
            let tol = t.hex()?;
            let delta = t.hex()?;
            let max_iter = t.u()?;
            let max_balance_iter = t.u()?;
            let erode = t.u()? != 0;
            let mbr = t.u()? != 0;
            let ids = t.counted_us()?;
            let coords = t.is(ids.len() * dim)?;
            let ws = t.is(ids.len())?;
            if max_iter > 100_000 || max_balance_iter > 1000 {
                return None;
            }
            Case::KMeans { dim, threads, tol, delta, max_iter, max_balance_iter, erode, mbr, ids, coords, ws }
        }
        _ => return None,
    };
    t.done()?;
    let threads = match &c {
        Case::Vn { threads, .. }
        | Case::Kl { threads, .. }
        | Case::Fm { threads, .. }
        | Case::ArcSwap { threads, .. }
        | Case::KMeans { threads, .. } => *threads,
    };
    if threads < 1 || threads > 16 {
        return None;
    }
    Some(c)
}

// ------------------------------------------------------------------ running the implementation

/// A rayon pool with roomy worker stacks (`balanced_k_means_iter` recurses `max_iter` deep and the
/// closure runs ON a worker).
fn pool(threads: usize) -> coupe::rayon::ThreadPool {
    coupe::rayon::ThreadPoolBuilder::new()
        .num_threads(threads)
        .stack_size(64 << 20)
        .build()
        .expect("pool")
}

fn csmat<T: Clone>(rows: &Rows, conv: impl Fn(i64) -> T) -> CsMat<T> {
    let n = rows.len();
    let mut indptr = vec![0usize];
    let mut indices = vec![];
    let mut data = vec![];
    for r in rows {
        for (j, w) in r {
            indices.push(*j);
            data.push(conv(*w));
        }
        indptr.push(indices.len());
    }
    CsMat::new((n, n), indptr, indices, data)
}

enum Ran {
    /// ids afterwards + FM metadata (moves, rewound)
    Ok(Vec<usize>, Option<(Vec<usize>, Vec<usize>)>),
    Err(String),
    Panic(String),
    Hang,
}

type Sweeps = Vec<(Vec<usize>, Vec<usize>)>;

fn err_name(e: &coupe::Error) -> String {
    match e {
        coupe::Error::InputLenMismatch { .. } => "lenmismatch".into(),
        coupe::Error::BiPartitioningOnly => "bionly".into(),
        coupe::Error::NegativeValues => "negative".into(),
        e => format!("{:?}", e).split_whitespace().collect::<Vec<_>>().join("_"),
    }
}

/// SPECIAL VALUES / PLUMBING applied to a case just before the call (the op line keeps the plain
/// integer data; the tag in front of it says what is done to it).
///  negzero  != 0: zero `f64` weights (and, with `coord = 1`, zero coordinates) become `-0.0` on a
///           subset chosen from this seed; the subset has an odd size when the seed is odd, an even
///           size (>= 2 if possible) when it is even
///  scale    != 0: every `f64` weight is multiplied by 2^scale (exact: -1073 makes everything
///           subnormal, -1030 straddles the smallest normal, large values bring the total just below
///           overflow)
///  preset   1: non-zero weights = 1e-310 (subnormal) | 2: w[0] = f64::MAX/2 | 3: the first three
///           weights = 5e307 (finite total 1.5e308) | 4: non-zero weights cycle through the smallest
///           normal, its predecessor (subnormal) and its successor | 5: w[0] = MAX/2, w[1] =
///           0.99*MAX/2 (finite total, total x 1.01 overflows) | 6: non-zero weights alternate 1.0 and
///           0.9999999999999999 (ordinary values whose sums are rounded)
///  plumb    the type / shape the input is passed as (see `call_case`)
///  coord    KMeans coordinates: 1 zeros -> -0.0 (see negzero) | 2 all x 2^-1060 (subnormal) |
///           3 all x 2^480 (|x| up to ~1e150, squares still finite)
#[derive(Clone, Copy, Debug, Default, PartialEq)]
struct Tweak {
    negzero: u64,
    scale: i32,
    preset: u8,
    plumb: u8,
    coord: u8,
}

impl Tweak {
    fn is_none(&self) -> bool {
        *self == Tweak::default()
    }
}

/// Where the call is made from.
#[derive(Clone, Copy, Debug, PartialEq)]
enum Ctxk {
    /// inside `pool.install` of a fresh pool of `threads` workers (the default of every stream)
    Install,
    /// on the global rayon pool, from a plain thread
    Global,
    /// from inside a rayon task (`join`) of a pool of `threads` workers, next to other work
    InTask,
    /// `m` calls at once (`into_par_iter().map(call)`) in ONE pool of `threads` workers; input `j`
    /// is the case with its id array rotated left by `j`
    Par(usize),
}

/// exact 2^e for -1074 <= e <= 1023
fn pow2(e: i32) -> f64 {
    if e >= -1022 {
        f64::from_bits(((e + 1023) as u64) << 52)
    } else {
        f64::from_bits(1u64 << (e + 1074))
    }
}

fn neg_zero_subset(v: &mut [f64], seed: u64) -> usize {
    let zeros: Vec<usize> = (0..v.len()).filter(|&i| v[i] == 0.0).collect();
    if zeros.is_empty() {
        return 0;
    }
    let mut r = Rng::new(seed);
    let mut pick: Vec<usize> = zeros.iter().copied().filter(|_| r.chance(1, 2)).collect();
    let odd = seed % 2 == 1;
    if (pick.len() % 2 == 1) != odd {
        // flip the membership of the first zero
        if let Some(p) = pick.iter().position(|&i| i == zeros[0]) {
            pick.remove(p);
        } else {
            pick.push(zeros[0]);
        }
    }
    if pick.is_empty() && !odd && zeros.len() >= 2 {
        pick = vec![zeros[0], zeros[1]];
    }
    for &i in &pick {
        v[i] = -0.0;
    }
    pick.len()
}

fn tweak_weights(v: &mut [f64], tw: &Tweak) {
    if tw.scale != 0 {
        let s = pow2(tw.scale);
        for x in v.iter_mut() {
            *x *= s;
        }
    }
    let n = v.len();
    match tw.preset {
        1 => v.iter_mut().filter(|x| **x != 0.0).for_each(|x| *x = 1e-310),
        2 => v[0] = f64::MAX / 2.0,
        3 => v.iter_mut().take(3.min(n)).for_each(|x| *x = 5e307),
        4 => {
            let m = f64::MIN_POSITIVE;
            let cyc = [m, f64::from_bits(m.to_bits() - 1), f64::from_bits(m.to_bits() + 1)];
            let mut k = 0;
            for x in v.iter_mut().filter(|x| **x != 0.0) {
                *x = cyc[k % 3];
                k += 1;
            }
        }
        5 => {
            v[0] = f64::MAX / 2.0;
            if n > 1 {
                v[1] = f64::MAX / 2.0 * 0.99;
            }
        }
        6 => {
            // ordinary magnitudes whose sums round: 1.0 and its predecessor 0.9999999999999999
            let mut k = 0;
            for x in v.iter_mut().filter(|x| **x != 0.0) {
                *x = if k % 2 == 0 { 1.0 } else { f64::from_bits(1.0f64.to_bits() - 1) };
                k += 1;
            }
        }
        _ => {}
    }
    if tw.negzero != 0 {
        neg_zero_subset(v, tw.negzero);
    }
}

type R = (Result<Option<(Vec<usize>, Vec<usize>)>, String>, Vec<usize>);

/// A finding met in THIS process (the corpus witnesses run first): the random streams then leave
/// out the inputs that would only trigger the same defect again (a hang costs a whole watchdog
/// period and three hangs end the run).  VnBest's float ping-pong was repaired by bff6050 (N9): the
/// witness passes and nothing is left out unless it comes back.
static SEEN_VNBEST_FLOAT_HANG: std::sync::atomic::AtomicBool = std::sync::atomic::AtomicBool::new(false);


fn rotated(c: &Case, j: usize) -> Case {
    let mut ids = c.ids().to_vec();
    if !ids.is_empty() {
        let n = ids.len();
        ids.rotate_left(j % n);
    }
    with_ids(c, ids)
}

/// One call of the implementation in the CURRENT rayon context.  With `reuse`, the SAME algorithm
/// value is first used on another input (same weights / graph / points, the id array reversed) and
/// then on `c`; what is returned belongs to the second call.
///
/// `tw.plumb` – the same data handed over as another legal input type:
///  VnBest (`W: IntoIterator`): 1 `Vec` by value | 2 `iter().copied()` | 3 `into_iter().map(..)` |
///   4 `filter(|_| true)` (inexact size_hint) | 5 `flat_map` | 6 `std::iter::from_fn` | 7 `chain` of
///   two halves | 12 array `[i64; N]` (N = 4, 8) | 15 `LinkedList`
///  VnBest, VnFirst, FM, ArcSwap – the weight type: 8 `i32` | 9 `u32` | 10 `u64` | 11 `f32` | 13 `f64`
///  KL, FM, ArcSwap – the topology: 2 `&view` instead of `view` (the blanket `Topology for &T`)
fn call_case(c: Case, reuse: bool, tw: Tweak, forget: &(dyn Fn() + Sync)) -> R {
    // the warm-up input of a reuse case
    let mut ids_a: Vec<usize> = c.ids().iter().rev().copied().collect();
    match c {
        Case::Vn { best, ty, ws, ids, .. } => {
            let mut ids = ids;
            let wu: Vec<u64> = ws.iter().map(|&x| x as u64).collect();
            let mut wf: Vec<f64> = ws.iter().map(|&x| x as f64).collect();
            tweak_weights(&mut wf, &tw);
            let small = ws.iter().all(|&w| (0..1 << 24).contains(&w));
            let w32: Vec<i32> = ws.iter().map(|&x| x as i32).collect();
            let wu32: Vec<u32> = ws.iter().map(|&x| x as u32).collect();
            let wf32: Vec<f32> = ws.iter().map(|&x| x as f32).collect();
            let vb = coupe::VnBest;
            let vf = coupe::VnFirst;
            let plumb = if matches!(tw.plumb, 8 | 9 | 11) && !small { 0 } else { tw.plumb };
            let mut call = |ids: &mut Vec<usize>| {
                let (mut vb, mut vf) = (vb, vf);
                match (best, plumb) {
                    (true, 1) => vb.partition(ids, ws.clone()),
                    (true, 2) => vb.partition(ids, ws.iter().copied()),
                    (true, 3) => vb.partition(ids, ws.clone().into_iter().map(|x| x + 0)),
                    (true, 4) => vb.partition(ids, ws.iter().copied().filter(|_| true)),
                    (true, 5) => vb.partition(ids, ws.iter().flat_map(|&x| std::iter::once(x))),
                    (true, 6) => {
                        let mut i = 0;
                        let w = &ws;
                        vb.partition(
                            ids,
                            std::iter::from_fn(move || {
                                let r = w.get(i).copied();
                                i += 1;
                                r
                            }),
                        )
                    }
                    (true, 7) => {
                        let h = ws.len() / 2;
                        vb.partition(ids, ws[..h].iter().copied().chain(ws[h..].iter().copied()))
                    }
                    (true, 12) if ws.len() == 4 => {
                        let a: [i64; 4] = ws[..].try_into().unwrap();
                        vb.partition(ids, a)
                    }
                    (true, 12) if ws.len() == 8 => {
                        let a: [i64; 8] = ws[..].try_into().unwrap();
                        vb.partition(ids, a)
                    }
                    (false, 12) if ws.len() == 4 => {
                        let a: [i64; 4] = ws[..].try_into().unwrap();
                        vf.partition(ids, &a[..])
                    }
                    (true, 15) => vb.partition(ids, ws.iter().copied().collect::<std::collections::LinkedList<i64>>()),
                    (true, 8) => vb.partition(ids, w32.clone()),
                    (false, 8) => vf.partition(ids, &w32[..]),
                    (true, 9) => vb.partition(ids, wu32.clone()),
                    (false, 9) => vf.partition(ids, &wu32[..]),
                    (true, 10) => vb.partition(ids, wu.iter().cloned()),
                    (false, 10) => vf.partition(ids, &wu[..]),
                    (true, 11) => vb.partition(ids, wf32.clone()),
                    (false, 11) => vf.partition(ids, &wf32[..]),
                    (true, 13) => vb.partition(ids, wf.iter().cloned()),
                    (false, 13) => vf.partition(ids, &wf[..]),
                    _ => match ty.as_str() {
                        "i64" => {
                            if best {
                                vb.partition(ids, ws.iter().cloned())
                            } else {
                                vf.partition(ids, &ws[..])
                            }
                        }
                        "u64" => {
                            if best {
                                vb.partition(ids, wu.iter().cloned())
                            } else {
                                vf.partition(ids, &wu[..])
                            }
                        }
                        _ => {
                            if best {
                                vb.partition(ids, wf.iter().cloned())
                            } else {
                                vf.partition(ids, &wf[..])
                            }
                        }
                    },
                }
            };
            if reuse {
                let _ = call(&mut ids_a);
            }
            let r = call(&mut ids);
            (r.map(|_| None).map_err(|e| err_name(&e)), ids)
        }
        Case::Kl { mp, mf, mb, wlen, ids, rows, .. } => {
            let mut ids = ids;
            let mat: CsMat<f64> = csmat(&rows, |w| w as f64);
            let weights = vec![1.0f64; wlen];
            let mut kl = coupe::KernighanLin {
                max_passes: mp,
                max_flips_per_pass: mf,
                max_imbalance_per_flip: None,
                max_bad_move_in_a_row: mb,
            };
            if reuse {
                let _ = kl.partition(&mut ids_a, (mat.view(), &weights[..]));
            }
            let r = if tw.plumb == 2 {
                let v = mat.view();
                kl.partition(&mut ids, (&v, &weights[..]))
            } else {
                kl.partition(&mut ids, (mat.view(), &weights[..]))
            };
            (r.map(|_| None).map_err(|e| format!("{:?}", e)), ids)
        }
        Case::Fm { f64w, mi, mb, mp, mm, rows, ids, ws, .. } => {
            let mut ids = ids;
            let mat: CsMat<i64> = csmat(&rows, |w| w);
            let mut fm = coupe::FiducciaMattheyses {
                max_imbalance: mi,
                max_bad_move_in_a_row: mb,
                max_passes: mp,
                max_moves_per_pass: mm,
            };
            let mut wf: Vec<f64> = ws.iter().map(|&x| x as f64).collect();
            tweak_weights(&mut wf, &tw);
            let small = ws.iter().all(|&w| (0..1 << 24).contains(&w));
            let plumb = if matches!(tw.plumb, 8 | 9 | 11) && !small { 0 } else { tw.plumb };
            let mut call = |ids: &mut Vec<usize>| {
                let v = mat.view();
                match plumb {
                    2 if f64w => fm.partition(ids, (&v, &wf[..])),
                    2 => fm.partition(ids, (&v, &ws[..])),
                    8 => fm.partition(ids, (v, &ws.iter().map(|&x| x as i32).collect::<Vec<_>>()[..])),
                    9 => fm.partition(ids, (v, &ws.iter().map(|&x| x as u32).collect::<Vec<_>>()[..])),
                    10 => fm.partition(ids, (v, &ws.iter().map(|&x| x as u64).collect::<Vec<_>>()[..])),
                    11 => fm.partition(ids, (v, &ws.iter().map(|&x| x as f32).collect::<Vec<_>>()[..])),
                    _ if f64w => fm.partition(ids, (v, &wf[..])),
                    _ => fm.partition(ids, (v, &ws[..])),
                }
            };
            if reuse {
                let _ = call(&mut ids_a);
            }
            let r = call(&mut ids);
            (
                r.map(|md| Some((md.moves_per_pass.clone(), md.rewinded_moves_per_pass.clone())))
                    .map_err(|e| err_name(&e)),
                ids,
            )
        }
        Case::ArcSwap { f64w, mi, rows, ids, ws, .. } => {
            let mut ids = ids;
            let mat: CsMat<i64> = csmat(&rows, |w| w);
            let mut a = coupe::ArcSwap { max_imbalance: mi };
            let mut wf: Vec<f64> = ws.iter().map(|&x| x as f64).collect();
            tweak_weights(&mut wf, &tw);
            let small = ws.iter().all(|&w| (0..1 << 24).contains(&w));
            let plumb = if matches!(tw.plumb, 8 | 9 | 11) && !small { 0 } else { tw.plumb };
            let mut call = |ids: &mut Vec<usize>| {
                let v = mat.view();
                match plumb {
                    2 if f64w => a.partition(ids, (&v, &wf[..])).map(|_| ()),
                    2 => a.partition(ids, (&v, &ws[..])).map(|_| ()),
                    8 => a.partition(ids, (v, &ws.iter().map(|&x| x as i32).collect::<Vec<_>>()[..])).map(|_| ()),
                    9 => a.partition(ids, (v, &ws.iter().map(|&x| x as u32).collect::<Vec<_>>()[..])).map(|_| ()),
                    10 => a.partition(ids, (v, &ws.iter().map(|&x| x as u64).collect::<Vec<_>>()[..])).map(|_| ()),
                    11 => a.partition(ids, (v, &ws.iter().map(|&x| x as f32).collect::<Vec<_>>()[..])).map(|_| ()),
                    _ if f64w => a.partition(ids, (v, &wf[..])).map(|_| ()),
                    _ => a.partition(ids, (v, &ws[..])).map(|_| ()),
                }
            };
            if reuse {
                let _ = call(&mut ids_a);
            }
            let r = call(&mut ids);
            (r.map(|_| None).map_err(|e| err_name(&e)), ids)
        }
        Case::KMeans { dim, tol, delta, max_iter, max_balance_iter, erode, mbr, ids, coords, ws, .. } => {
            let mut ids = ids;
            let mut w: Vec<f64> = ws.iter().map(|&x| x as f64 / 4.0).collect();
            tweak_weights(&mut w, &tw);
            let mut km = coupe::KMeans {
                imbalance_tol: tol,
                delta_threshold: delta,
                max_iter,
                max_balance_iter,
                erode,
                hilbert: true,
                mbr_early_break: mbr,
            };
            let mut xs: Vec<f64> = coords.iter().map(|&t| t as f64 / 16.0).collect();
            match tw.coord {
                1 => {
                    neg_zero_subset(&mut xs, tw.negzero | 2);
                }
                2 => xs.iter_mut().for_each(|x| *x *= pow2(-1060)),
                3 => xs.iter_mut().for_each(|x| *x *= pow2(480)),
                _ => {}
            }
            if dim == 2 {
                let pts: Vec<coupe::Point2D> =
                    (0..ids.len()).map(|i| coupe::Point2D::new(xs[2 * i], xs[2 * i + 1])).collect();
                if reuse {
                    km.partition(&mut ids_a, (&pts[..], &w[..])).unwrap();
                    forget();
                }
                km.partition(&mut ids, (&pts[..], &w[..])).unwrap();
            } else {
                let pts: Vec<coupe::Point3D> = (0..ids.len())
                    .map(|i| coupe::Point3D::new(xs[3 * i], xs[3 * i + 1], xs[3 * i + 2]))
                    .collect();
                if reuse {
                    km.partition(&mut ids_a, (&pts[..], &w[..])).unwrap();
                    forget();
                }
                km.partition(&mut ids, (&pts[..], &w[..])).unwrap();
            }
            (Ok(None), ids)
        }
    }
}

fn to_ran(r: Caught<R>) -> Ran {
    match r {
        Caught::Ok((Ok(md), ids)) => Ran::Ok(ids, md),
        Caught::Ok((Err(e), _)) => Ran::Err(e),
        // assert messages may span several lines; the protocol is line based
        Caught::Panic(m) => Ran::Panic(m.split_whitespace().collect::<Vec<_>>().join(" ")),
        Caught::Hang => Ran::Hang,
    }
}

fn run_impl(c: &Case, reuse: bool) -> (Ran, Sweeps) {
    let (ran, sweeps, _) = run_impl_x(c, reuse, Tweak::default(), Ctxk::Install);
    (ran, sweeps)
}

/// Runs the implementation under the watchdog.  Returns the outcome of the call (of call 0 for
/// `Ctxk::Par`), the k-means sweeps seen by the hook (not recorded for `Par`: the hook state is
/// process global and concurrent calls would interleave) and, for `Par`, the outcome of every call.
fn run_impl_x(c: &Case, reuse: bool, tw: Tweak, ck: Ctxk) -> (Ran, Sweeps, Vec<Ran>) {
    use coupe::rayon::prelude::*;
    let c = c.clone();
    let rec: Arc<Mutex<Sweeps>> = Arc::new(Mutex::new(Vec::new()));
    let observe = matches!(c, Case::KMeans { .. }) && !matches!(ck, Ctxk::Par(_));
    if observe {
        let rec2 = rec.clone();
        coupe::verif_hooks::set_kmeans_observer(Some(Box::new(move |a: &[usize], cids: &[usize]| {
            if let Ok(mut g) = rec2.lock() {
                if g.len() < 20_000 && g.len() * a.len() < 60_000_000 {
                    g.push((a.to_vec(), cids.to_vec()));
                }
            }
        })));
    }
    let rec3 = rec.clone();
    // `C02_WATCHDOG` only serves to tell a slow run from a hang when a finding is examined by hand
    // small inputs (which take milliseconds) get the property's original 20 s, large ones 60 s
    let dflt = if c.ids().len() <= 1000 { 20u64 } else { 60 };
    let secs = std::env::var("C02_WATCHDOG").ok().and_then(|v| v.parse().ok()).unwrap_or(dflt);
    let res: Caught<(R, Vec<R>)> = catch_timeout(secs, move || {
        let threads = match &c {
            Case::Vn { threads, .. }
            | Case::Kl { threads, .. }
            | Case::Fm { threads, .. }
            | Case::ArcSwap { threads, .. }
            | Case::KMeans { threads, .. } => *threads,
        };
        let forget = move || {
            if let Ok(mut g) = rec3.lock() {
                g.clear();
            }
        };
        match ck {
            Ctxk::Install => {
                let p = pool(threads);
                (p.install(move || call_case(c, reuse, tw, &forget)), vec![])
            }
            Ctxk::Global => (call_case(c, reuse, tw, &forget), vec![]),
            Ctxk::InTask => {
                let p = pool(threads);
                p.install(move || {
                    let (r, _) = coupe::rayon::join(
                        || call_case(c, reuse, tw, &forget),
                        || (0..200_000u64).into_par_iter().map(|x| x ^ 1).sum::<u64>(),
                    );
                    (r, vec![])
                })
            }
            Ctxk::Par(m) => {
                let p = pool(threads);
                let inputs: Vec<Case> = (0..m).map(|j| rotated(&c, j)).collect();
                let rs: Vec<R> =
                    p.install(move || inputs.into_par_iter().map(|ci| call_case(ci, false, tw, &|| {})).collect());
                (rs[0].clone(), rs)
            }
        }
    });
    if observe {
        coupe::verif_hooks::set_kmeans_observer(None);
    }
    let sweeps = rec.lock().map(|mut g| std::mem::take(&mut *g)).unwrap_or_default();
    match res {
        Caught::Ok((r, all)) => (to_ran(Caught::Ok(r)), sweeps, all.into_iter().map(|r| to_ran(Caught::Ok(r))).collect()),
        Caught::Panic(m) => (to_ran(Caught::Panic(m)), sweeps, vec![]),
        Caught::Hang => (Ran::Hang, sweeps, vec![]),
    }
}

/// The recorded sweeps as protocol tokens (see the module comment).
fn encode_sweeps(ids0: &[usize], sweeps: &Sweeps) -> String {
    let mut s = String::new();
    let mut prev: Vec<usize> = ids0.to_vec();
    let mut prev_c: Option<&Vec<usize>> = None;
    let mut rep = 0usize;
    for (a, c) in sweeps {
        let chg: Vec<usize> = (0..a.len().max(prev.len())).filter(|&p| a.get(p) != prev.get(p)).collect();
        if chg.is_empty() && prev_c == Some(c) {
            rep += 1;
        } else {
            if rep > 0 {
                s.push_str(&format!(" R {}", rep));
                rep = 0;
            }
            s.push_str(&format!(" S {} {} {}", c.len(), join(c), chg.len()));
            for p in chg {
                // an entry beyond the array (cannot happen with a slice) would show as usize::MAX
                s.push_str(&format!(" {} {}", p, a.get(p).copied().unwrap_or(usize::MAX)));
            }
        }
        prev = a.clone();
        prev_c = Some(c);
    }
    if rep > 0 {
        s.push_str(&format!(" R {}", rep));
    }
    s.split_whitespace().collect::<Vec<_>>().join(" ")
}

// ------------------------------------------------------------------ contract + oracle

/// Is the input inside the property's quantifier? `Err(why)` if not.
fn contract(c: &Case) -> Result<(), &'static str> {
    let ids = c.ids();
    let n = ids.len();
    if n == 0 {
        return Err("empty");
    }
    let max = *ids.iter().max().unwrap();
    let mut used = vec![false; max.min(1 << 20) + 1];
    for &i in ids {
        if i < used.len() {
            used[i] = true;
        }
    }
    if max >= 1 << 20 || used.iter().any(|u| !u) {
        return Err("invalid-partition");
    }
    let graph_ok = |rows: &Rows| -> Result<(), &'static str> {
        if rows.len() != n {
            return Err("graph-size");
        }
        for (v, r) in rows.iter().enumerate() {
            for &(j, w) in r {
                if j == v {
                    return Err("self-loop");
                }
                if w <= 0 {
                    return Err("edge-weight");
                }
                if rows[j].iter().find(|(x, _)| *x == v).map(|(_, w2)| *w2) != Some(w) {
                    return Err("asymmetric");
                }
            }
        }
        Ok(())
    };
    let weights_ok = |ws: &[i64]| -> Result<(), &'static str> {
        if ws.len() != n {
            return Err("weights-len");
        }
        if ws.iter().any(|&w| w < 0) {
            return Err("negative-weight");
        }
        if ws.iter().map(|&w| w as i128).sum::<i128>() <= 0 {
            return Err("zero-total");
        }
        Ok(())
    };
    match c {
        Case::Vn { ws, .. } => weights_ok(ws),
        Case::Kl { wlen, rows, .. } => {
            if max != 1 {
                return Err("not-two-way");
            }
            if *wlen != n {
                return Err("weights-len");
            }
            graph_ok(rows)
        }
        Case::Fm { rows, ws, .. } => {
            if max != 1 {
                return Err("not-two-way");
            }
            weights_ok(ws)?;
            graph_ok(rows)
        }
        Case::ArcSwap { rows, ws, .. } => {
            weights_ok(ws)?;
            graph_ok(rows)
        }
        Case::KMeans { ws, tol, delta, .. } => {
            if tol.is_nan() || delta.is_nan() {
                return Err("nan-setting");
            }
            weights_ok(ws)
        }
    }
}

pub fn run_op(ctx: &mut Ctx, op: &str) {
    if ctx.hang_limit_reached() {
        return;
    }
    let op = op.trim();
    if op.starts_with("large ") {
        run_large(ctx, op);
        return;
    }
    if op.starts_with("pwx ") {
        run_pwx(ctx, op);
        return;
    }
    if op.starts_with("mix ") {
        run_mix(ctx, op);
        return;
    }
    let bad =|ctx: &mut Ctx| {
        ctx.record(op.to_string(), "bad-op".into(), false);
    };
    let t: Vec<&str> = op.splitn(8, ' ').collect();
    match t[0] {
        // `sp <m|o> <negzero> <scale> <preset> <plumb> <coord> <std op>` (the flag is recomputed)
        "sp" if t.len() == 8 => {
            let tw = (|| {
                Some(Tweak {
                    negzero: t[2].parse().ok()?,
                    scale: t[3].parse().ok()?,
                    preset: t[4].parse().ok()?,
                    plumb: t[5].parse().ok()?,
                    coord: t[6].parse().ok()?,
                })
            })();
            match (tw, parse_op(t[7])) {
                (Some(tw), Some(c)) if (-1074..=1000).contains(&tw.scale) => run_special(ctx, &c, tw),
                _ => bad(ctx),
            }
        }
        // `ctx <m|o> <global|intask|par> <m> <std op>`
        "ctx" => {
            let t: Vec<&str> = op.splitn(5, ' ').collect();
            if t.len() != 5 {
                return bad(ctx);
            }
            let m: Option<usize> = t[3].parse().ok();
            let ck = match (t[2], m) {
                ("global", Some(_)) => Some(Ctxk::Global),
                ("intask", Some(_)) => Some(Ctxk::InTask),
                ("par", Some(m)) if (1..=64).contains(&m) => Some(Ctxk::Par(m)),
                _ => None,
            };
            match (ck, parse_op(t[4])) {
                (Some(ck), Some(c)) => run_context(ctx, &c, ck),
                _ => bad(ctx),
            }
        }
        // `tl <std op>`: through `coupe_tools::parse_algorithm`
        "tl" => match parse_op(&op[3..]) {
            Some(c) => run_tools(ctx, &c),
            None => bad(ctx),
        },
        _ => {
            let (reuse, rest) = match op.strip_prefix("reuse ") {
                Some(r) => (true, r),
                None => (false, op),
            };
            let Some(c) = parse_op(rest) else {
                return bad(ctx);
            };
            run_case_m(ctx, &c, None, reuse);
        }
    }
}

/// Is a single run of the case (in its own pool) a function of the input alone?  FM iterates over
/// `HashSet`s with per-instance random hashers; ArcSwap with several workers is free-running; the
/// parallel `f64` sums of KMeans depend on the split tree unless they are exact.
fn single_run_deterministic(c: &Case) -> bool {
    match c {
        Case::Vn { .. } | Case::Kl { .. } => true,
        Case::Fm { .. } => false,
        Case::ArcSwap { threads, .. } => *threads == 1,
        Case::KMeans { threads, .. } => *threads == 1 || kmeans_exact_sums(c),
    }
}

/// KMeans inputs on which every parallel floating-point sum is exact (so the result does not depend
/// on how rayon splits the work): a power-of-two number of points (the centroid of the inertia
/// matrix is then dyadic), small dyadic coordinates and weights, no erosion (`into_group_map`
/// iterates a `HashMap`).
fn kmeans_exact_sums(c: &Case) -> bool {
    match c {
        Case::KMeans { ids, coords, ws, erode, .. } => {
            ids.len().is_power_of_two()
                && !*erode
                && coords.iter().all(|x| x.abs() <= 1 << 14)
                && ws.iter().all(|x| (0..=1 << 10).contains(x))
        }
        _ => false,
    }
}

/// ArcSwap: does a part of the INPUT weigh more than `max_part_weight` (computed as the code does
/// for an integer weight type: `from_f64(ideal + max_imbalance * ideal)`, truncated)?  Then – and,
/// by C05's `cap` theorem, only then – `max_part_weight - part_weight` is negative.
fn arcswap_part_above_cap(c: &Case) -> bool {
    let Case::ArcSwap { mi: Some(mi), ids, ws, .. } = c else { return false };
    let k = (1 + ids.iter().copied().max().unwrap_or(0)).max(2);
    let mut loads = vec![0i64; k];
    for (&i, &w) in ids.iter().zip(ws) {
        loads[i] += w;
    }
    let total: i64 = loads.iter().sum();
    let ideal = total as f64 / k as f64;
    let cap = (ideal + mi * ideal) as i64;
    loads.iter().any(|&l| l > cap)
}

fn fm_cap_scale_exact(c: &Case) -> bool {
    matches!(c, Case::Fm { mi, .. } if *mi == None || *mi == Some(0.0) || *mi == Some(1.0))
}

/// SPECIAL VALUES / PLUMBING case: the tweaked run gets the full oracle; where the plain run is a
/// function of the input it must give exactly the same ids (`negzero-dependent@`, `scale-dependent@`,
/// `input-type-dependent@`); the Lean model (which knows neither zero signs nor input types nor, for
/// the abstract KMeans model, any number at all) predicts the plain op where that is meaningful.
fn run_special(ctx: &mut Ctx, c: &Case, tw: Tweak) {
    use std::sync::atomic::Ordering::SeqCst;
    if matches!(c, Case::Vn { best: true, .. }) && tw.preset >= 2 && SEEN_VNBEST_FLOAT_HANG.load(SeqCst) {
        // VnBest on f64 weights whose sums are rounded: already reported in this run
        ctx.count("special:not-run:vnbest-rounded-sums(hang already reported)");
        return;
    }
    if matches!(c, Case::ArcSwap { .. }) && matches!(tw.plumb, 9 | 10) && arcswap_part_above_cap(c) {
        // An UNSIGNED weight type with a part of the input heavier than the cap: `max_part_weight -
        // part_weight` used to underflow there (repaired in /repo, `fix: ArcSwap accepts unsigned
        // weights when a part starts above the cap`).  Inside the contract: judged like every other case.
        ctx.count("special:arcswap-unsigned-above-cap");
    }
    let det = single_run_deterministic(c);
    let is_km = matches!(c, Case::KMeans { .. });
    let is_vn = matches!(c, Case::Vn { .. });
    let (class, cmp): (&str, Option<&'static str>) = if tw.preset != 0 {
        ("extreme-preset", None)
    } else if tw.coord >= 2 {
        (if tw.coord == 2 { "subnormal-coordinates" } else { "huge-coordinates" }, None)
    } else if tw.scale != 0 {
        let exact = is_vn || matches!(c, Case::ArcSwap { mi: None, .. });
        (
            if tw.scale < -1040 {
                "scale:subnormal"
            } else if tw.scale < 0 {
                "scale:around-smallest-normal"
            } else {
                "scale:near-overflow"
            },
            if exact && det { Some("scale-dependent") } else { None },
        )
    } else if tw.negzero != 0 {
        (if tw.coord == 1 { "negzero:coordinates+weights" } else { "negzero:weights" }, if det { Some("negzero-dependent") } else { None })
    } else if tw.plumb != 0 {
        ("plumbing", if det { Some("input-type-dependent") } else { None })
    } else {
        ("none", None)
    };
    if tw.plumb != 0 {
        ctx.count(&format!("plumbing:{}:{}", c.algo(), tw.plumb));
    } else {
        ctx.count(&format!("special:{}:{}", class, c.algo()));
    }
    if tw.negzero != 0 {
        ctx.count(if tw.negzero % 2 == 1 { "special:negzero:odd-count" } else { "special:negzero:even-count" });
    }
    let model_ok = is_km
        || (tw.preset == 0 && (tw.scale == 0 || is_vn || (fm_cap_scale_exact(c) && matches!(c, Case::Fm { .. }))));
    ctx.count(if cmp.is_some() { "special:compared-with-plain-run" } else { "special:oracle-only-or-model" });
    let prefix = format!(
        "sp {} {} {} {} {} {} ",
        if model_ok { "m" } else { "o" },
        tw.negzero,
        tw.scale,
        tw.preset,
        tw.plumb,
        tw.coord
    );
    run_case_x(ctx, c, Mode { prefix, tw, cmp_base: cmp, ..Mode::default() });
}

/// CONTEXT case: see `Ctxk`.
fn run_context(ctx: &mut Ctx, c: &Case, ck: Ctxk) {
    let (kind, m) = match ck {
        Ctxk::Install => ("install", 1),
        Ctxk::Global => ("global", 1),
        Ctxk::InTask => ("intask", 1),
        Ctxk::Par(m) => ("par", m),
    };
    let threads = match c {
        Case::Vn { threads, .. }
        | Case::Kl { threads, .. }
        | Case::Fm { threads, .. }
        | Case::ArcSwap { threads, .. }
        | Case::KMeans { threads, .. } => *threads,
    };
    // is the result of a call in THIS context a function of the input alone?
    let deterministic = match c {
        Case::Vn { .. } | Case::Kl { .. } => true,
        Case::Fm { .. } => false,
        Case::ArcSwap { .. } => ck == Ctxk::InTask && threads == 1,
        Case::KMeans { .. } => kmeans_exact_sums(c) || (ck == Ctxk::InTask && threads == 1),
    };
    let model_ok = match c {
        Case::KMeans { .. } => !matches!(ck, Ctxk::Par(_)), // no trace for concurrent calls
        Case::ArcSwap { .. } => ck == Ctxk::InTask, // the driver reads the pool size off the op
        _ => true,
    };
    ctx.count(&format!(
        "context:{}:{}{}",
        kind,
        c.algo(),
        if let Ctxk::Par(_) = ck { format!(":pool{}", threads) } else { String::new() }
    ));
    ctx.count(if deterministic { "context:compared-with-sequential-run" } else { "context:oracle-only(nondeterministic)" });
    let prefix = format!("ctx {} {} {} ", if model_ok { "m" } else { "o" }, kind, m);
    run_case_x(ctx, c, Mode { prefix, ck, deterministic, ..Mode::default() });
}

/// TOOLS case: VnBest / VnFirst through `coupe_tools::parse_algorithm("vn-best" | "vn-first")` and a
/// `Problem` without mesh (the runner converts `weight::Array` rows into a fresh `Vec`); the ids must
/// equal those of the library call.  (The other four improvers need a mesh for their points /
/// adjacency in `coupe_tools::Problem`; not reached from here.)
fn run_tools(ctx: &mut Ctx, c: &Case) {
    let Case::Vn { best, ty, threads, ws, ids } = c.clone() else {
        ctx.record(format!("tl {}", format_op(c)), "bad-op".into(), false);
        return;
    };
    ctx.count(&format!("plumbing:tools:{}:{}", c.algo(), ty));
    let name = if best { "vn-best" } else { "vn-first" };
    let ws2 = ws.clone();
    let ty2 = ty.clone();
    let ids2 = ids.clone();
    let res: Caught<Result<Vec<usize>, String>> = catch_timeout(60, move || {
        let p = pool(threads);
        p.install(move || {
            let mut algo = coupe_tools::parse_algorithm::<2>(name).map_err(|e| format!("parse_algorithm: {}", e))?;
            let arr = if ty2 == "f64" {
                mesh_io::weight::Array::Floats(ws2.iter().map(|&w| vec![w as f64]).collect())
            } else {
                mesh_io::weight::Array::Integers(ws2.iter().map(|&w| vec![w]).collect())
            };
            let problem = coupe_tools::Problem::<2>::without_mesh(arr);
            let mut runner = algo.to_runner(&problem);
            let mut ids = ids2;
            runner(&mut ids).map_err(|e| format!("{}", e))?;
            Ok(ids)
        })
    });
    let (lib, _) = run_impl(c, false);
    let mut verdict: Option<(String, String)> = None;
    let out = match (&res, &lib) {
        (Caught::Ok(Ok(t)), Ran::Ok(l, _)) => {
            if t != l {
                verdict = Some((
                    format!("tools-dependent@{}", c.algo()),
                    format!("through coupe_tools: {}, library call: {}", show(t), show(l)),
                ));
            }
            format!("ok {}", join(t)).trim_end().to_string()
        }
        (Caught::Ok(Ok(t)), _) => {
            verdict = Some((format!("tools-dependent@{}", c.algo()), "library call did not return Ok".into()));
            format!("ok {}", join(t)).trim_end().to_string()
        }
        (Caught::Ok(Err(e)), _) => {
            verdict = Some((format!("unexpected-error@{}", c.algo()), format!("coupe_tools runner: {}", e)));
            format!("err {}", e.split_whitespace().collect::<Vec<_>>().join("_"))
        }
        (Caught::Panic(m), _) => {
            verdict = Some((panic_sig(m), format!("{} [tools {}]", m, c.algo())));
            format!("panic {}", m.split_whitespace().collect::<Vec<_>>().join(" "))
        }
        (Caught::Hang, _) => {
            verdict = Some((format!("hang@{}", c.algo()), "watchdog (60 s), tools runner".into()));
            "hang".into()
        }
    };
    if contract(c).is_err() {
        verdict = None;
    }
    let idx = ctx.record(format!("tl {}", format_op(c)), out, contract(c).is_ok());
    if let Some((sig, what)) = verdict {
        ctx.fail(idx, &sig, what);
    }
}

/// How a case is run and recorded (default: plain).
#[derive(Clone)]
struct Mode {
    /// the op text to record instead of the expanded op (large recipe cases; digest output)
    label: Option<String>,
    /// recorded in front of the op (`sp …`, `ctx …`)
    prefix: String,
    reuse: bool,
    tw: Tweak,
    ck: Ctxk,
    /// the result must equal the plain run's: signature class of a difference
    cmp_base: Option<&'static str>,
    /// `ck != Install`: the result of each call must equal a sequential run's
    deterministic: bool,
}

impl Default for Mode {
    fn default() -> Self {
        Mode {
            label: None,
            prefix: String::new(),
            reuse: false,
            tw: Tweak::default(),
            ck: Ctxk::Install,
            cmp_base: None,
            deterministic: false,
        }
    }
}

/// Runs one case; returns the implementation's id array when it returned `Ok`.
fn run_case(ctx: &mut Ctx, c: &Case) -> Option<Vec<usize>> {
    run_case_m(ctx, c, None, false)
}

/// At most 40 entries of an id array (messages stay short on large inputs).
fn show(ids: &[usize]) -> String {
    if ids.len() <= 40 {
        format!("{:?}", ids)
    } else {
        format!("{:?}… ({} entries)", &ids[..40], ids.len())
    }
}

fn fnv(ids: &[usize]) -> u64 {
    let mut h = 0xcbf2_9ce4_8422_2325u64;
    for &i in ids {
        h = (h ^ i as u64).wrapping_mul(0x1000_0000_01b3);
    }
    h
}

/// `label`: the op text to record instead of the expanded op (large recipe cases; the canonical
/// output is then a digest).  `reuse`: see `run_impl`; the result must not depend on the history of
/// the algorithm value (compared with a fresh value where the algorithm is deterministic).
fn run_case_m(ctx: &mut Ctx, c: &Case, label: Option<String>, reuse: bool) -> Option<Vec<usize>> {
    run_case_x(ctx, c, Mode { label, reuse, ..Mode::default() })
}

fn run_case_x(ctx: &mut Ctx, c: &Case, mode: Mode) -> Option<Vec<usize>> {
    if ctx.hang_limit_reached() {
        return None;
    }
    let Mode { label, prefix, reuse, tw, ck, cmp_base, deterministic } = mode;
    let c = c.clone();
    let algo = c.algo();
    let mut large = label.is_some();
    let in_contract = contract(&c);
    let ids0 = c.ids().to_vec();
    let n = ids0.len();
    let max0 = ids0.iter().copied().max().unwrap_or(0);
    // which ids the input uses (ids beyond 2^20 are outside the contract anyway)
    let mut in_input = vec![false; max0.min(1 << 20) + 1];
    for &i in &ids0 {
        if i < in_input.len() {
            in_input[i] = true;
        }
    }
    let uses = |i: usize| i < in_input.len() && in_input[i];
    let (ran, sweeps, all) = run_impl_x(&c, reuse, tw, ck);
    match (&c, &ran) {
        (Case::Vn { best: true, .. }, Ran::Hang) => {
            SEEN_VNBEST_FLOAT_HANG.store(true, std::sync::atomic::Ordering::SeqCst);
        }
        _ => {}
    }
    if reuse {
        ctx.count(&format!("reuse:{}", algo));
    }
    if large {
        // a large case is recorded with its full op (and compared exactly with the Lean model) when
        // the compiled model runs it in a few seconds: VnFirst always (0.2 s at 70 001 elements),
        // VnBest when moves x n stays small (3 s at 20 001 elements and 93 moves), KMeans up to
        // 8193 points and 10 sweeps (2 s with 64 clusters); FM (tie search), KL (minutes at 2049
        // vertices) and ArcSwap (C05's seq op stops at 64 vertices) are oracle only
        let cheap = match (&c, &ran) {
            (Case::Vn { best: false, .. }, _) => true,
            (Case::Vn { best: true, .. }, Ran::Ok(ids, _)) => {
                ids.iter().zip(&ids0).filter(|(a, b)| a != b).count() * n <= 2_000_000
            }
            (Case::KMeans { .. }, Ran::Ok(..)) => n <= 8193 && sweeps.len() <= 10,
            (Case::Fm { .. } | Case::Kl { .. }, _) => n <= 12,
            (Case::ArcSwap { threads, .. }, _) => n <= 64 && *threads == 1,
            _ => false,
        };
        ctx.count(if cheap { "large:model:compared-exactly" } else { "large:model:skip(oracle only)" });
        if cheap {
            large = false;
        }
    }
    let base = match (&label, large) {
        (Some(l), true) => l.clone(),
        _ => format!("{}{}{}", prefix, if reuse { "reuse " } else { "" }, format_op(&c)),
    };
    let was_large = label.is_some();
    let mut verdict: Option<(String, String)> = None;
    let mut suffix = String::new();
    if let Case::KMeans { .. } = c {
        if !large {
            suffix = format!(" => {}", encode_sweeps(&ids0, &sweeps));
        }
        ctx.count(&format!(
            "kmeans:sweeps:{}",
            match sweeps.len() {
                0 => "0",
                1 => "1",
                2..=5 => "2-5",
                6..=50 => "6-50",
                _ => ">50",
            }
        ));
        // the K5 situation: after some sweep a centre id owns no point
        let emptied = sweeps.iter().any(|(a, cids)| {
            let mut seen = vec![false; max0 + 1];
            for &i in a {
                if i <= max0 {
                    seen[i] = true;
                }
            }
            cids.iter().any(|&cid| cid > max0 || !seen[cid])
        });
        ctx.count(if emptied { "kmeans:some-cluster-emptied" } else { "kmeans:no-cluster-emptied" });
        if was_large {
            ctx.count(if emptied { "large:kmeans:some-cluster-emptied" } else { "large:kmeans:no-cluster-emptied" });
            ctx.count(&format!("large:kmeans:sweeps:{}", sweeps.len().min(9)));
        }
    }
    let out = match &ran {
        Ran::Ok(ids, md) => {
            if let (Some((mv, rw)), false) = (md, large) {
                suffix = format!(" => {} | {} | {}", list(ids), list(mv), list(rw));
            }
            // ORACLE (independent of any model, O(n)): only relabelled, within the input's range
            if ids.len() != n {
                verdict = Some((format!("length-changed@{}", algo), format!("{} ids in, {} out", n, ids.len())));
            } else if let Some(p) = ids.iter().position(|&i| i > max0) {
                verdict = Some((
                    format!("id-out-of-range@{}", algo),
                    format!("element {} got id {} > largest input id {} (ids {})", p, ids[p], max0, show(ids)),
                ));
            } else if matches!(c, Case::Fm { .. } | Case::Kl { .. }) && ids.iter().any(|&i| !uses(i)) {
                verdict = Some((
                    format!("id-out-of-range@{}", algo),
                    format!("two-way algorithm wrote a label the input does not use: {} -> {}", show(&ids0), show(ids)),
                ));
            }
            if let Case::KMeans { .. } = c {
                // what the hook saw must explain the result: ids only ever drawn from the input's ids,
                // and the array returned is the array after the last sweep
                let last = sweeps.last().map(|(a, _)| a.as_slice()).unwrap_or(&ids0[..]);
                if last != &ids[..] && verdict.is_none() && !matches!(ck, Ctxk::Par(_)) {
                    verdict = Some((
                        "kmeans-final-differs-from-last-sweep".into(),
                        format!("last sweep {}, returned {}", show(last), show(ids)),
                    ));
                }
                let mut s0 = ids0.clone();
                s0.sort();
                s0.dedup();
                for (k, (a, cids)) in sweeps.iter().enumerate() {
                    let bad_a = a.iter().any(|&i| !uses(i));
                    let mut s1 = cids.clone();
                    s1.sort();
                    if (bad_a || s1 != s0) && verdict.is_none() {
                        verdict = Some((
                            "kmeans-sweep-foreign-id".into(),
                            format!("sweep {}: assignments {}, center_ids {:?}, input {}", k, show(a), cids, show(&ids0)),
                        ));
                    }
                }
            }
            if reuse && verdict.is_none() {
                // same input => same output, whatever the algorithm value did before; compared with a
                // fresh value where the result is deterministic (FM: HashSet order; parallel f64 sums
                // of KMeans and free-running ArcSwap only in a single-worker pool)
                let deterministic = match &c {
                    Case::Vn { .. } | Case::Kl { .. } => true,
                    Case::Fm { .. } => false,
                    Case::ArcSwap { threads, .. } | Case::KMeans { threads, .. } => *threads == 1,
                };
                if deterministic {
                    ctx.count("reuse:compared-with-fresh-value");
                    match run_impl(&c, false).0 {
                        Ran::Ok(fresh, _) => {
                            if &fresh != ids {
                                let p = fresh.iter().zip(ids.iter()).position(|(a, b)| a != b).unwrap_or(0);
                                verdict = Some((
                                    format!("reuse-differs@{}", algo),
                                    format!(
                                        "second use of the same algorithm value gives {} but a fresh value gives {} (first difference at element {})",
                                        show(ids),
                                        show(&fresh),
                                        p
                                    ),
                                ));
                            }
                        }
                        _ => {
                            verdict = Some((
                                format!("reuse-differs@{}", algo),
                                "the fresh algorithm value did not return Ok".into(),
                            ));
                        }
                    }
                } else {
                    ctx.count("reuse:oracle-only(nondeterministic)");
                }
            }
            if let (Some(class), true) = (cmp_base, verdict.is_none()) {
                // special values / plumbing: exactly the ids of the plain run
                match run_impl(&c, false).0 {
                    Ran::Ok(plain, _) => {
                        if &plain != ids {
                            let p = plain.iter().zip(ids.iter()).position(|(a, b)| a != b).unwrap_or(0);
                            verdict = Some((
                                format!("{}@{}", class, algo),
                                format!(
                                    "{:?} gives {} but the plain run gives {} (first difference at element {})",
                                    tw,
                                    show(ids),
                                    show(&plain),
                                    p
                                ),
                            ));
                        }
                    }
                    _ => {
                        verdict = Some((format!("{}@{}", class, algo), "the plain run did not return Ok".into()));
                    }
                }
            }
            if ck != Ctxk::Install && verdict.is_none() {
                // calling context: every call gets the oracle; where the algorithm is deterministic
                // its result must be the one of a sequential run in a pool of its own
                let calls: Vec<(Case, &Ran)> = if all.is_empty() {
                    vec![(c.clone(), &ran)]
                } else {
                    all.iter().enumerate().map(|(j, r)| (rotated(&c, j), r)).collect()
                };
                for (j, (cj, rj)) in calls.iter().enumerate() {
                    if verdict.is_some() {
                        break;
                    }
                    match rj {
                        Ran::Ok(idsj, _) => {
                            if idsj.len() != n || idsj.iter().any(|&i| i > max0) {
                                verdict = Some((
                                    format!("id-out-of-range@{}", algo),
                                    format!("concurrent call {}: {} (largest input id {})", j, show(idsj), max0),
                                ));
                            } else if matches!(c, Case::Fm { .. } | Case::Kl { .. }) && idsj.iter().any(|&i| !uses(i)) {
                                verdict = Some((
                                    format!("id-out-of-range@{}", algo),
                                    format!("concurrent call {}: a label the input does not use: {}", j, show(idsj)),
                                ));
                            } else if deterministic {
                                match run_impl(cj, false).0 {
                                    Ran::Ok(seq, _) if &seq == idsj => {}
                                    Ran::Ok(seq, _) => {
                                        verdict = Some((
                                            format!("context-dependent@{}", algo),
                                            format!(
                                                "call {} in context {:?} gives {} but alone in its own pool {}",
                                                j,
                                                ck,
                                                show(idsj),
                                                show(&seq)
                                            ),
                                        ));
                                    }
                                    _ => {
                                        verdict = Some((
                                            format!("context-dependent@{}", algo),
                                            format!("call {}: the sequential run did not return Ok", j),
                                        ));
                                    }
                                }
                            }
                        }
                        Ran::Err(e) => {
                            verdict = Some((format!("unexpected-error@{}", algo), format!("concurrent call {}: Err({})", j, e)));
                        }
                        Ran::Panic(m) => {
                            verdict = Some((panic_sig(m), format!("concurrent call {}: {} [{}]", j, m, algo)));
                        }
                        Ran::Hang => {}
                    }
                }
            }
            if ids != &ids0 {
                ctx.count(&format!("{}:changed", algo));
            } else {
                ctx.count(&format!("{}:unchanged", algo));
            }
            if large {
                let changed = ids.iter().zip(&ids0).filter(|(a, b)| a != b).count();
                format!("ok n={} changed={} fnv={:016x}", ids.len(), changed, fnv(ids))
            } else {
                format!("ok {}", join(ids)).trim_end().to_string()
            }
        }
        Ran::Err(e) => {
            verdict = Some((format!("unexpected-error@{}", algo), format!("Err({}) on an input inside the contract", e)));
            format!("err {}", e)
        }
        Ran::Panic(m) => {
            // K9: the overflow of ArcSwap's merge formula is told apart from every other panic by
            // its place AND by the arithmetic condition under which it can happen at all
            match merge_overflow_bound(&c, &tw, m) {
                Some(why) => {
                    ctx.count("arcswap:merge-formula-overflow(K9)");
                    verdict = Some((format!("{}{}", panic_sig(m), K9_TAG), format!("{} [{}; {}]", m, algo, why)));
                }
                None => verdict = Some((panic_sig(m), format!("{} [{}]", m, algo))),
            }
            format!("panic {}", m)
        }
        Ran::Hang => {
            verdict = Some((format!("hang@{}", algo), "watchdog (20 s up to 1000 elements, else 60 s)".into()));
            "hang".to_string()
        }
    };
    match &in_contract {
        Ok(()) => ctx.count(&format!("{}:in-contract", algo)),
        Err(w) => {
            ctx.count(&format!("{}:outside-contract:{}", algo, w));
            // outside the quantifier the property claims nothing (errors and the documented
            // panics are legitimate); a hang is still reported
            if !matches!(ran, Ran::Hang) {
                verdict = None;
            }
        }
    }
    let nontrivial = in_contract.is_ok() && n >= 2 && max0 >= 1;
    let idx = ctx.record(format!("{}{}", base, suffix), out, nontrivial);
    if let Some((sig, what)) = verdict {
        ctx.fail(idx, &sig, what);
    }
    match ran {
        Ran::Ok(ids, _) => Some(ids),
        _ => None,
    }
}

// ------------------------------------------------------------------ K9: part weight x tasks

/// Suffix of the signature of finding K9 (KNOWN_FINDINGS.json: fixed, so it suppresses nothing).
const K9_TAG: &str = " @part-weight-x-tasks-overflows";

/// K9 (arc_swap.rs, repaired in /repo 192ea31; the tag is kept so that a return of the defect is
/// named): before the repair, at the end of a pass the per-task part-weight arrays were summed
/// (`*pw1 += pw2` in the rayon reduce) and `PW <- sum - (thread_count - 1) * PW` is computed in the
/// weight type.  A task's copy of a part weight never exceeds `PW + (max_part_weight - PW) /
/// thread_count`, so the sum over the tasks is at most `thread_count x max(PW, max_part_weight)`.
/// `Some(why)` iff the panic `m` is an integer add / multiply overflow raised in arc_swap.rs AND
/// that bound - thread_count computed by the code's own `work_share`, the largest input part weight
/// or the cap, whichever is larger - exceeds the range of the weight type the case is run with.
/// Below the bound the merge formula cannot overflow: an overflow there is another defect and keeps
/// its ordinary signature.
fn merge_overflow_bound(c: &Case, tw: &Tweak, m: &str) -> Option<String> {
    let Case::ArcSwap { threads, f64w, mi, ids, ws, .. } = c else { return None };
    if !(m.contains("arc_swap.rs") && (m.contains("attempt to add with overflow") || m.contains("attempt to multiply with overflow"))) {
        return None;
    }
    if ids.is_empty() || ids.len() != ws.len() || *threads == 0 {
        return None;
    }
    // the weight type of the call (see `call_case`)
    let small = ws.iter().all(|&w| (0..1 << 24).contains(&w));
    let plumb = if matches!(tw.plumb, 8 | 9 | 11) && !small { 0 } else { tw.plumb };
    let (ty, type_max): (&str, i128) = match plumb {
        8 => ("i32", i32::MAX as i128),
        9 => ("u32", u32::MAX as i128),
        10 => ("u64", u64::MAX as i128),
        11 => return None,
        _ if *f64w => return None,
        _ => ("i64", i64::MAX as i128),
    };
    let k = (1 + ids.iter().copied().max().unwrap_or(0)).max(2);
    let mut loads = vec![0i128; k];
    for (&i, &w) in ids.iter().zip(ws) {
        loads[i] += w as i128;
    }
    let total: i128 = loads.iter().sum();
    if total > type_max {
        return None; // outside the contract anyway
    }
    let mut bound = loads.iter().copied().max().unwrap_or(0);
    if let Some(mi) = mi {
        let ideal = total as f64 / k as f64;
        bound = bound.max((ideal + mi * ideal) as i128);
    }
    let (_, tasks) = coupe::verif::work_share(ids.len(), *threads);
    if bound * tasks as i128 > type_max {
        Some(format!(
            "{} weights, total {} fits, largest part weight or cap {} x {} tasks = {} > {}",
            ty,
            total,
            bound,
            tasks,
            bound * tasks as i128,
            type_max
        ))
    } else {
        None
    }
}

/// `pwx <threads> <i|u> <none|hex cap> <path|grid|sparse|k9> <n> <k> <e> <seed>`: ArcSwap on `i64`
/// (`i`) or `u64` (`u`) weights whose PART weights lie in [2^59, 2^e] (e = 59..62) while the TOTAL
/// fits the type (inside the usage contract: "sums that do not overflow"): every part holds 1..3
/// heavy vertices, the others weigh 0..3.  The expansion is deterministic in the fields.  `k9`: the
/// recorded reproducer of K9 (path on 4096 vertices, four vertices of weight 2^60).  The Lean
/// driver answers `skip part-weight-x-tasks-may-overflow (oracle only)`: the model computes in
/// exact integers and several tasks run freely.
fn expand_pwx(threads: usize, unsigned: bool, mi: Option<f64>, shape: &str, n: usize, k: usize, e: u32, seed: u64) -> Option<Case> {
    if shape == "k9" {
        if n != 4096 || k != 2 || e != 60 {
            return None;
        }
        let mut rows: Rows = vec![vec![]; n];
        for v in 0..n {
            if v > 0 {
                rows[v].push((v - 1, 1));
            }
            if v + 1 < n {
                rows[v].push((v + 1, 1));
            }
        }
        let mut ws = vec![1i64; n];
        for p in [10, 11, 4085, 4086] {
            ws[p] = 1 << 60;
        }
        let mut ids: Vec<usize> = (0..n).map(|i| (i >= 2048) as usize).collect();
        ids[2047] = 1;
        ids[2045] = 1;
        return Some(Case::ArcSwap { threads, f64w: false, mi, rows, ids, ws });
    }
    let mut rng = Rng::new(seed ^ 0xC02_9A27);
    let rows: Rows = match shape {
        "path" => {
            let mut rows: Rows = vec![vec![]; n];
            for v in 0..n {
                if v > 0 {
                    rows[v].push((v - 1, 1));
                }
                if v + 1 < n {
                    rows[v].push((v + 1, 1));
                }
            }
            rows
        }
        "grid" => large_graph(&mut rng, n, 0),
        "sparse" => large_graph(&mut rng, n, 1),
        _ => return None,
    };
    // blocks; one heavy vertex at least per block keeps its id, about one other vertex in 16 gets
    // a random id (a ragged cut: there is something to improve)
    let mut ids: Vec<usize> = (0..n).map(|i| i * k / n).collect();
    let mut ws: Vec<i64> = (0..n).map(|_| rng.range(0, 3)).collect();
    // the heavy load of a part: at most 2^e, and k of them (plus the light weights) fit i64
    let top: i64 = (1i64 << e).min((i64::MAX - 4 * n as i64) / k as i64);
    let mut heavy = vec![false; n];
    for p in 0..k {
        let members: Vec<usize> = (0..n).filter(|&i| ids[i] == p).collect();
        // (unsigned weights may start above the cap too: see f2_*.case, repaired)
        let load = (top - rng.range(0, top / 4)).max(1 << 59);
        let h = 1 + rng.usize(3.min(members.len()));
        let mut left = load;
        for j in 0..h {
            let mut v = members[rng.usize(members.len())];
            while heavy[v] {
                v = members[rng.usize(members.len())];
            }
            heavy[v] = true;
            let w = if j + 1 == h { left } else { load / h as i64 };
            ws[v] = w;
            left -= w;
        }
    }
    for i in 0..n {
        if !heavy[i] && rng.chance(1, 16) {
            ids[i] = rng.usize(k);
        }
    }
    let _ = unsigned;
    Some(Case::ArcSwap { threads, f64w: false, mi, rows, ids, ws })
}

fn run_pwx(ctx: &mut Ctx, op: &str) {
    let t: Vec<&str> = op.split_whitespace().collect();
    let num = |s: &str| -> Option<u64> {
        if s.is_empty() || !s.bytes().all(|b| b.is_ascii_digit()) {
            return None;
        }
        s.parse().ok()
    };
    let parsed = (|| {
        if t.len() != 9 {
            return None;
        }
        let threads = num(t[1])? as usize;
        let unsigned = match t[2] {
            "i" => false,
            "u" => true,
            _ => return None,
        };
        let mi = match t[3] {
            "none" => None,
            h => {
                let bits = u64::from_str_radix(h, 16).ok()?;
                // 0.0 ..= 1.0
                if h.starts_with('+') || h.len() > 16 || bits > 0x3ff0_0000_0000_0000 {
                    return None;
                }
                Some(f64::from_bits(bits))
            }
        };
        let n = num(t[5])? as usize;
        let k = num(t[6])? as usize;
        let e = num(t[7])? as u32;
        let seed = num(t[8])?;
        if threads < 1 || threads > 16 || n < 100 || n > 20000 || k < 2 || k > 8 || e < 59 || e > 62 {
            return None;
        }
        Some((expand_pwx(threads, unsigned, mi, t[4], n, k, e, seed)?, unsigned))
    })();
    let Some((c, unsigned)) = parsed else {
        ctx.record(op.to_string(), "bad-op".into(), false);
        return;
    };
    if let Case::ArcSwap { threads, ids, ws, mi, .. } = &c {
        let k = 1 + ids.iter().copied().max().unwrap_or(0);
        let mut loads = vec![0i128; k];
        for (&i, &w) in ids.iter().zip(ws) {
            loads[i] += w as i128;
        }
        let total: i128 = loads.iter().sum();
        // the generator's promise: inside the contract (the total fits the weight type, i64 for both)
        if !(total <= i64::MAX as i128 && loads.iter().all(|&l| l >= 1 << 59 && l <= (1 << 62) + 4 * ids.len() as i128)) {
            ctx.count("pwx:GENERATOR-BUG(not run)");
            ctx.record(op.to_string(), "bad-op".into(), false);
            return;
        }
        let (_, tasks) = coupe::verif::work_share(ids.len(), *threads);
        let type_max = if unsigned { u64::MAX as i128 } else { i64::MAX as i128 };
        let max = loads.iter().copied().max().unwrap_or(0);
        ctx.count(&format!("pwx:{}:{}", if unsigned { "u64" } else { "i64" }, t[4]));
        ctx.count(&format!("pwx:tasks:{}", tasks));
        ctx.count(&format!("pwx:cap:{}", cap_name(*mi)));
        ctx.count(if max * tasks as i128 > type_max {
            "pwx:part-weight-x-tasks:above-type-range"
        } else {
            "pwx:part-weight-x-tasks:within-type-range"
        });
    }
    let tw = Tweak { plumb: if unsigned { 10 } else { 0 }, ..Tweak::default() };
    let before = ctx.failures.len();
    let out = run_case_x(ctx, &c, Mode { label: Some(op.to_string()), tw, ..Mode::default() });
    ctx.count(if out.is_some() {
        "pwx:returned"
    } else if ctx.failures.len() > before {
        "pwx:failed"
    } else {
        "pwx:other"
    });
}

/// The K9 stream (every run): see `expand_pwx`.
fn pwx_stream(ctx: &mut Ctx) {
    const SHAPES: [&str; 3] = ["path", "grid", "sparse"];
    const POOLS: [usize; 5] = [1, 2, 4, 8, 16];
    const SIZES: [usize; 5] = [257, 1000, 4096, 6001, 12289];
    // the reproducer's family: every pool size
    for th in POOLS {
        let s = ctx.rng.below(1 << 40);
        run_op(ctx, &format!("pwx {} i none k9 4096 2 60 {}", th, s));
    }
    let rounds = ctx.budget(3, 12);
    for r in 0..rounds {
        for (si, shape) in SHAPES.iter().enumerate() {
            for (pi, th) in POOLS.iter().enumerate() {
                let unsigned = (si + pi + r) % 3 == 2;
                let mi = if (si + 2 * pi + r) % 2 == 0 { "none" } else { "3fb999999999999a" };
                let n = SIZES[ctx.rng.usize(if ctx.tier == Tier::Quick { 4 } else { 5 })];
                let k = *ctx.rng.pick(&[2usize, 2, 3, 4, 8]);
                let e = 59 + ctx.rng.usize(4);
                let s = ctx.rng.below(1 << 40);
                run_op(ctx, &format!("pwx {} {} {} {} {} {} {} {}", th, if unsigned { "u" } else { "i" }, mi, shape, n, k, e, s));
            }
        }
    }
}

// ------------------------------------------------------------------ large / corner recipes

/// `large <algo> <threads> <n> <k> <order> <variant> <reuse 0|1> <seed>`: a case described by its
/// recipe (the op line stays short; the expansion below is deterministic in the line's fields).
///  order   `blocked` (ids ascending, k equal blocks) | `runs` (ascending runs of 4096 ids – shorter
///          when n < 4096 k – cycling through the parts) | `random`
///  variant selects weights / graph / point set / settings (see `expand_large`)
fn run_large(ctx: &mut Ctx, op: &str) {
    let t: Vec<&str> = op.split_whitespace().collect();
    let parsed = (|| {
        if t.len() != 9 {
            return None;
        }
        let algo = t[1];
        let threads: usize = t[2].parse().ok()?;
        let n: usize = t[3].parse().ok()?;
        let k: usize = t[4].parse().ok()?;
        let order = t[5];
        let variant: usize = t[6].parse().ok()?;
        let reuse = match t[7] {
            "0" => false,
            "1" => true,
            _ => return None,
        };
        let seed: u64 = t[8].parse().ok()?;
        if threads < 1 || threads > 16 || n < 2 || n > 400_000 || k < 2 || k > n || k > 4096 {
            return None;
        }
        Some((expand_large(algo, threads, n, k, order, variant, seed)?, reuse))
    })();
    let Some((c, reuse)) = parsed else {
        ctx.record(op.to_string(), "bad-op".into(), false);
        return;
    };
    let n = c.ids().len();
    ctx.count(&format!(
        "large:{}",
        match n {
            0..=4096 => "n<=4096",
            4097..=8192 => "4097..8192",
            8193..=16384 => "8193..16384",
            16385..=65536 => "16385..65536",
            _ => ">65536",
        }
    ));
    ctx.count(&format!("large:{}:{}", c.algo(), t[5]));
    ctx.count(&format!("large:threads:{}", t[2]));
    if t[4].parse::<usize>().map(|k| k >= 63).unwrap_or(false) {
        ctx.count(&format!("corner:parts:{}", t[4]));
    }
    let t0 = std::time::Instant::now();
    // `C02_EXPAND=1` records the expanded op instead of the recipe (to time the model by hand)
    let label = if std::env::var("C02_EXPAND").is_ok() { None } else { Some(op.to_string()) };
    run_case_m(ctx, &c, label, reuse);
    if std::env::var("C02_TIMES").is_ok() {
        eprintln!("{:6.2}s {}", t0.elapsed().as_secs_f64(), op);
    }
    if t0.elapsed().as_secs() >= 10 {
        ctx.count("large:slower-than-10s");
    }
}

fn large_ids(rng: &mut Rng, n: usize, k: usize, order: &str) -> Option<Vec<usize>> {
    let mut ids: Vec<usize> = match order {
        "blocked" => (0..n).map(|i| i * k / n).collect(),
        "runs" => {
            let mut r = 4096usize;
            while r > 1 && r * k > n {
                r /= 2;
            }
            (0..n).map(|i| (i / r) % k).collect()
        }
        "random" => (0..n).map(|_| rng.usize(k)).collect(),
        _ => return None,
    };
    // every id is used (a no-op except for tiny n / random order)
    let mut cnt = vec![0usize; k];
    for &i in &ids {
        cnt[i] += 1;
    }
    for p in 0..k {
        if cnt[p] == 0 {
            let q = (0..n).find(|&q| cnt[ids[q]] >= 2)?;
            cnt[ids[q]] -= 1;
            ids[q] = p;
            cnt[p] = 1;
        }
    }
    Some(ids)
}

/// weights: 0 unit | 1 random 0..=1000 | 2 huge (total just below 2^61 for the integer types, just
/// below 2^53 for f64 – sums still exact / without overflow) | 3 many zeros
fn large_weights(rng: &mut Rng, n: usize, shape: usize, f64w: bool) -> Vec<i64> {
    match shape % 4 {
        0 => vec![1; n],
        1 => (0..n).map(|_| rng.range(0, 1000)).collect(),
        2 => {
            let top: i64 = if f64w { 1 << 52 } else { 1 << 60 };
            let each = top / n as i64;
            (0..n).map(|_| each - rng.range(0, 1000)).collect()
        }
        _ => (0..n).map(|_| if rng.chance(1, 4) { rng.range(1, 9) } else { 0 }).collect(),
    }
}

/// graph: 0 grid numbered row by row, rows of 4096 vertices (64 when n < 8192), last row partial
///        | 1 path + one random chord per vertex (edge weights 1..=3)
fn large_graph(rng: &mut Rng, n: usize, shape: usize) -> Rows {
    let mut rows: Rows = vec![vec![]; n];
    let mut add = |rows: &mut Rows, u: usize, v: usize, w: i64| {
        if u != v && !rows[u].iter().any(|(x, _)| *x == v) {
            rows[u].push((v, w));
            rows[v].push((u, w));
        }
    };
    if shape % 2 == 0 {
        let b = if n >= 8192 { 4096 } else { 64 };
        for v in 0..n {
            if (v + 1) % b != 0 && v + 1 < n {
                add(&mut rows, v, v + 1, 1);
            }
            if v + b < n {
                add(&mut rows, v, v + b, 1);
            }
        }
    } else {
        for v in 1..n {
            let w = rng.range(1, 3);
            add(&mut rows, v, v - 1, w);
            let u = rng.usize(n);
            let w = rng.range(1, 3);
            add(&mut rows, v, u, w);
        }
    }
    for r in rows.iter_mut() {
        r.sort();
    }
    rows
}

fn expand_large(algo: &str, threads: usize, n: usize, k: usize, order: &str, variant: usize, seed: u64) -> Option<Case> {
    let mut rng = Rng::new(seed ^ 0xC02_1A26E);
    let ids = large_ids(&mut rng, n, k, order)?;
    let v = variant;
    Some(match algo {
        "vnbest" | "vnfirst" => {
            let ty = ["i64", "u64", "f64"][(v / 4) % 3];
            let ws = large_weights(&mut rng, n, v, ty == "f64");
            Case::Vn { best: algo == "vnbest", ty: ty.into(), threads, ws, ids }
        }
        "kl" => {
            if k != 2 {
                return None;
            }
            let rows = large_graph(&mut rng, n, v);
            Case::Kl {
                threads,
                mp: Some(1 + (v / 2) % 2),
                mf: if (v / 4) % 2 == 0 { None } else { Some(100) },
                mb: 1,
                wlen: n,
                ids,
                rows,
            }
        }
        "fm" => {
            if k != 2 {
                return None;
            }
            let rows = large_graph(&mut rng, n, v);
            let f64w = (v / 8) % 2 == 1;
            let ws = large_weights(&mut rng, n, v / 2, f64w);
            Case::Fm {
                threads,
                f64w,
                mi: if (v / 16) % 2 == 0 { None } else { Some(0.1) },
                mb: if (v / 32) % 2 == 0 { 1 } else { 50 },
                mp: Some(1 + (v / 64) % 2),
                mm: None,
                rows,
                ids,
                ws,
            }
        }
        "arcswap" => {
            let rows = large_graph(&mut rng, n, v);
            let f64w = (v / 8) % 2 == 1;
            let ws = large_weights(&mut rng, n, v / 2, f64w);
            Case::ArcSwap { threads, f64w, mi: if (v / 16) % 2 == 0 { None } else { Some(0.1) }, rows, ids, ws }
        }
        "kmeans2" | "kmeans3" => {
            let dim = if algo == "kmeans2" { 2 } else { 3 };
            let mut coords = Vec::with_capacity(n * dim);
            match v % 3 {
                0 => {
                    // concentric rings around the origin, ring = the point's own part: every centre
                    // is (nearly) the origin, so whole clusters lose all their points in a sweep
                    for (i, &p) in ids.iter().enumerate() {
                        let r = 100.0 * (p + 1) as f64;
                        let a = i as f64 * 2.399963229728653; // golden angle
                        coords.push((r * a.cos() * 16.0).round() as i64);
                        coords.push((r * a.sin() * 16.0).round() as i64);
                        if dim == 3 {
                            coords.push(0);
                        }
                    }
                }
                1 => {
                    for _ in 0..n * dim {
                        coords.push(rng.range(0, 1 << 20));
                    }
                }
                _ => {
                    // lattice numbered row by row, rows of 4096 points
                    for i in 0..n as i64 {
                        coords.push((i % 4096) * 16);
                        coords.push((i / 4096) * 16);
                        if dim == 3 {
                            coords.push(((i * 7) % 5) * 16);
                        }
                    }
                }
            }
            let ws = large_weights(&mut rng, n, if (v / 3) % 2 == 0 { 0 } else { 1 }, true);
            Case::KMeans {
                dim,
                threads,
                // the balance loop never meets its tolerance: every sweep of max_balance_iter runs
                tol: if (v / 6) % 2 == 0 { 0.0 } else { 1e-9 },
                delta: 0.0,
                max_iter: (v / 12) % 2,
                max_balance_iter: [3usize, 1, 5][(v / 24) % 3],
                erode: false, // max_distance is quadratic in the cluster size
                mbr: (v / 72) % 2 == 1,
                ids,
                coords,
                ws,
            }
        }
        _ => return None,
    })
}

fn with_ids(c: &Case, new_ids: Vec<usize>) -> Case {
    let mut c = c.clone();
    match &mut c {
        Case::Vn { ids, .. }
        | Case::Kl { ids, .. }
        | Case::Fm { ids, .. }
        | Case::ArcSwap { ids, .. }
        | Case::KMeans { ids, .. } => *ids = new_ids,
    }
    c
}

/// Runs a generated case and, one time in four, runs the algorithm again on its own output
/// (a locally optimal input) when that output is still inside the contract.
fn run_gen(ctx: &mut Ctx, c: Case) {
    let out = run_case(ctx, &c);
    if ctx.rng.chance(1, 4) {
        if let Some(ids) = out {
            let c2 = with_ids(&c, ids);
            if contract(&c2).is_ok() {
                ctx.count(&format!("stream:rerun-on-own-output:{}", c2.algo()));
                run_case(ctx, &c2);
            }
        }
    }
}

// ------------------------------------------------------------------ generator

type Edges = Vec<(usize, usize, i64)>;

fn rows_of(n: usize, edges: &Edges) -> Rows {
    let mut rows: Rows = vec![vec![]; n];
    for &(u, v, w) in edges {
        if u != v && !rows[u].iter().any(|(x, _)| *x == v) {
            rows[u].push((v, w));
            rows[v].push((u, w));
        }
    }
    for r in rows.iter_mut() {
        r.sort();
    }
    rows
}

/// A symmetric loop-free graph on exactly `n` vertices with positive integer edge weights.
fn gen_graph(ctx: &mut Ctx, n: usize) -> (Rows, &'static str) {
    // expected degree stays below ~12 on large inputs (debug build, instrumented atomics)
    let cap = |den: u64| -> u64 { if n > 60 { den.min(1200 / n as u64) } else { den } };
    let wmode = ctx.rng.usize(3);
    let ew = |rng: &mut Rng| match wmode {
        0 => 1,
        1 => rng.range(1, 3),
        _ => rng.range(1, 1000),
    };
    let mut edges: Edges = vec![];
    let shape = match ctx.rng.usize(8) {
        0 | 1 => {
            let den = cap(*ctx.rng.pick(&[15u64, 30, 60]));
            for u in 0..n {
                for v in 0..u {
                    if ctx.rng.chance(den, 100) {
                        edges.push((u, v, ew(&mut ctx.rng)));
                    }
                }
            }
            "random"
        }
        2 | 3 => {
            // rows of width b (the last one may be shorter)
            let b = 1 + ctx.rng.usize(n.min(6));
            for v in 0..n {
                if (v + 1) % b != 0 && v + 1 < n {
                    edges.push((v, v + 1, ew(&mut ctx.rng)));
                }
                if v + b < n {
                    edges.push((v, v + b, ew(&mut ctx.rng)));
                }
            }
            "grid"
        }
        4 => {
            let n1 = 1 + ctx.rng.usize(n - 1);
            for u in 0..n {
                for v in 0..u {
                    if (u < n1) == (v < n1) && ctx.rng.chance(cap(50), 100) {
                        edges.push((u, v, ew(&mut ctx.rng)));
                    }
                }
            }
            "disconnected"
        }
        5 => {
            let live: Vec<bool> = (0..n).map(|_| ctx.rng.chance(60, 100)).collect();
            for u in 0..n {
                for v in 0..u {
                    if live[u] && live[v] && ctx.rng.chance(cap(40), 100) {
                        edges.push((u, v, ew(&mut ctx.rng)));
                    }
                }
            }
            "isolated"
        }
        6 => {
            let kind = ctx.rng.usize(3);
            for u in 1..n {
                match kind {
                    0 => edges.push((u, u - 1, ew(&mut ctx.rng))),
                    1 => edges.push((u, 0, ew(&mut ctx.rng))),
                    _ => {
                        edges.push((u, u - 1, ew(&mut ctx.rng)));
                        if u == n - 1 && n > 2 {
                            edges.push((u, 0, ew(&mut ctx.rng)));
                        }
                    }
                }
            }
            "path-star-cycle"
        }
        _ => {
            if n <= 8 {
                for u in 0..n {
                    for v in 0..u {
                        edges.push((u, v, ew(&mut ctx.rng)));
                    }
                }
                "complete"
            } else {
                "edgeless"
            }
        }
    };
    (rows_of(n, &edges), shape)
}

/// A valid partition of `n ≥ k` elements into exactly `k` parts.
fn gen_valid_ids(ctx: &mut Ctx, n: usize, k: usize) -> (Vec<usize>, &'static str) {
    let (mut ids, name): (Vec<usize>, &'static str) = match ctx.rng.usize(6) {
        0 => {
            // one big part, all others of size 1
            let big = ctx.rng.usize(k);
            let mut v = vec![big; n];
            let mut pos: Vec<usize> = (0..n).collect();
            ctx.rng.shuffle(&mut pos);
            let mut q = 0;
            for p in 0..k {
                if p != big {
                    v[pos[q]] = p;
                    q += 1;
                }
            }
            (v, "ids:singletons")
        }
        1 => ((0..n).map(|i| i * k / n).collect(), "ids:blocks"),
        2 => ((0..n).map(|i| i % k).collect(), "ids:interleaved"),
        3 => ((0..n).map(|i| k - 1 - i * k / n).collect(), "ids:blocks-reversed"),
        _ => ((0..n).map(|_| ctx.rng.usize(k)).collect(), "ids:random"),
    };
    // repair: every id must be used
    for p in 0..k {
        if !ids.contains(&p) {
            // take an element from a part that has at least two
            let mut cand: Vec<usize> =
                (0..n).filter(|&i| ids.iter().filter(|&&x| x == ids[i]).count() >= 2).collect();
            ctx.rng.shuffle(&mut cand);
            ids[cand[0]] = p;
        }
    }
    (ids, name)
}

fn gen_weights(ctx: &mut Ctx, n: usize) -> (Vec<i64>, &'static str) {
    let (mut w, name): (Vec<i64>, &'static str) = match ctx.rng.usize(6) {
        0 => (vec![1; n], "w:unit"),
        1 => ((0..n).map(|_| ctx.rng.range(1, 9)).collect(), "w:small"),
        2 => ((0..n).map(|_| ctx.rng.range(0, 2)).collect(), "w:zeros"),
        3 => {
            let mut w: Vec<i64> = (0..n).map(|_| ctx.rng.range(0, 5)).collect();
            let k = ctx.rng.usize(n);
            w[k] = ctx.rng.range(50, 500);
            (w, "w:dominant")
        }
        4 => ((0..n).map(|_| ctx.rng.range(0, 1_000_000)).collect(), "w:wide"),
        _ => {
            // all zero but one
            let mut w = vec![0; n];
            let k = ctx.rng.usize(n);
            w[k] = ctx.rng.range(1, 9);
            (w, "w:single-nonzero")
        }
    };
    if w.iter().all(|&x| x == 0) {
        w[0] = 1;
    }
    (w, name)
}

const CAPS: [Option<f64>; 4] = [None, Some(0.0), Some(0.1), Some(1.0)];

fn cap_name(mi: Option<f64>) -> String {
    match mi {
        None => "None".into(),
        Some(x) => format!("{}", x),
    }
}

fn threads_of(ctx: &mut Ctx) -> usize {
    *ctx.rng.pick(&[1usize, 4])
}

fn gen_vn(ctx: &mut Ctx, best: bool) -> Case {
    let k = 2 + ctx.rng.usize(7);
    let span = if ctx.rng.chance(1, 4) { 2 } else { 24 };
    let n = k + ctx.rng.usize(span);
    let (ids, im) = gen_valid_ids(ctx, n, k);
    let (ws, wm) = gen_weights(ctx, n);
    let ty = *ctx.rng.pick(&["i64", "u64", "f64"]);
    let a = if best { "vnbest" } else { "vnfirst" };
    ctx.count(&format!("{}:{}", a, im));
    ctx.count(&format!("{}:{}", a, wm));
    ctx.count(&format!("{}:parts:{}", a, k));
    Case::Vn { best, ty: ty.into(), threads: threads_of(ctx), ws, ids }
}

fn lim(ctx: &mut Ctx, n: usize) -> Option<usize> {
    match ctx.rng.usize(6) {
        0 | 1 => None,
        2 => Some(0),
        3 => Some(1),
        4 => Some(n),
        _ => Some(1 + ctx.rng.usize(4)),
    }
}

fn gen_kl(ctx: &mut Ctx) -> Case {
    let n = 2 + ctx.rng.usize(if ctx.quick() { 11 } else { 15 });
    let (ids, im) = gen_valid_ids(ctx, n, 2);
    let (rows, shape) = gen_graph(ctx, n);
    let mp = lim(ctx, n);
    let mf = lim(ctx, n);
    let mb = *ctx.rng.pick(&[0usize, 1, 1, 2, 5]);
    ctx.count(&format!("kl:{}", im));
    ctx.count(&format!("kl:graph:{}", shape));
    ctx.count(&format!("kl:max_passes:{}", opt_none(mp.map(|x| x.min(2)))));
    ctx.count(&format!("kl:max_flips:{}", opt_none(mf.map(|x| x.min(2)))));
    Case::Kl { threads: threads_of(ctx), mp, mf, mb, wlen: n, ids, rows }
}

fn gen_fm(ctx: &mut Ctx) -> Case {
    let n = 2 + ctx.rng.usize(if ctx.quick() { 9 } else { 12 });
    let (ids, im) = gen_valid_ids(ctx, n, 2);
    let (rows, shape) = gen_graph(ctx, n);
    let (ws, wm) = gen_weights(ctx, n);
    let mi = *ctx.rng.pick(&CAPS);
    let mb = *ctx.rng.pick(&[0usize, 1, 2, 5, usize::MAX]);
    let mp = lim(ctx, n);
    let mm = lim(ctx, n);
    ctx.count(&format!("fm:{}", im));
    ctx.count(&format!("fm:graph:{}", shape));
    ctx.count(&format!("fm:{}", wm));
    ctx.count(&format!("fm:max_imbalance:{}", cap_name(mi)));
    ctx.count(&format!("fm:max_passes:{}", opt_none(mp.map(|x| x.min(2)))));
    ctx.count(&format!("fm:max_moves:{}", opt_none(mm.map(|x| x.min(2)))));
    Case::Fm { threads: threads_of(ctx), f64w: ctx.rng.chance(1, 3), mi, mb, mp, mm, rows, ids, ws }
}

fn gen_arcswap(ctx: &mut Ctx, large: bool) -> Case {
    let k = 2 + ctx.rng.usize(7);
    let span = if ctx.rng.chance(1, 4) { 2 } else { 40 };
    let n = if large { 100 + ctx.rng.usize(200) } else { k + ctx.rng.usize(span) };
    let (ids, im) = gen_valid_ids(ctx, n, k);
    let (rows, shape) = gen_graph(ctx, n);
    let (ws, wm) = gen_weights(ctx, n);
    let mi = *ctx.rng.pick(&CAPS);
    ctx.count(&format!("arcswap:{}", im));
    ctx.count(&format!("arcswap:graph:{}", shape));
    ctx.count(&format!("arcswap:{}", wm));
    ctx.count(&format!("arcswap:max_imbalance:{}", cap_name(mi)));
    ctx.count(&format!("arcswap:parts:{}", k));
    let threads = threads_of(ctx);
    // single-worker i64 runs are compared exactly with C05's sequential model
    let f64w = if threads == 1 { ctx.rng.chance(1, 6) } else { ctx.rng.chance(1, 3) };
    ctx.count(&format!("arcswap:threads:{}:{}", threads, if f64w { "f64" } else { "i64" }));
    Case::ArcSwap { threads, f64w, mi, rows, ids, ws }
}

fn gen_kmeans(ctx: &mut Ctx, large: bool) -> Case {
    let dim = 2 + ctx.rng.usize(2);
    let k = 2 + ctx.rng.usize(7);
    let span = if ctx.rng.chance(1, 4) { 2 } else { 40 };
    let n = if large { 300 + ctx.rng.usize(300) } else { k + ctx.rng.usize(span) };
    let (ids, im) = gen_valid_ids(ctx, n, k);
    let (pm, coords): (&str, Vec<i64>) = match ctx.rng.usize(7) {
        0 => ("pts:uniform", (0..n * dim).map(|_| ctx.rng.range(0, 1023)).collect()),
        1 => {
            // k' blobs
            let kb = 1 + ctx.rng.usize(k + 1);
            let cs: Vec<i64> = (0..kb * dim).map(|_| ctx.rng.range(0, 2000)).collect();
            let mut v = vec![];
            for _ in 0..n {
                let b = ctx.rng.usize(kb);
                for d in 0..dim {
                    v.push(cs[b * dim + d] + ctx.rng.range(-40, 40));
                }
            }
            ("pts:blobs", v)
        }
        2 => {
            // on a line (axis parallel or oblique)
            let dir: Vec<i64> = (0..dim).map(|_| ctx.rng.range(-2, 2)).collect();
            let mut v = vec![];
            for _ in 0..n {
                let t = ctx.rng.range(0, 60);
                for d in 0..dim {
                    v.push(t * dir[d] * 16);
                }
            }
            ("pts:collinear", v)
        }
        3 => {
            let p: Vec<i64> = (0..dim).map(|_| ctx.rng.range(-50, 50)).collect();
            ("pts:identical", (0..n * dim).map(|i| p[i % dim]).collect())
        }
        4 => {
            // few distinct positions, many duplicates (the K5 shape)
            let m = 1 + ctx.rng.usize(3);
            let ps: Vec<i64> = (0..m * dim).map(|_| ctx.rng.range(0, 4) * 32).collect();
            let mut v = vec![];
            for _ in 0..n {
                let b = ctx.rng.usize(m);
                for d in 0..dim {
                    v.push(ps[b * dim + d]);
                }
            }
            ("pts:duplicates", v)
        }
        5 => {
            // integer lattice
            let b = 1 + ctx.rng.usize(6) as i64;
            let mut v = vec![];
            for i in 0..n as i64 {
                v.push((i % b) * 16);
                v.push((i / b) * 16);
                if dim == 3 {
                    v.push(0);
                }
            }
            ("pts:lattice", v)
        }
        _ => ("pts:wide", (0..n * dim).map(|_| ctx.rng.range(-1_000_000_000, 1_000_000_000)).collect()),
    };
    let (ws, wm) = gen_weights(ctx, n);
    let max_iter = if large { *ctx.rng.pick(&[5usize, 50]) } else { *ctx.rng.pick(&[0usize, 1, 5, 5, 500]) };
    let max_balance_iter = 1 + ctx.rng.usize(3);
    let tol = *ctx.rng.pick(&[0.0f64, 0.5, 5.0, 1e9]);
    let delta = *ctx.rng.pick(&[0.0f64, 0.01, 1.0, 1e9]);
    let erode = ctx.rng.chance(1, 3);
    let mbr = ctx.rng.chance(1, 3);
    let a = if dim == 2 { "kmeans2" } else { "kmeans3" };
    ctx.count(&format!("{}:{}", a, im));
    ctx.count(&format!("{}:{}", a, pm));
    ctx.count(&format!("{}:{}", a, wm));
    ctx.count(&format!("{}:parts:{}", a, k));
    ctx.count(&format!("kmeans:max_iter:{}", max_iter));
    ctx.count(&format!("kmeans:max_balance_iter:{}", max_balance_iter));
    ctx.count(&format!("kmeans:erode:{}", erode));
    ctx.count(&format!("kmeans:mbr_early_break:{}", mbr));
    Case::KMeans {
        dim,
        threads: threads_of(ctx),
        tol,
        delta,
        max_iter,
        max_balance_iter,
        erode,
        mbr,
        ids,
        coords,
        ws,
    }
}

/// All valid partitions of `n` elements with exactly `k` parts (ids 0..k all used).
fn all_valid_ids(n: usize, k: usize) -> Vec<Vec<usize>> {
    let mut out = vec![];
    let total = k.pow(n as u32);
    for code in 0..total {
        let mut c = code;
        let v: Vec<usize> = (0..n)
            .map(|_| {
                let d = c % k;
                c /= k;
                d
            })
            .collect();
        if (0..k).all(|p| v.contains(&p)) {
            out.push(v);
        }
    }
    out
}

pub fn generate(ctx: &mut Ctx) {
    // (0) process-level state: a shuffled set of first calls, repeated at the end and in a child process
    let history = history_begin(ctx);
    // (1) exhaustive small sub-spaces -------------------------------------------------------
    // KMeans: every valid 2- and 3-part partition of up to 5 (quick) / 6 points placed on a fixed
    // pattern with a duplicated position, two settings
    let pattern: [(i64, i64); 6] = [(0, 0), (0, 0), (32, 0), (32, 0), (16, 48), (80, 16)];
    let nmax = ctx.budget(5, 6);
    for n in 2..=nmax {
        for k in 2..=3usize.min(n) {
            for ids in all_valid_ids(n, k) {
                for (max_iter, mbi, erode) in [(5usize, 1usize, false), (1, 2, true)] {
                    let c = Case::KMeans {
                        dim: 2,
                        threads: 1,
                        tol: 0.0,
                        delta: 0.0,
                        max_iter,
                        max_balance_iter: mbi,
                        erode,
                        mbr: false,
                        ids: ids.clone(),
                        coords: pattern[..n].iter().flat_map(|&(x, y)| [x, y]).collect(),
                        ws: vec![4; n],
                    };
                    ctx.count("stream:exhaustive-kmeans");
                    run_op(ctx, &format_op(&c));
                }
            }
        }
    }
    // two-way algorithms: every valid two-way partition of the path and the cycle on 2..=6 vertices
    for n in 2..=ctx.budget(5, 6) {
        for cyc in [false, true] {
            let mut edges: Edges = (1..n).map(|u| (u, u - 1, 1)).collect();
            if cyc && n > 2 {
                edges.push((n - 1, 0, 2));
            }
            let rows = rows_of(n, &edges);
            for ids in all_valid_ids(n, 2) {
                for (mp, mf, mb) in [(None, None, 1usize), (Some(1), Some(0), 0)] {
                    ctx.count("stream:exhaustive-twoway");
                    run_op(ctx, &format_op(&Case::Kl { threads: 1, mp, mf, mb, wlen: n, ids: ids.clone(), rows: rows.clone() }));
                    run_op(
                        ctx,
                        &format_op(&Case::Fm {
                            threads: 1,
                            f64w: false,
                            mi: if mb == 0 { Some(0.0) } else { None },
                            mb,
                            mp,
                            mm: mf,
                            rows: rows.clone(),
                            ids: ids.clone(),
                            ws: (1..=n as i64).collect(),
                        }),
                    );
                }
                ctx.count("stream:exhaustive-arcswap");
                run_op(
                    ctx,
                    &format_op(&Case::ArcSwap {
                        threads: 1,
                        f64w: false,
                        mi: None,
                        rows: rows.clone(),
                        ids: ids.clone(),
                        ws: vec![1; n],
                    }),
                );
            }
        }
    }
    ctx.notes.push(format!(
        "exhaustive sub-spaces: KMeans on every valid 2-/3-part partition of 2..={} points (fixed pattern with \
         duplicated positions) x 2 settings; KL, FM (2 settings each) and ArcSwap on every valid two-way partition \
         of the path and the cycle with 2..={} vertices",
        nmax,
        ctx.budget(5, 6)
    ));
    // (2) random, valid inputs, all six ------------------------------------------------------
    let per = ctx.budget(2500, 20000);
    for _ in 0..per {
        let c = gen_vn(ctx, true);
        run_gen(ctx, c);
        let c = gen_vn(ctx, false);
        run_gen(ctx, c);
        let c = gen_kl(ctx);
        run_gen(ctx, c);
        let c = gen_fm(ctx);
        run_gen(ctx, c);
        let c = gen_arcswap(ctx, false);
        run_gen(ctx, c);
        let c = gen_kmeans(ctx, false);
        run_gen(ctx, c);
    }
    // (2b) larger inputs for the two parallel algorithms (real concurrency in ArcSwap, many sweeps
    //      and emptied clusters in KMeans)
    for _ in 0..ctx.budget(12, 150) {
        ctx.count("stream:large");
        let c = gen_arcswap(ctx, true);
        run_op(ctx, &format_op(&c));
        let c = gen_kmeans(ctx, true);
        run_op(ctx, &format_op(&c));
    }
    // (2c) LARGE / CORNER / REUSE stream: size-gated and corner-gated code paths ---------------
    large_stream(ctx);
    // (2d) SPECIAL VALUES / PLUMBING / CONTEXT stream -----------------------------------------
    special_stream(ctx);
    history_end(ctx, &history);
    // (3) a small stream outside the contract (the models' abort paths; no oracle) -----------
    for _ in 0..ctx.budget(20, 200) {
        // KMeans on a partition with an unused id
        if let Case::KMeans { dim, threads, tol, delta, max_iter, max_balance_iter, erode, mbr, mut ids, coords, ws } =
            gen_kmeans(ctx, false)
        {
            let m = *ids.iter().max().unwrap();
            let hole = ctx.rng.usize(m);
            for i in ids.iter_mut() {
                if *i == hole {
                    *i = m;
                }
            }
            run_op(
                ctx,
                &format_op(&Case::KMeans { dim, threads, tol, delta, max_iter, max_balance_iter, erode, mbr, ids, coords, ws }),
            );
        }
        // three labels for the two-way algorithms
        if let Case::Kl { threads, mp, mf, mb, wlen, mut ids, rows } = gen_kl(ctx) {
            if ids.len() >= 3 {
                let p = ctx.rng.usize(ids.len());
                ids[p] = 2;
                if ids.contains(&0) && ids.contains(&1) {
                    run_op(ctx, &format_op(&Case::Kl { threads, mp, mf, mb, wlen, ids, rows }));
                }
            }
        }
        if let Case::Fm { threads, f64w, mi, mb, mp, mm, rows, mut ids, ws } = gen_fm(ctx) {
            let p = ctx.rng.usize(ids.len());
            ids[p] = 2;
            run_op(ctx, &format_op(&Case::Fm { threads, f64w, mi, mb, mp, mm, rows, ids, ws }));
        }
    }
    // (4) K9: part weights of 2^59..2^62 with a total that fits (last: the streams above keep their
    // random draws) ---------------------------------------------------------------------------
    pwx_stream(ctx);
}


fn large_op(algo: &str, threads: usize, n: usize, k: usize, order: &str, variant: usize, reuse: bool, seed: u64) -> String {
    format!("large {} {} {} {} {} {} {} {}", algo, threads, n, k, order, variant, reuse as u8, seed)
}

/// Sizes just above the usual block thresholds and far above them, none a multiple of a power of
/// two; pools 1/2/3/16; ids in blocks, in block-aligned runs of 4096 and in random order; 2..8 and 64
/// parts; part-count corners; huge weights; reuse of one algorithm value for two calls.
fn large_stream(ctx: &mut Ctx) {
    const ORDERS: [&str; 3] = ["blocked", "runs", "random"];
    const POOLS: [usize; 4] = [1, 2, 3, 16];
    // --- fixed handful for every run (quick: these only) ---
    let s0 = ctx.rng.below(1 << 40);
    let v = ctx.rng.usize(1 << 12);
    let core: Vec<String> = vec![
        large_op("vnbest", 16, 20001, 8, "random", v, false, s0 + 1),
        large_op("vnbest", 3, 8193, 64, "runs", 6, true, s0 + 2),
        large_op("vnfirst", 2, 70001, 5, "random", v / 3, false, s0 + 3),
        large_op("vnfirst", 16, 8193, 64, "blocked", 2, true, s0 + 4),
        // concentric rings, 64 clusters, max_iter 0, three balance sweeps that never meet the tolerance
        large_op("kmeans2", 2, 20001, 64, "blocked", 0, false, s0 + 5),
        large_op("kmeans3", 16, 8193, 5, "runs", 14, false, s0 + 6),
        large_op("kmeans2", 1, 8193, 7, "random", 12, true, s0 + 7),
        large_op("fm", 1, 8193, 2, "runs", 2 * (v % 64), false, s0 + 8),
        large_op("fm", 3, 20001, 2, "random", 1 + 2 * (v % 32), false, s0 + 9),
        large_op("arcswap", 3, 20001, 8, "runs", 2 * (v % 16), false, s0 + 10),
        large_op("arcswap", 16, 4097, 64, "random", 1, false, s0 + 11),
        large_op("arcswap", 1, 4097, 2, "blocked", 3, true, s0 + 12),
        // KernighanLin is quadratic (n/2 flips per pass, each a scan of all vertices): 4097 here,
        // 8193 / 20 001 in the thorough tier are the largest feasible sizes
        large_op("kl", 2, 4097, 2, "random", 1, false, s0 + 13),
        large_op("kl", 1, 2049, 2, "runs", 0, true, s0 + 14),
        // thousands of parts / part-count corners on mid-size inputs
        large_op("vnbest", 2, 8193, 3000, "random", 1, false, s0 + 15),
        large_op("kmeans2", 2, 4097, 257, "random", 1, false, s0 + 16),
        large_op("arcswap", 2, 2049, 256, "random", 1, false, s0 + 17),
    ];
    for op in &core {
        run_op(ctx, op);
    }
    // --- part-count corners and huge weights on small inputs (models compared where they exist) ---
    for &k in &[63usize, 64, 65, 128, 255, 256, 257] {
        let n = k + ctx.rng.usize(40);
        let s = ctx.rng.below(1 << 40);
        let v = ctx.rng.usize(1 << 12);
        let o = *ctx.rng.pick(&ORDERS);
        let t = *ctx.rng.pick(&POOLS);
        run_op(ctx, &large_op("vnbest", t, n, k, o, v, false, s));
        run_op(ctx, &large_op("vnfirst", t, n, k, o, v, false, s + 1));
        run_op(ctx, &large_op(if v % 2 == 0 { "kmeans2" } else { "kmeans3" }, t, n + 13, k, o, v, false, s + 2));
        run_op(ctx, &large_op("arcswap", t, n + 50, k, o, v, false, s + 3));
    }
    for &(n, k) in &[(2usize, 2usize), (3, 2), (3, 3), (17, 3), (50, 8)] {
        for v in [2usize, 6, 10] {
            // v % 4 = 2: totals just below 2^60 (i64, u64) / 2^52 (f64)
            ctx.count("corner:huge-weights");
            let s = ctx.rng.below(1 << 40);
            run_op(ctx, &large_op("vnbest", 1, n, k, "random", v, false, s));
            run_op(ctx, &large_op("vnfirst", 2, n, k, "blocked", v, false, s + 1));
        }
        ctx.count("corner:huge-weights");
        let s = ctx.rng.below(1 << 40);
        // FM / ArcSwap: weights shape = (variant / 2) % 4
        run_op(ctx, &large_op("fm", 1, n.max(2), 2, "random", 4, false, s));
        run_op(ctx, &large_op("fm", 1, n.max(2), 2, "random", 4 + 8, false, s + 1));
        run_op(ctx, &large_op("arcswap", 1, n, k, "random", 4, false, s + 2));
    }
    // --- reuse of one algorithm value for two calls, small inputs, all six ---
    for i in 0..ctx.budget(120, 2400) {
        let c = match i % 6 {
            0 => gen_vn(ctx, true),
            1 => gen_vn(ctx, false),
            2 => gen_kl(ctx),
            3 => gen_fm(ctx),
            4 => gen_arcswap(ctx, false),
            _ => gen_kmeans(ctx, false),
        };
        run_case_m(ctx, &c, None, true);
    }
    if ctx.quick() {
        ctx.notes.push(
            "large/corner stream (quick): 17 recipe cases with 2049..70001 elements (KL: 4097, quadratic) + 28 \
             part-count corners + 30 huge-weight corners + 120 reuse cases"
                .into(),
        );
        return;
    }
    // --- thorough: more sizes, up to 140 003 elements ---
    let sizes_fast: [usize; 8] = [4097, 8193, 16422, 20001, 65548, 70001, 131077, 140003];
    let ks: [usize; 8] = [2, 3, 5, 7, 8, 64, 64, 6];
    for algo in ["vnbest", "vnfirst", "kmeans2", "kmeans3"] {
        for i in 0..12 {
            let n = sizes_fast[(i + ctx.rng.usize(2)) % 8];
            let k = *ctx.rng.pick(&ks);
            let op = large_op(
                algo,
                *ctx.rng.pick(&POOLS),
                n,
                k,
                ORDERS[i % 3],
                ctx.rng.usize(1 << 12),
                i % 5 == 4 && n <= 20001,
                ctx.rng.below(1 << 40),
            );
            run_op(ctx, &op);
        }
    }
    // FM: the harness build has debug assertions on, and FM then recomputes the edge cut after every
    // move (quadratic): 1.5-4 s at 20 001 vertices, 17-29 s at 30 011, up to 90 s at 70 001 – so
    // 24 001 is the largest size used
    for (i, &n) in [4097usize, 8193, 12301, 16422, 20001, 20001, 20001, 24001].iter().enumerate() {
        let op = large_op("fm", POOLS[i % 4], n, 2, ORDERS[i % 3], ctx.rng.usize(1 << 12), i == 1, ctx.rng.below(1 << 40));
        run_op(ctx, &op);
    }
    // ArcSwap: the row-numbered grid is fast at every size; the random sparse graph with many parts
    // takes ~7 s at 20 001 vertices, so it stops there
    for (i, &n) in [4097usize, 8193, 16422, 20001, 65548, 70001, 131077, 140003].iter().enumerate() {
        // the cost grows with the part count (one gain per target part): 64 parts take 12 s at
        // 70 001 and 36 s at 140 003 vertices, so above 30 000 vertices at most 8 parts
        let k = if n > 30000 { *ctx.rng.pick(&[2usize, 3, 5, 7, 8]) } else { *ctx.rng.pick(&ks) };
        let op = large_op("arcswap", POOLS[i % 4], n, k, ORDERS[i % 3], 2 * ctx.rng.usize(1 << 11), false, ctx.rng.below(1 << 40));
        run_op(ctx, &op);
    }
    for (i, &n) in [4097usize, 8193, 16422, 20001].iter().enumerate() {
        let k = *ctx.rng.pick(&ks);
        let op = large_op(
            "arcswap",
            POOLS[(i + 1) % 4],
            n,
            k,
            ORDERS[(i + 1) % 3],
            1 + 2 * ctx.rng.usize(1 << 11),
            i == 0,
            ctx.rng.below(1 << 40),
        );
        run_op(ctx, &op);
    }
    // KL: quadratic – 8193 (~2 s) and once 20 001 (max_passes 1)
    for (i, &n) in [4097usize, 8193, 8193, 16422, 20001].iter().enumerate() {
        let v = if n > 10000 { 4 * ctx.rng.usize(8) + (i % 2) } else { ctx.rng.usize(64) };
        let op = large_op("kl", POOLS[i % 4], n, 2, ORDERS[i % 3], v, i == 0, ctx.rng.below(1 << 40));
        run_op(ctx, &op);
    }
    // thousands of parts
    for (algo, n, k) in [("vnbest", 20001usize, 4096usize), ("vnfirst", 70001, 4096), ("kmeans2", 8193, 2000), ("arcswap", 8193, 1000)] {
        ctx.count("corner:thousands-of-parts");
        let op = large_op(algo, *ctx.rng.pick(&POOLS), n, k, "random", ctx.rng.usize(1 << 12), false, ctx.rng.below(1 << 40));
        run_op(ctx, &op);
    }
    ctx.notes.push(
        "large/corner stream (thorough): the quick stream + 48 Vn/KMeans cases with 4097..140003 elements, 8 FM \
         (to 24001: quadratic with debug assertions), 12 ArcSwap (grid to 140003, random sparse to 20001), 5 KL (to 20001: quadratic), 4 cases \
         with 1000..4096 parts, 2400 reuse cases"
            .into(),
    );
}


// ------------------------------------------------------------------ special values / plumbing / context

fn set_threads(c: &mut Case, t: usize) {
    match c {
        Case::Vn { threads, .. }
        | Case::Kl { threads, .. }
        | Case::Fm { threads, .. }
        | Case::ArcSwap { threads, .. }
        | Case::KMeans { threads, .. } => *threads = t,
    }
}

/// Small non-negative weights (below 2^24, exact in every weight type) with a good share of zeros.
fn small_weights(ctx: &mut Ctx, n: usize, zeros: bool) -> Vec<i64> {
    let mut w: Vec<i64> =
        (0..n).map(|_| if zeros && ctx.rng.chance(2, 5) { 0 } else { ctx.rng.range(1, 40) }).collect();
    if w.iter().all(|&x| x == 0) {
        w[0] = 3;
    }
    w
}

/// A case of the given algorithm whose `f64` data is small and integer valued (weights below 2^24,
/// zeros included; KMeans coordinates in -3..=3 so that zeros sit next to negative and positive
/// values), in a single-worker pool for the algorithms that are deterministic only there.
/// `algo`: 0 vnbest 1 vnfirst 2 kl 3 fm 4 arcswap 5 kmeans
fn gen_small(ctx: &mut Ctx, algo: usize, f64w: bool, zeros: bool) -> Case {
    let mut c = match algo {
        0 => gen_vn(ctx, true),
        1 => gen_vn(ctx, false),
        2 => gen_kl(ctx),
        3 => gen_fm(ctx),
        4 => gen_arcswap(ctx, false),
        _ => gen_kmeans(ctx, false),
    };
    let n = c.ids().len();
    let w = small_weights(ctx, n, zeros);
    match &mut c {
        Case::Vn { ty, ws, .. } => {
            *ty = if f64w { "f64".into() } else { "i64".into() };
            *ws = w;
        }
        Case::Kl { .. } => {}
        Case::Fm { f64w: f, ws, mi, .. } => {
            *f = f64w;
            *ws = w;
            if *mi == Some(0.1) {
                *mi = Some(1.0);
            }
        }
        Case::ArcSwap { f64w: f, ws, threads, .. } => {
            *f = f64w;
            *ws = w;
            *threads = 1;
        }
        Case::KMeans { ws, coords, threads, max_iter, .. } => {
            *ws = w.iter().map(|x| x * 4).collect();
            *threads = 1;
            *max_iter = (*max_iter).min(5);
            if zeros {
                for x in coords.iter_mut() {
                    *x = ctx.rng.range(-3, 3) * 16;
                }
            }
        }
    }
    c
}

/// KMeans input on which all parallel sums are exact (see `kmeans_exact_sums`).
fn gen_kmeans_exact(ctx: &mut Ctx) -> Case {
    let mut c = gen_kmeans(ctx, false);
    let n = *ctx.rng.pick(&[16usize, 32, 64]);
    let k = 2 + ctx.rng.usize(7);
    let (ids2, _) = gen_valid_ids(ctx, n, k);
    if let Case::KMeans { dim, ids, coords, ws, erode, max_iter, .. } = &mut c {
        *ids = ids2;
        *coords = (0..n * *dim).map(|_| ctx.rng.range(-200, 200)).collect();
        *ws = (0..n).map(|_| ctx.rng.range(1, 9) * 4).collect();
        *erode = false;
        *max_iter = (*max_iter).min(5);
    }
    c
}

fn special_stream(ctx: &mut Ctx) {
    let q = ctx.quick();
    // --- 1. signed zero: -0.0 weights (f64 Vn, FM, ArcSwap, KMeans) and KMeans coordinates ---
    let mut r = 0u64;
    for _ in 0..ctx.budget(8, 120) {
        for algo in [0usize, 1, 3, 4, 5, 5] {
            r += 1;
            let c = gen_small(ctx, algo, true, true);
            let seed = 2 * ctx.rng.below(1 << 30) + 1 + (r % 2); // odd / even count alternately
            let coord = if algo == 5 && r % 3 != 0 { 1 } else { 0 };
            run_special(ctx, &c, Tweak { negzero: seed, coord, ..Tweak::default() });
        }
    }
    // --- 2. subnormal and extreme magnitudes ---
    for i in 0..ctx.budget(6, 90) {
        for algo in [0usize, 1, 3, 4, 5] {
            let c = gen_small(ctx, algo, true, i % 2 == 0);
            let total: i64 = match &c {
                Case::Vn { ws, .. } | Case::Fm { ws, .. } | Case::ArcSwap { ws, .. } | Case::KMeans { ws, .. } => {
                    ws.iter().sum()
                }
                _ => 1,
            };
            // the scaled total lies in [2^1021, 2^1023): finite, and so is every partial sum
            let up = 1022 - (64 - (total.max(1) as u64).leading_zeros() as i32);
            for scale in [-1073, -1030, up] {
                run_special(ctx, &c, Tweak { scale, ..Tweak::default() });
            }
        }
    }
    for i in 0..ctx.budget(2, 30) {
        for algo in [0usize, 1, 3, 4, 5] {
            for preset in 1..=6u8 {
                let c = gen_small(ctx, algo, true, i % 2 == 1);
                run_special(ctx, &c, Tweak { preset, ..Tweak::default() });
            }
        }
        for coord in [2u8, 3] {
            for _ in 0..3 {
                let c = gen_small(ctx, 5, true, false);
                run_special(ctx, &c, Tweak { coord, ..Tweak::default() });
            }
        }
    }
    // --- 4. input type plumbing ---
    for _ in 0..ctx.budget(2, 30) {
        for plumb in [1u8, 2, 3, 4, 5, 6, 7, 8, 9, 10, 11, 12, 15] {
            // VnBest: every adaptor; the float type against the f64 run, the integer types against i64
            let mut c = gen_small(ctx, 0, plumb == 11, true);
            if plumb == 12 {
                let n = *ctx.rng.pick(&[4usize, 8]);
                let k = 2 + ctx.rng.usize(2);
                let (ids, _) = gen_valid_ids(ctx, n, k);
                let ws = small_weights(ctx, n, false);
                c = Case::Vn { best: true, ty: "i64".into(), threads: threads_of(ctx), ws, ids };
            }
            run_special(ctx, &c, Tweak { plumb, ..Tweak::default() });
        }
        for plumb in [8u8, 9, 10, 11, 12] {
            let mut c = gen_small(ctx, 1, plumb == 11, true);
            if plumb == 12 {
                let (ids, _) = gen_valid_ids(ctx, 4, 2);
                let ws = small_weights(ctx, 4, false);
                c = Case::Vn { best: false, ty: "i64".into(), threads: threads_of(ctx), ws, ids };
            }
            run_special(ctx, &c, Tweak { plumb, ..Tweak::default() });
        }
        let c = gen_kl(ctx);
        run_special(ctx, &c, Tweak { plumb: 2, ..Tweak::default() });
        for algo in [3usize, 4] {
            for plumb in [2u8, 2, 8, 9, 10, 11] {
                let f = plumb == 11 || (plumb == 2 && ctx.rng.chance(1, 2));
                let c = gen_small(ctx, algo, f, true);
                run_special(ctx, &c, Tweak { plumb, ..Tweak::default() });
            }
        }
        // 7. through the tools entry point (weights only: VnBest, VnFirst)
        for algo in [0usize, 1] {
            for f in [false, true] {
                let c = gen_small(ctx, algo, f, true);
                run_tools(ctx, &c);
                let mut c = if algo == 0 { gen_vn(ctx, true) } else { gen_vn(ctx, false) };
                if let Case::Vn { ty, .. } = &mut c {
                    if ty == "u64" {
                        *ty = "i64".into();
                    }
                }
                run_tools(ctx, &c);
            }
        }
    }
    // --- 5. calling context ---
    for i in 0..ctx.budget(1, 12) {
        for algo in 0..6usize {
            let gen = |ctx: &mut Ctx| {
                if algo == 5 {
                    gen_kmeans_exact(ctx)
                } else {
                    let f = ctx_bool(ctx);
                    gen_small(ctx, algo, f, true)
                }
            };
            // (a) global pool, (c) inside a rayon task of a pool of 1 and of 4 workers
            let c = gen(ctx);
            run_context(ctx, &c, Ctxk::Global);
            for t in [1usize, 4] {
                let mut c = gen(ctx);
                set_threads(&mut c, t);
                run_context(ctx, &c, Ctxk::InTask);
            }
            // (d) 8..32 calls at once in one pool of 4 / 16 workers
            for (t, m) in [(4usize, 8usize), (16, 32), (4, 16 + (i % 2) * 16), (16, 8 + ctx.rng.usize(25))] {
                if q && t == 4 && m > 8 {
                    continue;
                }
                let mut c = gen(ctx);
                set_threads(&mut c, t);
                run_context(ctx, &c, Ctxk::Par(m));
            }
        }
        // mixed: all six improvers, 2-D and 3-D, every weight type, at once in one pool
        for t in [4usize, 16] {
            let op = format!("mix {} {} {}", t, 12 + ctx.rng.usize(21), ctx.rng.below(1 << 40));
            run_op(ctx, &op);
        }
    }
}

fn ctx_bool(ctx: &mut Ctx) -> bool {
    ctx.rng.chance(1, 2)
}

/// `mix <threads> <count> <seed>`: `count` small cases of all six improvers (2-D and 3-D KMeans, every
/// weight type), generated from `seed`, all called AT ONCE (`into_par_iter`) in one pool of `threads`
/// workers, no hook observer installed.  Every result gets the oracle; those of the deterministic
/// algorithms must equal a run alone in a pool of their own.
fn run_mix(ctx: &mut Ctx, op: &str) {
    use coupe::rayon::prelude::*;
    let t: Vec<&str> = op.split_whitespace().collect();
    let parsed = (|| {
        if t.len() != 4 {
            return None;
        }
        let threads: usize = t[1].parse().ok()?;
        let count: usize = t[2].parse().ok()?;
        let seed: u64 = t[3].parse().ok()?;
        if !(1..=16).contains(&threads) || !(1..=64).contains(&count) {
            return None;
        }
        Some((threads, count, seed))
    })();
    let Some((threads, count, seed)) = parsed else {
        ctx.record(op.to_string(), "bad-op".into(), false);
        return;
    };
    // the cases are a function of the op line: the generators draw from a private stream
    let saved = std::mem::replace(&mut ctx.rng, Rng::new(seed ^ 0x5EED_C02));
    let saved_hist = ctx.hist.clone();
    let mut cases: Vec<Case> = (0..count)
        .map(|i| match i % 7 {
            0 => gen_vn(ctx, true),
            1 => gen_vn(ctx, false),
            2 => gen_kl(ctx),
            3 => gen_fm(ctx),
            4 => gen_arcswap(ctx, false),
            _ => gen_kmeans_exact(ctx),
        })
        .collect();
    ctx.rng.shuffle(&mut cases);
    ctx.rng = saved;
    ctx.hist = saved_hist;
    ctx.count(&format!("context:mixed:pool{}", threads));
    let cs = cases.clone();
    let res: Caught<Vec<R>> = catch_timeout(60, move || {
        let p = pool(threads);
        p.install(move || cs.into_par_iter().map(|c| call_case(c, false, Tweak::default(), &|| {})).collect())
    });
    let mut verdict: Option<(String, String)> = None;
    let out = match res {
        Caught::Ok(rs) => {
            let mut h = 0xcbf2_9ce4_8422_2325u64;
            for (j, (c, r)) in cases.iter().zip(rs.iter()).enumerate() {
                let algo = c.algo();
                let ids0 = c.ids();
                let max0 = ids0.iter().copied().max().unwrap_or(0);
                match r {
                    (Ok(_), ids) => {
                        if single_run_deterministic(c) || kmeans_exact_sums(c) {
                            h = (h ^ fnv(ids)).wrapping_mul(0x1000_0000_01b3);
                        }
                        if verdict.is_some() {
                            continue;
                        }
                        if ids.len() != ids0.len() || ids.iter().any(|&i| i > max0) {
                            verdict = Some((
                                format!("id-out-of-range@{}", algo),
                                format!("mixed concurrent call {} ({}): {} from {}", j, format_op(c), show(ids), show(ids0)),
                            ));
                        } else if matches!(c, Case::Vn { .. } | Case::Kl { .. }) || kmeans_exact_sums(c) {
                            match run_impl(c, false).0 {
                                Ran::Ok(seq, _) if &seq == ids => {}
                                other => {
                                    verdict = Some((
                                        format!("context-dependent@{}", algo),
                                        format!(
                                            "mixed concurrent call {} ({}) gives {} but alone {}",
                                            j,
                                            format_op(c),
                                            show(ids),
                                            match other {
                                                Ran::Ok(s, _) => show(&s),
                                                _ => "no Ok".into(),
                                            }
                                        ),
                                    ));
                                }
                            }
                        }
                    }
                    (Err(e), _) => {
                        if verdict.is_none() {
                            verdict = Some((format!("unexpected-error@{}", algo), format!("mixed call {}: Err({})", j, e)));
                        }
                    }
                }
            }
            format!("ok calls={} fnv={:016x}", cases.len(), h)
        }
        Caught::Panic(m) => {
            let m = m.split_whitespace().collect::<Vec<_>>().join(" ");
            verdict = Some((panic_sig(&m), format!("{} [mixed concurrent calls]", m)));
            format!("panic {}", m)
        }
        Caught::Hang => {
            verdict = Some(("hang@mixed".into(), "watchdog (60 s)".into()));
            "hang".into()
        }
    };
    let idx = ctx.record(op.to_string(), out, true);
    if let Some((sig, what)) = verdict {
        ctx.fail(idx, &sig, what);
    }
}

/// (item 6) process-level state.  A shuffled list of small deterministic cases (2-D and 3-D KMeans,
/// every weight type, every improver) is run FIRST in the process (after the corpus), in an order that
/// depends on the seed; `history_end` repeats them in another order at the end of the run and once in
/// a child process that has called nothing else, in reversed order: same input, same output.
struct History {
    cases: Vec<(Case, Option<Vec<usize>>)>,
}

fn history_begin(ctx: &mut Ctx) -> History {
    let mut cs: Vec<Case> = vec![];
    for algo in [0usize, 1, 2, 4, 5, 0, 1, 5, 5, 4] {
        let f = ctx_bool(ctx);
        let mut c = if algo == 5 { gen_kmeans_exact(ctx) } else { gen_small(ctx, algo, f, true) };
        set_threads(&mut c, 1);
        cs.push(c);
    }
    ctx.rng.shuffle(&mut cs);
    let first = cs[0].algo();
    ctx.count(&format!("context:history:first-call:{}", first));
    let cases = cs
        .into_iter()
        .map(|c| {
            let r = run_case(ctx, &c);
            (c, r)
        })
        .collect();
    History { cases }
}

fn history_end(ctx: &mut Ctx, h: &History) {
    let mut order: Vec<usize> = (0..h.cases.len()).collect();
    ctx.rng.shuffle(&mut order);
    for &i in &order {
        let (c, first) = &h.cases[i];
        ctx.count("context:history:repeated-at-end");
        let again = run_case(ctx, c);
        if let (Some(a), Some(b)) = (first, &again) {
            if a != b {
                let idx = ctx.ops.len() - 1;
                ctx.fail(
                    idx,
                    &format!("history-dependent@{}", c.algo()),
                    format!("first in the process: {}, at the end of the run: {}", show(a), show(b)),
                );
            }
        }
    }
    // a child process that runs only these ops, last one first
    let Ok(exe) = std::env::current_exe() else { return };
    let dir = std::env::temp_dir().join(format!("c02_history_{}_{}", std::process::id(), ctx.seed));
    if std::fs::create_dir_all(&dir).is_err() {
        return;
    }
    let ops: Vec<String> = h.cases.iter().rev().map(|(c, _)| format!("C02 {}", format_op(c))).collect();
    let opsf = dir.join("ops.in");
    if std::fs::write(&opsf, ops.join("\n") + "\n").is_err() {
        return;
    }
    let st = std::process::Command::new(exe)
        .args(["replay", "C02", "--ops"])
        .arg(&opsf)
        .arg("--out")
        .arg(&dir)
        .stdout(std::process::Stdio::null())
        .stderr(std::process::Stdio::null())
        .status();
    let outs = std::fs::read_to_string(dir.join("impl.txt")).unwrap_or_default();
    let _ = std::fs::remove_dir_all(&dir);
    let lines: Vec<&str> = outs.lines().collect();
    if st.map(|s| s.success()).unwrap_or(false) && lines.len() == h.cases.len() {
        ctx.count("context:history:child-process-compared");
        for ((c, first), line) in h.cases.iter().rev().zip(lines) {
            if let Some(a) = first {
                let want = format!("ok {}", join(a));
                if want.trim_end() != line {
                    // recorded against a fresh run of the op in this process
                    run_case(ctx, c);
                    let idx = ctx.ops.len() - 1;
                    ctx.fail(
                        idx,
                        &format!("history-dependent@{}", c.algo()),
                        format!("in this process: {}, in a fresh child process (reversed order): {}", want, line),
                    );
                }
            }
        }
    } else {
        ctx.count("context:history:child-process-unavailable");
    }
}
