//! C16 — edge cut, lambda cut and imbalance agree with their definitions.
//!
//! ops (vectors are `<len> <x…>`):
//! * `csr <indptr> <indices> <data> <partition> <weights>`   raw CSR storage of a square view
//!     out: `eg=<generic edge cut> es=<sprs edge cut> lg=<generic lambda> ls=<sprs lambda>`
//! * `grid2 <w> <h> <partition> <weights>` / `grid3 <w> <h> <d> <partition> <weights>`
//!     out: `eg=<Grid edge cut> lg=<Grid lambda> ce=<lattice CSR, sprs edge cut> cl=<lattice CSR, sprs lambda>`
//! * `nbrs2 <w> <h>` / `nbrs3 <w> <h> <d>`
//!     out: `n=<len> nb=<neighbour lists in iterator order> pos=<position_of(i):index_of(position_of(i))…>`
//! * `imb <k> <partition> <weights> <targets>`
//!     out: `loads=[…] max=<max_imbalance> imb=<imbalance f64 bits> tgt=<imbalance_target>`
//! * `lcsr …`, `lgrid2 …`, `lgrid3 …`, `limb …`: LARGE / CORNER stream, inputs described by a few
//!     parameters (see the section below); outputs as `csr`, `grid2`, `imb`; pools 1, 2, 3, 16.
//! A value is replaced by `panic(index|slice|assert)` when the call panics.
//!
//! Every topology call is made in rayon pools of 1, 4 and 16 threads; the three answers
//! must be identical (oracle) and one is recorded.

use crate::common::*;
use coupe::sprs::{CompressedStorage, CsMatView, TriMat};
use coupe::Topology;
use std::collections::BTreeSet;
use std::num::NonZeroUsize;
use std::sync::OnceLock;

type View<'a> = CsMatView<'a, i64>;

const POOLS: [usize; 3] = [1, 4, 16];

fn pools() -> &'static Vec<coupe::rayon::ThreadPool> {
    static P: OnceLock<Vec<coupe::rayon::ThreadPool>> = OnceLock::new();
    P.get_or_init(|| {
        POOLS
            .iter()
            .map(|&t| coupe::rayon::ThreadPoolBuilder::new().num_threads(t).build().expect("pool"))
            .collect()
    })
}

/// `Ok(value)` or `Err(panic class)`.
type Res<T> = Result<T, String>;

fn class(m: &str) -> String {
    let c = if m.contains("out of range for slice") || m.contains("slice index starts at") {
        "slice"
    } else if m.contains("index out of bounds") {
        "index"
    } else if m.contains("assertion") {
        "assert"
    } else {
        return format!("panic(other:{})", m);
    };
    format!("panic({})", c)
}

fn guarded<T>(f: impl FnOnce() -> T) -> Res<T> {
    match catch(f) {
        Caught::Ok(v) => Ok(v),
        Caught::Panic(m) => Err(class(&m)),
        Caught::Hang => Err("hang".into()),
    }
}

/// Pools of the LARGE stream: 1, 2, 3 and 16 threads.
const LPOOLS: [usize; 4] = [1, 2, 3, 16];

fn lpools() -> &'static Vec<coupe::rayon::ThreadPool> {
    static P: OnceLock<Vec<coupe::rayon::ThreadPool>> = OnceLock::new();
    P.get_or_init(|| {
        LPOOLS
            .iter()
            .map(|&t| coupe::rayon::ThreadPoolBuilder::new().num_threads(t).build().expect("pool"))
            .collect()
    })
}

/// Run `f` in every pool; `false` in `.1` if the pools disagree.
fn in_pools<T: PartialEq + Clone + Send>(f: impl Fn() -> T + Sync + Send) -> (Res<T>, bool) {
    in_pool_set(pools(), f)
}

fn in_pool_set<T: PartialEq + Clone + Send>(
    set: &[coupe::rayon::ThreadPool],
    f: impl Fn() -> T + Sync + Send,
) -> (Res<T>, bool) {
    let mut first: Option<Res<T>> = None;
    let mut same = true;
    for pool in set {
        let r = guarded(|| pool.install(&f));
        match &first {
            None => first = Some(r),
            Some(x) => {
                if *x != r {
                    same = false;
                }
            }
        }
    }
    (first.unwrap(), same)
}

fn show<T: std::fmt::Display>(r: &Res<T>) -> String {
    match r {
        Ok(v) => v.to_string(),
        Err(c) => c.clone(),
    }
}

// ------------------------------------------------------------------ parsing

struct Toks<'a>(std::str::SplitWhitespace<'a>);

impl<'a> Toks<'a> {
    fn one<T: std::str::FromStr>(&mut self) -> Option<T> {
        self.0.next()?.parse().ok()
    }
    fn vec<T: std::str::FromStr>(&mut self) -> Option<Vec<T>> {
        let n: usize = self.one()?;
        if n > 1_000_000 {
            return None;
        }
        let mut v = Vec::with_capacity(n);
        for _ in 0..n {
            v.push(self.one()?);
        }
        Some(v)
    }
    fn done(&mut self) -> bool {
        self.0.next().is_none()
    }
}

fn fmt_vec<T: std::fmt::Display>(v: &[T]) -> String {
    if v.is_empty() {
        "0".to_string()
    } else {
        format!("{} {}", v.len(), join(v))
    }
}

// ------------------------------------------------------------------ naive definitions (oracle)

/// Rows `(neighbour, weight)` of vertex `v` read from the raw arrays the way sprs documents them
/// (the offset of a sliced view is the first `indptr` entry).
fn rows_of(indptr: &[usize], indices: &[usize], data: &[i64]) -> Vec<Vec<(usize, i64)>> {
    let off = indptr[0];
    (0..indptr.len() - 1)
        .map(|v| (indptr[v] - off..indptr[v + 1] - off).map(|k| (indices[k], data[k])).collect())
        .collect()
}

fn dense(rows: &[Vec<(usize, i64)>]) -> Vec<Vec<i64>> {
    let n = rows.len();
    let mut d = vec![vec![0i64; n]; n];
    for (v, r) in rows.iter().enumerate() {
        for &(u, w) in r {
            d[v][u] += w;
        }
    }
    d
}

/// Definition: every unordered pair {i, j} in different parts contributes the weight of its edge,
/// read below the diagonal (`d[i][j]`, `j < i`). For a symmetric matrix this is the textbook
/// edge cut; for an asymmetric one it is what all three code paths document by construction.
fn naive_edge_cut(d: &[Vec<i64>], p: &[usize]) -> i64 {
    let mut s = 0;
    for i in 0..d.len() {
        for j in 0..i {
            if p[i] != p[j] {
                s += d[i][j];
            }
        }
    }
    s
}

/// Symmetric matrices only: half the sum over ordered pairs.
fn naive_edge_cut_sym(d: &[Vec<i64>], p: &[usize]) -> i64 {
    let mut s = 0;
    for i in 0..d.len() {
        for j in 0..d.len() {
            if p[i] != p[j] {
                s += d[i][j];
            }
        }
    }
    s / 2
}

/// Σ_v w(v) · (number of distinct parts in the closed neighbourhood − 1); the neighbourhood is
/// the set of stored entries of the row (explicit zeros count, as in the code).
fn naive_lambda(rows: &[Vec<(usize, i64)>], p: &[usize], ws: &[i64]) -> i64 {
    let mut s = 0;
    for v in 0..rows.len().min(ws.len()) {
        let mut parts = BTreeSet::new();
        parts.insert(p[v]);
        for &(u, _) in &rows[v] {
            parts.insert(p[u]);
        }
        s += ws[v] * (parts.len() as i64 - 1);
    }
    s
}

// ------------------------------------------------------------------ csr op

struct Verdicts(Vec<(&'static str, String)>);

impl Verdicts {
    fn add(&mut self, sig: &'static str, what: String) {
        self.0.push((sig, what));
    }
}

fn run_csr(ctx: &mut Ctx, op: &str, t: &mut Toks) {
    let parsed = (|| {
        let indptr: Vec<usize> = t.vec()?;
        let indices: Vec<usize> = t.vec()?;
        let data: Vec<i64> = t.vec()?;
        let p: Vec<usize> = t.vec()?;
        let ws: Vec<i64> = t.vec()?;
        if !t.done() {
            return None;
        }
        Some((indptr, indices, data, p, ws))
    })();
    let Some((indptr, indices, data, p, ws)) = parsed else {
        ctx.record(op.to_string(), "bad-op".into(), false);
        return;
    };
    // shape check (everything sprs checks except the order inside a row)
    let shaped = !indptr.is_empty()
        && indptr.windows(2).all(|w| w[0] <= w[1])
        && indptr[indptr.len() - 1] - indptr[0] == indices.len()
        && indices.len() == data.len()
        && indices.iter().all(|&u| u < indptr.len() - 1);
    if !shaped {
        ctx.record(op.to_string(), "bad-op".into(), false);
        return;
    }
    let n = indptr.len() - 1;
    let view: View = match CsMatView::try_new((n, n), &indptr[..], &indices[..], &data[..]) {
        Ok(v) => {
            ctx.count("csr:valid");
            v
        }
        Err(_) => {
            ctx.count("csr:unsorted_rows(new_unchecked)");
            // SAFETY: sizes and index ranges were checked above; only the order inside the rows
            // is not what sprs requires, and every access made by coupe and by `outer_view` is a
            // checked slice access.
            unsafe { CsMatView::new_unchecked(CompressedStorage::CSR, (n, n), &indptr[..], &indices[..], &data[..]) }
        }
    };
    let valid = view.check_compressed_structure().is_ok();
    let offset = indptr[0] != 0;
    let (eg, s1) = in_pools(|| <&View as Topology<i64>>::edge_cut(&&view, &p));
    let (es, s2) = in_pools(|| <View as Topology<i64>>::edge_cut(&view, &p));
    let (lg, s3) = in_pools(|| <&View as Topology<i64>>::lambda_cut(&&view, &p, ws.clone()));
    let (ls, s4) = in_pools(|| <View as Topology<i64>>::lambda_cut(&view, &p, ws.clone()));
    let out = format!("eg={} es={} lg={} ls={}", show(&eg), show(&es), show(&lg), show(&ls));

    // oracle
    let mut v = Verdicts(vec![]);
    if !(s1 && s2 && s3 && s4) {
        v.add("pool-dependent", "the answer depends on the rayon pool size".into());
    }
    let rows = rows_of(&indptr, &indices, &data);
    let d = dense(&rows);
    let symmetric = (0..n).all(|i| (0..n).all(|j| d[i][j] == d[j][i]));
    let reads_ok = p.len() >= n;
    if reads_ok {
        let want_e = naive_edge_cut(&d, &p);
        let want_l = naive_lambda(&rows, &p, &ws);
        if symmetric && naive_edge_cut_sym(&d, &p) != want_e {
            v.add("oracle-self-check", "two forms of the definition differ".into());
        }
        if eg != Ok(want_e) {
            v.add("generic-edge-cut", format!("generic edge_cut {} but the definition gives {}", show(&eg), want_e));
        }
        if lg != Ok(want_l) {
            v.add("generic-lambda-cut", format!("generic lambda_cut {} but the definition gives {}", show(&lg), want_l));
        }
        if valid {
            if es != Ok(want_e) {
                let sig = if offset && es.is_err() { "sprs-offset-indptr-panic" } else { "sprs-edge-cut" };
                v.add(sig, format!("sprs edge_cut {} but the definition (and the generic method) give {}", show(&es), want_e));
            }
            if ls != Ok(want_l) {
                let sig = if offset && ls.is_err() { "sprs-offset-indptr-panic" } else { "sprs-lambda-cut" };
                v.add(sig, format!("sprs lambda_cut {} but the definition (and the generic method) give {}", show(&ls), want_l));
            }
        } else {
            // precondition of the specialisation (sorted rows) not met: only counted
            if es != Ok(want_e) {
                ctx.count("csr:unsorted:sprs_edge_cut_differs");
            } else {
                ctx.count("csr:unsorted:sprs_edge_cut_agrees");
            }
            if ls != Ok(want_l) {
                v.add("sprs-lambda-cut", format!("sprs lambda_cut {} on unsorted rows, definition {}", show(&ls), want_l));
            }
        }
    } else {
        // malformed: partition shorter than the matrix; every path must refuse (panic), none may
        // return a number
        ctx.count("csr:short_partition");
        if n > 0 && (eg.is_ok() || es.is_ok()) {
            v.add("short-partition-accepted", format!("edge_cut answered {} / {} on a short partition", show(&eg), show(&es)));
        }
    }
    ctx.count(if symmetric { "csr:symmetric" } else { "csr:asymmetric" });
    if offset {
        ctx.count("csr:offset_indptr");
    }
    if rows.iter().any(|r| r.is_empty()) {
        ctx.count("csr:has_empty_row");
    }
    if ws.len() != n {
        ctx.count("csr:weights_len_differs");
    }
    let nontrivial = reads_ok && n >= 2 && !indices.is_empty() && p.iter().take(n).any(|&x| x != p[0]);
    let idx = ctx.record(op.to_string(), out, nontrivial);
    for (sig, what) in v.0 {
        ctx.fail(idx, sig, what);
    }
}

// ------------------------------------------------------------------ grid ops

fn nz(x: usize) -> NonZeroUsize {
    NonZeroUsize::new(x).unwrap()
}

/// Coordinates of cell `i`, by enumeration (x fastest, then y, then z).
fn coords(w: usize, h: usize, d: usize) -> Vec<[usize; 3]> {
    let mut c = Vec::with_capacity(w * h * d);
    for z in 0..d {
        for y in 0..h {
            for x in 0..w {
                c.push([x, y, z]);
            }
        }
    }
    c
}

fn l1(a: &[usize; 3], b: &[usize; 3]) -> usize {
    (0..3).map(|k| a[k].abs_diff(b[k])).sum()
}

/// The lattice as rows of neighbours at L1 distance 1, increasing (O(n²)).
fn lattice_rows(c: &[[usize; 3]]) -> Vec<Vec<(usize, i64)>> {
    (0..c.len())
        .map(|i| (0..c.len()).filter(|&j| l1(&c[i], &c[j]) == 1).map(|j| (j, 1i64)).collect())
        .collect()
}

enum G {
    D2(coupe::Grid<2>),
    D3(coupe::Grid<3>),
}

impl G {
    fn edge_cut(&self, p: &[usize]) -> i64 {
        match self {
            G::D2(g) => Topology::<i64>::edge_cut(g, p),
            G::D3(g) => Topology::<i64>::edge_cut(g, p),
        }
    }
    fn lambda_cut(&self, p: &[usize], ws: Vec<i64>) -> i64 {
        match self {
            G::D2(g) => Topology::<i64>::lambda_cut(g, p, ws),
            G::D3(g) => Topology::<i64>::lambda_cut(g, p, ws),
        }
    }
    fn len(&self) -> usize {
        match self {
            G::D2(g) => Topology::<i64>::len(g),
            G::D3(g) => Topology::<i64>::len(g),
        }
    }
    fn neighbors(&self, v: usize) -> Vec<(usize, i64)> {
        match self {
            G::D2(g) => Topology::<i64>::neighbors(g, v).collect(),
            G::D3(g) => Topology::<i64>::neighbors(g, v).collect(),
        }
    }
}

fn run_grid(ctx: &mut Ctx, op: &str, t: &mut Toks, dim: usize) {
    let parsed = (|| {
        let w: usize = t.one()?;
        let h: usize = t.one()?;
        let d: usize = if dim == 3 { t.one()? } else { 1 };
        let p: Vec<usize> = t.vec()?;
        let ws: Vec<i64> = t.vec()?;
        if !t.done() || w == 0 || h == 0 || d == 0 || w * h * d > 100_000 {
            return None;
        }
        Some((w, h, d, p, ws))
    })();
    let Some((w, h, d, p, ws)) = parsed else {
        ctx.record(op.to_string(), "bad-op".into(), false);
        return;
    };
    let g = if dim == 2 { G::D2(coupe::Grid::new_2d(nz(w), nz(h))) } else { G::D3(coupe::Grid::new_3d(nz(w), nz(h), nz(d))) };
    let n = w * h * d;
    let c = coords(w, h, d);
    let rows = lattice_rows(&c);
    // the CSR lattice, built from the definition through sprs' triplet format
    let mut tri = TriMat::new((n, n));
    for (i, r) in rows.iter().enumerate() {
        for &(j, wt) in r {
            tri.add_triplet(i, j, wt);
        }
    }
    let csr: coupe::sprs::CsMat<i64> = tri.to_csr();
    let view = csr.view();

    let (eg, s1) = in_pools(|| g.edge_cut(&p));
    let (lg, s2) = in_pools(|| g.lambda_cut(&p, ws.clone()));
    let (ce, s3) = in_pools(|| <View as Topology<i64>>::edge_cut(&view, &p));
    let (cl, s4) = in_pools(|| <View as Topology<i64>>::lambda_cut(&view, &p, ws.clone()));
    let (cge, s5) = in_pools(|| <&View as Topology<i64>>::edge_cut(&&view, &p));
    let (cgl, s6) = in_pools(|| <&View as Topology<i64>>::lambda_cut(&&view, &p, ws.clone()));
    let out = format!("eg={} lg={} ce={} cl={}", show(&eg), show(&lg), show(&ce), show(&cl));

    let mut v = Verdicts(vec![]);
    if !(s1 && s2 && s3 && s4 && s5 && s6) {
        v.add("pool-dependent", "the answer depends on the rayon pool size".into());
    }
    if g.len() != n {
        v.add("grid-len", format!("Grid len {} but {} cells", g.len(), n));
    }
    let reads_ok = p.len() >= n;
    if reads_ok {
        let dm = dense(&rows);
        let want_e = naive_edge_cut_sym(&dm, &p);
        let want_l = naive_lambda(&rows, &p, &ws);
        for (name, got, want) in [
            ("grid-edge-cut", &eg, want_e),
            ("grid-lambda-cut", &lg, want_l),
            ("lattice-sprs-edge-cut", &ce, want_e),
            ("lattice-sprs-lambda-cut", &cl, want_l),
            ("lattice-generic-edge-cut", &cge, want_e),
            ("lattice-generic-lambda-cut", &cgl, want_l),
        ] {
            if *got != Ok(want) {
                v.add(name, format!("{} but the definition gives {}", show(got), want));
            }
        }
    } else {
        ctx.count("grid:short_partition");
        if eg.is_ok() || ce.is_ok() {
            v.add("short-partition-accepted", "edge_cut answered on a short partition".into());
        }
    }
    ctx.count(&format!("grid{}d", dim));
    let parts: BTreeSet<usize> = p.iter().take(n).cloned().collect();
    ctx.count(&format!("grid:parts={}", parts.len().min(6)));
    let nontrivial = reads_ok && n >= 2 && parts.len() >= 2;
    let idx = ctx.record(op.to_string(), out, nontrivial);
    for (sig, what) in v.0 {
        ctx.fail(idx, sig, what);
    }
}

fn run_nbrs(ctx: &mut Ctx, op: &str, t: &mut Toks, dim: usize) {
    let parsed = (|| {
        let w: usize = t.one()?;
        let h: usize = t.one()?;
        let d: usize = if dim == 3 { t.one()? } else { 1 };
        if !t.done() || w == 0 || h == 0 || d == 0 || w * h * d > 100_000 {
            return None;
        }
        Some((w, h, d))
    })();
    let Some((w, h, d)) = parsed else {
        ctx.record(op.to_string(), "bad-op".into(), false);
        return;
    };
    let n = w * h * d;
    let c = coords(w, h, d);
    let g2 = coupe::Grid::new_2d(nz(w), nz(h));
    let g3 = coupe::Grid::new_3d(nz(w), nz(h), nz(d));
    let g = if dim == 2 { G::D2(g2) } else { G::D3(g3) };
    let mut v = Verdicts(vec![]);
    let res = guarded(|| {
        let nb: Vec<Vec<(usize, i64)>> = (0..n).map(|i| g.neighbors(i)).collect();
        let pos: Vec<(Vec<usize>, usize)> = (0..n)
            .map(|i| {
                if dim == 2 {
                    let q = coupe::verif::cartesian::position_of(g2, i);
                    (q.to_vec(), coupe::verif::cartesian::index_of(g2, q))
                } else {
                    let q = coupe::verif::cartesian::position_of(g3, i);
                    (q.to_vec(), coupe::verif::cartesian::index_of(g3, q))
                }
            })
            .collect();
        (nb, pos)
    });
    let out = match &res {
        Err(c) => c.clone(),
        Ok((nb, pos)) => {
            // oracle: neighbour *set* = cells at L1 distance 1, unit weights, no repetition;
            // positions = enumeration order; index_of inverts position_of and is a bijection
            for i in 0..n {
                let mut got: Vec<usize> = nb[i].iter().map(|e| e.0).collect();
                got.sort();
                let want: Vec<usize> = (0..n).filter(|&j| l1(&c[i], &c[j]) == 1).collect();
                if got != want {
                    v.add("grid-neighbours", format!("cell {}: neighbours {:?}, L1-distance-1 cells {:?}", i, got, want));
                    break;
                }
                if nb[i].iter().any(|e| e.1 != 1) {
                    v.add("grid-neighbours", format!("cell {}: an edge weight is not 1", i));
                    break;
                }
            }
            for i in 0..n {
                if pos[i].0[..] != c[i][..dim] || pos[i].1 != i {
                    v.add("grid-position-index", format!("cell {}: position_of {:?}, index_of of it {}", i, pos[i].0, pos[i].1));
                    break;
                }
            }
            // index_of over every in-range position (surjectivity is the loop above)
            for (i, q) in c.iter().enumerate() {
                let k = if dim == 2 {
                    coupe::verif::cartesian::index_of(g2, [q[0], q[1]])
                } else {
                    coupe::verif::cartesian::index_of(g3, *q)
                };
                if k != i {
                    v.add("grid-position-index", format!("index_of({:?}) = {} but the cell is number {}", q, k, i));
                    break;
                }
            }
            let nbs: Vec<String> = nb.iter().map(|r| r.iter().map(|e| e.0.to_string()).collect::<Vec<_>>().join(",")).collect();
            let ps: Vec<String> = pos
                .iter()
                .map(|(q, k)| format!("{}:{}", q.iter().map(|x| x.to_string()).collect::<Vec<_>>().join(","), k))
                .collect();
            format!("n={} nb={} pos={}", g.len(), nbs.join("|"), ps.join(" "))
        }
    };
    if res.is_err() {
        v.add("grid-panic", out.clone());
    }
    ctx.count(&format!("nbrs{}d", dim));
    let idx = ctx.record(op.to_string(), out, n >= 2);
    for (sig, what) in v.0 {
        ctx.fail(idx, sig, what);
    }
}

// ------------------------------------------------------------------ imbalance op

fn run_imb(ctx: &mut Ctx, op: &str, t: &mut Toks) {
    let parsed = (|| {
        let k: usize = t.one()?;
        let p: Vec<usize> = t.vec()?;
        let ws: Vec<i64> = t.vec()?;
        let ts: Vec<i64> = t.vec()?;
        if !t.done() || k > 100_000 {
            return None;
        }
        Some((k, p, ws, ts))
    })();
    let Some((k, p, ws, ts)) = parsed else {
        ctx.record(op.to_string(), "bad-op".into(), false);
        return;
    };
    eval_imb(ctx, op, k, p, ws, ts, false);
}

/// Runs the four imbalance functions and their closed-form oracle (linear in the input).
fn eval_imb(ctx: &mut Ctx, op: &str, k: usize, p: Vec<usize>, ws: Vec<i64>, ts: Vec<i64>, large: bool) {
    let set = if large { lpools() } else { pools() };
    let (loads, s1) = in_pool_set(set, || coupe::imbalance::compute_parts_load(&p, k, ws.clone()));
    let (mx, s2) = in_pool_set(set, || coupe::imbalance::max_imbalance(k, &p, ws.clone()));
    let (imb, s3) = in_pool_set(set, || coupe::imbalance::imbalance(k, &p, ws.clone()).to_bits());
    let (tgt, s4) = in_pool_set(set, || coupe::imbalance::imbalance_target(&ts, &p, ws.clone()));
    let out = format!(
        "loads={} max={} imb={} tgt={}",
        match &loads {
            Ok(l) => format!("[{}]", join(l)),
            Err(c) => c.clone(),
        },
        show(&mx),
        match &imb {
            Ok(b) => format!("{:x}", b),
            Err(c) => c.clone(),
        },
        show(&tgt)
    );
    let mut v = Verdicts(vec![]);
    if !(s1 && s2 && s3 && s4) {
        v.add("pool-dependent", "the answer depends on the rayon pool size".into());
    }
    // closed forms; defined when the inputs meet the documented contract
    let in_range = p.iter().all(|&x| x < k);
    let contract = in_range && p.len() == ws.len() && k > 0;
    let naive_loads = |kk: usize| -> Vec<i64> {
        if p.len().saturating_mul(kk) <= 1 << 20 {
            // the definition, part by part
            (0..kk).map(|j| p.iter().zip(&ws).filter(|(&q, _)| q == j).map(|(_, w)| *w).sum()).collect()
        } else {
            // the same sums in one sequential pass (linear), checked against the grand total
            let mut l = vec![0i128; kk];
            for (&q, &w) in p.iter().zip(&ws) {
                l[q] += w as i128;
            }
            let total: i128 = ws.iter().take(p.len()).map(|&w| w as i128).sum();
            assert_eq!(l.iter().sum::<i128>(), total);
            l.into_iter().map(|x| x as i64).collect()
        }
    };
    if contract {
        ctx.count("imb:contract");
        let nl = naive_loads(k);
        if loads.as_ref() != Ok(&nl) {
            v.add("parts-load", format!("compute_parts_load {:?} but the definition gives {:?}", loads, nl));
        }
        let want_mx = nl.iter().max().unwrap() - nl.iter().min().unwrap();
        if mx != Ok(want_mx) {
            v.add("max-imbalance", format!("max_imbalance {} but max-min is {}", show(&mx), want_mx));
        }
        // imbalance = max_k (L_k - T/K) / (T/K) = max_k (K L_k - T) / T as an exact rational
        let total: i128 = nl.iter().map(|&x| x as i128).sum();
        match &imb {
            Ok(b) => {
                let got = f64::from_bits(*b);
                if total == 0 {
                    if got != 0.0 {
                        v.add("imbalance", format!("imbalance {} with zero total weight", got));
                    }
                } else {
                    // max over parts of the rational (K L - T)/T, compared by cross-multiplication
                    let mut best: Option<i128> = None; // numerator, denominator is `total`
                    for &l in &nl {
                        let num = k as i128 * l as i128 - total;
                        best = Some(match best {
                            None => num,
                            Some(b0) => {
                                // num/total > b0/total ?
                                let gt = if total > 0 { num > b0 } else { num < b0 };
                                if gt { num } else { b0 }
                            }
                        });
                    }
                    let exact = best.unwrap() as f64 / total as f64;
                    let lmax = nl.iter().map(|x| x.abs()).max().unwrap() as f64;
                    let tol = 1e-12 * (1.0 + (k as f64 * lmax / total as f64).abs());
                    if !((got - exact).abs() <= tol) {
                        v.add("imbalance", format!("imbalance {} but the closed form is {}", got, exact));
                    }
                }
            }
            Err(c) => v.add("imbalance", format!("imbalance {} inside the contract", c)),
        }
        if ts.len() == k {
            let want = nl.iter().zip(&ts).map(|(l, t)| l - t).max().unwrap();
            if tgt != Ok(want) {
                v.add("imbalance-target", format!("imbalance_target {} but max(load-target) is {}", show(&tgt), want));
            }
        }
    } else {
        ctx.count("imb:outside_contract");
        if k == 0 && p.len() == ws.len() {
            // documented special case: no parts, imbalance 0
            if imb != Ok(0f64.to_bits()) {
                v.add("imbalance", format!("imbalance {} with zero parts", show(&imb.map(|b| f64::from_bits(b)))));
            }
        }
    }
    let nontrivial = contract && k >= 2 && p.len() >= 2;
    let idx = ctx.record(op.to_string(), out, nontrivial);
    for (sig, what) in v.0 {
        ctx.fail(idx, sig, what);
    }
}

// ------------------------------------------------------------------ LARGE / CORNER stream
//
// Inputs with tens of thousands of vertices are described by a few parameters and expanded by the
// same integer formulas here and in the Lean driver (`Driver/C16.lean`), so the op lines stay
// short. All oracles below are linear in the number of stored entries.
//
// * `lcsr <n> <kind> <stride> <em> <off> <pm> <k> <wm> <seed>`   band matrix `i±1, i±stride`
//     (kind 0 symmetric, 1 directed with dropped entries), edge-weight mode, indptr offset,
//     partition mode, part count, vertex-weight mode.     out: as `csr`
// * `lgrid2 <w> <h> <pm> <k> <wm> <seed>` / `lgrid3 <w> <h> <d> …`            out: as `grid2`
// * `limb <n> <k> <pm> <wm> <seed>`                                           out: as `imb`

fn mix(a: u64, b: u64, s: u64) -> u64 {
    let x = a
        .wrapping_mul(2654435761)
        .wrapping_add(b.wrapping_mul(2246822519))
        .wrapping_add(s.wrapping_mul(3266489917))
        .wrapping_add(374761393)
        & 0xffff_ffff;
    let y = (x ^ (x >> 15)).wrapping_mul(2246822519) & 0xffff_ffff;
    y ^ (y >> 13)
}

/// 0: ids ascending in `k` contiguous blocks, 1: blocks of 4096 cycling through the ids,
/// 2: random, 3: stripes, else: blocks of 8192 with ascending ids.
fn lpart(pm: usize, k: usize, n: usize, seed: u64, i: usize) -> usize {
    match pm {
        0 => ((i as u128 * k as u128) / n as u128) as usize,
        1 => (i / 4096) % k,
        2 => (mix(i as u64, 1, seed) % k as u64) as usize,
        3 => i % k,
        _ => (i / 8192).min(k - 1),
    }
}

fn lweight(wm: usize, seed: u64, i: usize) -> i64 {
    match wm {
        0 => 1,
        1 => 1 + (mix(i as u64, 2, seed) % 7) as i64,
        _ => 1 + (mix(i as u64, 3, seed) % 1_048_576) as i64,
    }
}

fn lrow(gk: usize, s: usize, em: usize, n: usize, seed: u64, i: usize) -> Vec<(usize, i64)> {
    let m: u64 = if em == 0 { 9 } else { 1 << 31 };
    let mut cand = vec![];
    if i >= s {
        cand.push(i - s);
    }
    if i >= 1 {
        cand.push(i - 1);
    }
    if i + 1 < n {
        cand.push(i + 1);
    }
    if i + s < n {
        cand.push(i + s);
    }
    if gk == 0 {
        cand.into_iter().map(|j| (j, 1 + (mix(i.min(j) as u64, i.max(j) as u64, seed) % m) as i64)).collect()
    } else {
        cand.into_iter()
            .filter(|&j| mix(i as u64, j as u64, seed + 7) % 4 != 0)
            .map(|j| (j, 1 + (mix(i as u64, j as u64, seed) % m) as i64))
            .collect()
    }
}

fn limb_weight(wm: usize, n: usize, seed: u64, i: usize) -> i64 {
    match wm {
        0 => 1,
        1 => (mix(i as u64, 2, seed) % 100) as i64,
        2 => (1u64 << 30) as i64 + (mix(i as u64, 3, seed) % (1 << 31)) as i64,
        _ => ((1u64 << 61) / n as u64) as i64 - (mix(i as u64, 4, seed) % 1000) as i64,
    }
}

fn size_class(n: usize) -> &'static str {
    match n {
        0..=4096 => "<=4096",
        4097..=8192 => "4097..8192",
        8193..=16384 => "8193..16384",
        16385..=65536 => "16385..65536",
        65537..=131072 => "65537..131072",
        _ => ">131072",
    }
}

/// Edge cut by the definition, one pass over the stored entries: an entry `(i, j)` below the
/// diagonal whose ends lie in different parts contributes its weight. For a symmetric matrix the
/// sum over *all* entries in different parts must be exactly twice that.
fn linear_edge_cut(rows: &[Vec<(usize, i64)>], p: &[usize], symmetric: bool) -> Result<i64, String> {
    let mut lower = 0i128;
    let mut all = 0i128;
    for (i, r) in rows.iter().enumerate() {
        for &(j, w) in r {
            if p[i] != p[j] {
                all += w as i128;
                if j < i {
                    lower += w as i128;
                }
            }
        }
    }
    if symmetric && all != 2 * lower {
        return Err(format!("oracle self-check: all {} != 2 x lower {}", all, lower));
    }
    Ok(lower as i64)
}

/// λ-1 cut by the definition: per vertex, the parts of the neighbours other than its own are
/// sorted and counted (no hashing).
fn linear_lambda(rows: &[Vec<(usize, i64)>], p: &[usize], ws: &[i64]) -> i64 {
    let mut s = 0i128;
    let mut buf: Vec<usize> = vec![];
    for v in 0..rows.len().min(ws.len()) {
        buf.clear();
        buf.extend(rows[v].iter().map(|e| p[e.0]).filter(|&q| q != p[v]));
        buf.sort_unstable();
        buf.dedup();
        s += ws[v] as i128 * buf.len() as i128;
    }
    s as i64
}

fn parse_nats(t: &mut Toks, k: usize) -> Option<Vec<usize>> {
    let mut v = Vec::with_capacity(k);
    for _ in 0..k {
        v.push(t.one::<usize>()?);
    }
    if t.done() { Some(v) } else { None }
}

fn run_lcsr(ctx: &mut Ctx, op: &str, t: &mut Toks) {
    let Some(a) = parse_nats(t, 9) else {
        ctx.record(op.to_string(), "bad-op".into(), false);
        return;
    };
    let (n, gk, s, em, off, pm, k, wm, seed) = (a[0], a[1], a[2], a[3], a[4], a[5], a[6], a[7], a[8] as u64);
    if s < 2 || k == 0 || n == 0 || n > 2_000_000 {
        ctx.record(op.to_string(), "bad-op".into(), false);
        return;
    }
    let rows: Vec<Vec<(usize, i64)>> = (0..n).map(|i| lrow(gk, s, em, n, seed, i)).collect();
    let p: Vec<usize> = (0..n).map(|i| lpart(pm, k, n, seed, i)).collect();
    let ws: Vec<i64> = (0..n).map(|i| lweight(wm, seed, i)).collect();
    let mut indptr = vec![off];
    let mut indices = vec![];
    let mut data = vec![];
    for r in &rows {
        for &(u, w) in r {
            indices.push(u);
            data.push(w);
        }
        indptr.push(off + indices.len());
    }
    let mut v = Verdicts(vec![]);
    let view: View = match CsMatView::try_new((n, n), &indptr[..], &indices[..], &data[..]) {
        Ok(x) => x,
        Err(_) => {
            let idx = ctx.record(op.to_string(), "invalid-matrix".into(), false);
            ctx.fail(idx, "harness-bug", "the large generator built an invalid matrix".into());
            return;
        }
    };
    let set = lpools();
    let (eg, s1) = in_pool_set(set, || <&View as Topology<i64>>::edge_cut(&&view, &p));
    let (es, s2) = in_pool_set(set, || <View as Topology<i64>>::edge_cut(&view, &p));
    let (lg, s3) = in_pool_set(set, || <&View as Topology<i64>>::lambda_cut(&&view, &p, ws.clone()));
    let (ls, s4) = in_pool_set(set, || <View as Topology<i64>>::lambda_cut(&view, &p, ws.clone()));
    let out = format!("eg={} es={} lg={} ls={}", show(&eg), show(&es), show(&lg), show(&ls));
    if !(s1 && s2 && s3 && s4) {
        v.add("pool-dependent", "the answer depends on the rayon pool size".into());
    }
    // reuse: the same view answers for another partition in between, then again for the first
    let p2: Vec<usize> = p.iter().rev().cloned().collect();
    let again = guarded(|| {
        let _ = <View as Topology<i64>>::edge_cut(&view, &p2);
        let _ = <View as Topology<i64>>::lambda_cut(&view, &p2, ws.clone());
        (<View as Topology<i64>>::edge_cut(&view, &p), <View as Topology<i64>>::lambda_cut(&view, &p, ws.clone()))
    });
    ctx.count("reuse");
    if let (Ok((e2, l2)), Ok(e1), Ok(l1)) = (&again, &es, &ls) {
        if e2 != e1 || l2 != l1 {
            v.add("history-dependent", format!("second call on the same view: {} / {} after {} / {}", e2, l2, e1, l1));
        }
    }
    match linear_edge_cut(&rows, &p, gk == 0) {
        Err(m) => v.add("oracle-self-check", m),
        Ok(want_e) => {
            for (name, got) in [("generic-edge-cut", &eg), ("sprs-edge-cut", &es)] {
                if *got != Ok(want_e) {
                    let sig = if off != 0 && got.is_err() && name.starts_with("sprs") { "sprs-offset-indptr-panic" } else { name };
                    v.add(sig, format!("{} {} but the definition gives {}", name, show(got), want_e));
                }
            }
        }
    }
    let want_l = linear_lambda(&rows, &p, &ws);
    for (name, got) in [("generic-lambda-cut", &lg), ("sprs-lambda-cut", &ls)] {
        if *got != Ok(want_l) {
            let sig = if off != 0 && got.is_err() && name.starts_with("sprs") { "sprs-offset-indptr-panic" } else { name };
            v.add(sig, format!("{} {} but the definition gives {}", name, show(got), want_l));
        }
    }
    ctx.count(&format!("large:csr:{}", size_class(n)));
    let idx = ctx.record(op.to_string(), out, n >= 2 && k >= 2);
    for (sig, what) in v.0 {
        ctx.fail(idx, sig, what);
    }
}

fn run_lgrid(ctx: &mut Ctx, op: &str, t: &mut Toks, dim: usize) {
    let Some(a) = parse_nats(t, if dim == 2 { 6 } else { 7 }) else {
        ctx.record(op.to_string(), "bad-op".into(), false);
        return;
    };
    let (w, h, d) = if dim == 2 { (a[0], a[1], 1) } else { (a[0], a[1], a[2]) };
    let o = dim; // offset of the remaining parameters
    let (pm, k, wm, seed) = (a[o], a[o + 1], a[o + 2], a[o + 3] as u64);
    if w == 0 || h == 0 || d == 0 || k == 0 || w.saturating_mul(h).saturating_mul(d) > 2_000_000 {
        ctx.record(op.to_string(), "bad-op".into(), false);
        return;
    }
    let n = w * h * d;
    let g = if dim == 2 { G::D2(coupe::Grid::new_2d(nz(w), nz(h))) } else { G::D3(coupe::Grid::new_3d(nz(w), nz(h), nz(d))) };
    let p: Vec<usize> = (0..n).map(|i| lpart(pm, k, n, seed, i)).collect();
    let ws: Vec<i64> = (0..n).map(|i| lweight(wm, seed, i)).collect();
    // the lattice by enumeration of the cells (x fastest): neighbours in increasing order
    let mut rows: Vec<Vec<(usize, i64)>> = Vec::with_capacity(n);
    let mut i = 0usize;
    for z in 0..d {
        for y in 0..h {
            for x in 0..w {
                let mut r = Vec::with_capacity(6);
                if z > 0 {
                    r.push((i - w * h, 1));
                }
                if y > 0 {
                    r.push((i - w, 1));
                }
                if x > 0 {
                    r.push((i - 1, 1));
                }
                if x + 1 < w {
                    r.push((i + 1, 1));
                }
                if y + 1 < h {
                    r.push((i + w, 1));
                }
                if z + 1 < d {
                    r.push((i + w * h, 1));
                }
                rows.push(r);
                i += 1;
            }
        }
    }
    let mut indptr = vec![0usize];
    let mut indices = vec![];
    for r in &rows {
        indices.extend(r.iter().map(|e| e.0));
        indptr.push(indices.len());
    }
    let data = vec![1i64; indices.len()];
    let mut v = Verdicts(vec![]);
    let view: View = match CsMatView::try_new((n, n), &indptr[..], &indices[..], &data[..]) {
        Ok(x) => x,
        Err(_) => {
            let idx = ctx.record(op.to_string(), "invalid-matrix".into(), false);
            ctx.fail(idx, "harness-bug", "the large generator built an invalid lattice".into());
            return;
        }
    };
    let set = lpools();
    let (eg, s1) = in_pool_set(set, || g.edge_cut(&p));
    let (lg, s2) = in_pool_set(set, || g.lambda_cut(&p, ws.clone()));
    let (ce, s3) = in_pool_set(set, || <View as Topology<i64>>::edge_cut(&view, &p));
    let (cl, s4) = in_pool_set(set, || <View as Topology<i64>>::lambda_cut(&view, &p, ws.clone()));
    let (cge, s5) = in_pool_set(set, || <&View as Topology<i64>>::edge_cut(&&view, &p));
    let (cgl, s6) = in_pool_set(set, || <&View as Topology<i64>>::lambda_cut(&&view, &p, ws.clone()));
    let out = format!("eg={} lg={} ce={} cl={}", show(&eg), show(&lg), show(&ce), show(&cl));
    if !(s1 && s2 && s3 && s4 && s5 && s6) {
        v.add("pool-dependent", "the answer depends on the rayon pool size".into());
    }
    if g.len() != n {
        v.add("grid-len", format!("Grid len {} but {} cells", g.len(), n));
    }
    // the definition, edge by edge: every +x, +y, +z lattice edge whose ends differ counts one
    let mut want_e = 0i64;
    let mut i = 0usize;
    for z in 0..d {
        for y in 0..h {
            for x in 0..w {
                if x + 1 < w && p[i] != p[i + 1] {
                    want_e += 1;
                }
                if y + 1 < h && p[i] != p[i + w] {
                    want_e += 1;
                }
                if z + 1 < d && p[i] != p[i + w * h] {
                    want_e += 1;
                }
                i += 1;
            }
        }
    }
    match linear_edge_cut(&rows, &p, true) {
        Ok(e) if e == want_e => {}
        other => v.add("oracle-self-check", format!("edge enumeration {} against entry enumeration {:?}", want_e, other)),
    }
    let want_l = linear_lambda(&rows, &p, &ws);
    for (name, got, want) in [
        ("grid-edge-cut", &eg, want_e),
        ("grid-lambda-cut", &lg, want_l),
        ("lattice-sprs-edge-cut", &ce, want_e),
        ("lattice-sprs-lambda-cut", &cl, want_l),
        ("lattice-generic-edge-cut", &cge, want_e),
        ("lattice-generic-lambda-cut", &cgl, want_l),
    ] {
        if *got != Ok(want) {
            v.add(name, format!("{} but the definition gives {}", show(got), want));
        }
    }
    // the iterator itself at a sample of cells (all cells when small): the set must be the lattice row
    let step = (n / 4099).max(1);
    let mut c = 0;
    while c < n {
        let mut got: Vec<usize> = g.neighbors(c).iter().map(|e| e.0).collect();
        got.sort_unstable();
        let want: Vec<usize> = rows[c].iter().map(|e| e.0).collect();
        if got != want {
            v.add("grid-neighbours", format!("cell {}: neighbours {:?}, lattice {:?}", c, got, want));
            break;
        }
        c += step;
    }
    ctx.count(&format!("large:grid{}d:{}", dim, size_class(n)));
    let idx = ctx.record(op.to_string(), out, n >= 2 && k >= 2);
    for (sig, what) in v.0 {
        ctx.fail(idx, sig, what);
    }
}

fn run_limb(ctx: &mut Ctx, op: &str, t: &mut Toks) {
    let Some(a) = parse_nats(t, 5) else {
        ctx.record(op.to_string(), "bad-op".into(), false);
        return;
    };
    let (n, k, pm, wm, seed) = (a[0], a[1], a[2], a[3], a[4] as u64);
    if k == 0 || n == 0 || n > 2_000_000 || k > 100_000 {
        ctx.record(op.to_string(), "bad-op".into(), false);
        return;
    }
    let p: Vec<usize> = (0..n).map(|i| lpart(pm, k, n, seed, i)).collect();
    let ws: Vec<i64> = (0..n).map(|i| limb_weight(wm, n, seed, i)).collect();
    let ts: Vec<i64> = (0..k).map(|j| (mix(j as u64, 5, seed) % 1000) as i64).collect();
    let total: i128 = ws.iter().map(|&x| x as i128).sum();
    ctx.count(&format!("large:imb:{}", size_class(n)));
    ctx.count(if total % k as i128 == 0 { "large:imb:total_divisible" } else { "large:imb:total_not_divisible" });
    eval_imb(ctx, op, k, p, ws, ts, true);
}

fn gen_large(ctx: &mut Ctx) {
    let quick = ctx.quick();
    let seed = |ctx: &mut Ctx| ctx.rng.below(1 << 20);
    // --- CSR: (n, kind, stride, edge mode, offset, partition mode, parts, weight mode)
    let mut csr: Vec<[usize; 8]> = vec![
        [8193, 0, 4096, 0, 0, 0, 2, 1],
        [16385 + 37, 0, 8192, 0, 0, 0, 64, 1],
        [20001, 1, 4096, 1, 0, 1, 257, 2],
        [65537 + 11, 0, 8192, 1, 3, 0, 257, 1],
        [70001, 1, 97, 0, 0, 2, 64, 0],
        [70001, 0, 2, 0, 0, 3, 70001, 1], // every vertex its own part: more than 65 536 ids
    ];
    if !quick {
        csr.extend([
            [4097, 0, 4096, 0, 0, 4, 2, 1],
            [8193, 1, 8192, 0, 5, 0, 3, 1],
            [16385, 0, 4097, 1, 0, 4, 255, 2],
            [65536, 0, 8192, 0, 0, 0, 256, 1], // block-aligned on purpose
            [65537, 1, 65536, 0, 0, 0, 2, 0],
            [131077, 0, 8192, 0, 0, 0, 257, 1],
            [131077, 1, 16384, 1, 2, 2, 64, 2],
            [140003, 0, 4096, 0, 0, 1, 128, 1],
            [140003, 0, 3, 1, 0, 4, 65, 0],
        ]);
    }
    for c in csr {
        let s = seed(ctx);
        run_op(ctx, &format!("lcsr {} {} {} {} {} {} {} {} {}", c[0], c[1], c[2], c[3], c[4], c[5], c[6], c[7], s));
    }
    // --- grids: rows of 4096 / 8192 nodes, sizes off the powers of two, unequal 3-D sides
    let mut g2: Vec<[usize; 5]> = vec![[4097, 5, 0, 2, 1], [8192, 3, 0, 64, 1], [8193, 9, 4, 257, 0], [131, 157, 2, 64, 2]];
    let mut g3: Vec<[usize; 6]> = vec![[17, 29, 43, 0, 64, 1], [37, 41, 47, 0, 257, 1], [4096, 3, 2, 1, 2, 0]];
    if !quick {
        g2.extend([[4096, 17, 0, 256, 1], [16385, 9, 0, 2, 1], [70001, 2, 4, 63, 1], [3, 43691, 0, 257, 2], [383, 367, 1, 128, 0]]);
        g3.extend([[53, 47, 59, 0, 257, 1], [8193, 2, 5, 0, 64, 1], [2, 8193, 3, 4, 65, 0], [3, 5, 8737, 0, 255, 2], [61, 31, 73, 2, 2, 1]]);
    }
    for c in g2 {
        let s = seed(ctx);
        run_op(ctx, &format!("lgrid2 {} {} {} {} {} {}", c[0], c[1], c[2], c[3], c[4], s));
    }
    for c in g3 {
        let s = seed(ctx);
        run_op(ctx, &format!("lgrid3 {} {} {} {} {} {} {}", c[0], c[1], c[2], c[3], c[4], c[5], s));
    }
    // --- imbalance: (n, parts, partition mode, weight mode); sorted ids (modes 0, 4) and random (2)
    let mut imb: Vec<[usize; 4]> = vec![
        [8193, 2, 0, 1],
        [16385 + 37, 64, 0, 2],
        [20001, 257, 2, 1],
        [65537 + 11, 257, 0, 2],
        [70001, 64, 2, 3],
        [70001, 3, 4, 1],
    ];
    if !quick {
        imb.extend([
            [8193, 257, 1, 0],
            [16385, 63, 0, 3],
            [65536, 256, 0, 2],
            [65537, 65, 3, 1],
            [131077, 257, 0, 2],
            [131077, 2, 2, 3],
            [140003, 64, 0, 1],
            [140003, 128, 2, 2],
            [140003, 4099, 2, 1],
            [100003, 255, 4, 2],
        ]);
    }
    for c in imb {
        let s = seed(ctx);
        run_op(ctx, &format!("limb {} {} {} {} {}", c[0], c[1], c[2], c[3], s));
    }
    // --- parameter corners at moderate sizes (through the same descriptors)
    for k in [63usize, 64, 65, 128, 255, 256, 257, 4099] {
        ctx.count(&format!("corner:parts={}", k));
        let s = seed(ctx);
        run_op(ctx, &format!("limb {} {} {} {} {}", 5003, k, 2, 1, s));
        let s = seed(ctx);
        run_op(ctx, &format!("lcsr {} 0 {} 0 0 {} {} 1 {}", 4999, 70, if k % 2 == 0 { 0 } else { 2 }, k, s));
        let s = seed(ctx);
        run_op(ctx, &format!("lgrid2 {} {} 2 {} 1 {}", 71, 67, k, s));
    }
    for n in [1usize, 2, 3] {
        ctx.count("corner:tiny");
        let s = seed(ctx);
        run_op(ctx, &format!("lcsr {} 0 2 0 0 3 2 1 {}", n, s));
        run_op(ctx, &format!("limb {} 2 3 1 {}", n, s));
        run_op(ctx, &format!("limb {} 3 2 3 {}", n, s));
    }
    // weights near the top of the i64 range with totals that still fit (loads, max_imbalance exact)
    for (n, k) in [(2usize, 2usize), (3, 2), (1021, 64), (8193, 257)] {
        ctx.count("corner:weights~2^61/n");
        let s = seed(ctx);
        run_op(ctx, &format!("limb {} {} 2 3 {}", n, k, s));
    }
    ctx.notes.push(format!(
        "large/corner stream: descriptor ops (lcsr, lgrid2, lgrid3, limb) in pools {:?}; linear oracles; compared exactly with the model (array-backed evaluator proved equal to it)",
        LPOOLS
    ));
}

pub fn run_op(ctx: &mut Ctx, op: &str) {
    if ctx.hang_limit_reached() {
        return;
    }
    let mut t = Toks(op.split_whitespace());
    match t.0.next() {
        Some("csr") => run_csr(ctx, op, &mut t),
        Some("grid2") => run_grid(ctx, op, &mut t, 2),
        Some("grid3") => run_grid(ctx, op, &mut t, 3),
        Some("nbrs2") => run_nbrs(ctx, op, &mut t, 2),
        Some("nbrs3") => run_nbrs(ctx, op, &mut t, 3),
        Some("imb") => run_imb(ctx, op, &mut t),
        Some("lcsr") => run_lcsr(ctx, op, &mut t),
        Some("lgrid2") => run_lgrid(ctx, op, &mut t, 2),
        Some("lgrid3") => run_lgrid(ctx, op, &mut t, 3),
        Some("limb") => run_limb(ctx, op, &mut t),
        _ => {
            ctx.record(op.to_string(), "bad-op".into(), false);
        }
    }
}

// ------------------------------------------------------------------ generator

fn csr_op(rows: &[Vec<(usize, i64)>], offset: usize, p: &[usize], ws: &[i64]) -> String {
    let mut indptr = vec![offset];
    let mut indices = vec![];
    let mut data = vec![];
    for r in rows {
        for &(u, w) in r {
            indices.push(u);
            data.push(w);
        }
        indptr.push(offset + indices.len());
    }
    format!("csr {} {} {} {} {}", fmt_vec(&indptr), fmt_vec(&indices), fmt_vec(&data), fmt_vec(p), fmt_vec(ws))
}

/// Part ids are arbitrary `usize` values for the cut functions: ids that collide when truncated
/// (to 8, 16, 32 bits), the extremes, and small ids mixed with them.
fn wide_partition(ctx: &mut Ctx, n: usize) -> Vec<usize> {
    const IDS: [usize; 12] = [
        0,
        1,
        255,
        256,
        65_536,
        1 << 32,
        (1 << 32) + 1,
        1 << 33,
        1 << 63,
        (1 << 63) + 1,
        usize::MAX - 1,
        usize::MAX,
    ];
    let k = 2 + ctx.rng.usize(4);
    let pick: Vec<usize> = (0..k).map(|_| IDS[ctx.rng.usize(IDS.len())]).collect();
    (0..n).map(|_| pick[ctx.rng.usize(k)]).collect()
}

fn rand_partition(ctx: &mut Ctx, n: usize) -> Vec<usize> {
    let k = 1 + ctx.rng.usize(5);
    match ctx.rng.usize(6) {
        0 => vec![ctx.rng.usize(k); n],                                // one part
        1 => (0..n).map(|i| i * k / n.max(1)).collect(),               // contiguous blocks
        2 => (0..n).map(|i| i % k).collect(),                          // stripes
        3 => (0..n).map(|_| ctx.rng.usize(k) * 1000 + 7).collect(),    // sparse part ids
        _ => (0..n).map(|_| ctx.rng.usize(k)).collect(),
    }
}

fn rand_weights(ctx: &mut Ctx, n: usize) -> Vec<i64> {
    match ctx.rng.usize(5) {
        0 => vec![1; n],
        1 => (0..n).map(|_| ctx.rng.range(0, 3)).collect(),
        2 => (0..n).map(|_| ctx.rng.range(-5, 20)).collect(),
        3 => (0..n).map(|_| ctx.rng.range(0, 1_000_000_000)).collect(),
        _ => (0..n).map(|_| ctx.rng.range(1, 100)).collect(),
    }
}

fn gen_csr(ctx: &mut Ctx) {
    let n = match ctx.rng.usize(10) {
        0 => ctx.rng.usize(3),
        1..=6 => 2 + ctx.rng.usize(10),
        _ => 8 + ctx.rng.usize(if ctx.quick() { 30 } else { 60 }),
    };
    let shape = ctx.rng.usize(8);
    let density = 1 + ctx.rng.usize(6); // expected entries per row
    let mut rows: Vec<Vec<(usize, i64)>> = vec![vec![]; n];
    let wmode = ctx.rng.usize(4);
    let weight = |ctx: &mut Ctx| match wmode {
        0 => 1,
        1 => ctx.rng.range(1, 9),
        2 => ctx.rng.range(-9, 9), // negative and explicit-zero entries
        _ => ctx.rng.range(1, 1_000_000_000),
    };
    let has = |r: &Vec<(usize, i64)>, u: usize| r.iter().any(|e| e.0 == u);
    let name = match shape {
        0..=2 => {
            // symmetric, maybe with a diagonal
            for _ in 0..n * density / 2 {
                let (a, b) = (ctx.rng.usize(n), ctx.rng.usize(n));
                if a == b && ctx.rng.chance(1, 2) {
                    continue;
                }
                if !has(&rows[a], b) {
                    let w = weight(ctx);
                    rows[a].push((b, w));
                    if a != b {
                        rows[b].push((a, w));
                    }
                }
            }
            "symmetric"
        }
        3 => {
            // same pattern both ways, different weights
            for _ in 0..n * density / 2 {
                let (a, b) = (ctx.rng.usize(n), ctx.rng.usize(n));
                if a != b && !has(&rows[a], b) {
                    rows[a].push((b, weight(ctx)));
                    rows[b].push((a, weight(ctx)));
                }
            }
            "asym_weights"
        }
        4 => {
            for _ in 0..n * density {
                let (a, b) = (ctx.rng.usize(n), ctx.rng.usize(n));
                if !has(&rows[a], b) {
                    rows[a].push((b, weight(ctx)));
                }
            }
            "asym_pattern"
        }
        5 => {
            // only above / only below the diagonal
            let upper = ctx.rng.chance(1, 2);
            for _ in 0..n * density {
                let (a, b) = (ctx.rng.usize(n), ctx.rng.usize(n));
                if a != b {
                    let (lo, hi) = (a.min(b), a.max(b));
                    let (r, c) = if upper { (lo, hi) } else { (hi, lo) };
                    if !has(&rows[r], c) {
                        rows[r].push((c, weight(ctx)));
                    }
                }
            }
            "triangular"
        }
        6 => {
            // few vertices carry everything: many empty rows / isolated vertices
            let hubs = 1 + ctx.rng.usize(2);
            for _ in 0..n * density / 2 {
                let (a, b) = (ctx.rng.usize(hubs.min(n.max(1))), ctx.rng.usize(n));
                if a != b && !has(&rows[a], b) {
                    let w = weight(ctx);
                    rows[a].push((b, w));
                    rows[b].push((a, w));
                }
            }
            "hubs_isolated"
        }
        _ => {
            // path / ring
            for i in 1..n {
                let w = weight(ctx);
                rows[i].push((i - 1, w));
                rows[i - 1].push((i, w));
            }
            "path"
        }
    };
    if n == 0 && shape != 0 {
        // keep the empty graph rare
    }
    for r in rows.iter_mut() {
        r.sort();
    }
    ctx.count(&format!("csr_shape:{}", name));
    let p = if ctx.rng.chance(1, 6) {
        ctx.count("csr_partition:wide-ids");
        wide_partition(ctx, n)
    } else {
        rand_partition(ctx, n)
    };
    let ws = rand_weights(ctx, n);
    // streams
    let stream = ctx.rng.usize(20);
    match stream {
        0 | 1 => {
            // separate stream: rows not sorted (precondition of the specialisation broken)
            for r in rows.iter_mut() {
                ctx.rng.shuffle(r);
            }
            if ctx.rng.chance(1, 3) && n > 0 {
                // a repeated entry
                let a = ctx.rng.usize(n);
                if let Some(&e) = rows[a].first() {
                    rows[a].push(e);
                }
            }
            ctx.count("csr_stream:unsorted");
            let op = csr_op(&rows, 0, &p, &ws);
            run_op(ctx, &op);
        }
        2 => {
            // a valid view whose indptr does not start at 0 (what `slice_outer` produces)
            ctx.count("csr_stream:offset_indptr");
            let off = 1 + ctx.rng.usize(5);
            let op = csr_op(&rows, off, &p, &ws);
            run_op(ctx, &op);
        }
        3 => {
            // malformed: partition too short, or weights of another length
            ctx.count("csr_stream:malformed");
            let mut p2 = p.clone();
            let mut ws2 = ws.clone();
            match ctx.rng.usize(3) {
                0 => {
                    p2.truncate(ctx.rng.usize(n.max(1)));
                }
                1 => {
                    ws2.truncate(ctx.rng.usize(n.max(1)));
                }
                _ => {
                    ws2.extend([3, 4, 5]);
                    p2.extend([0, 1]);
                }
            }
            let op = csr_op(&rows, 0, &p2, &ws2);
            run_op(ctx, &op);
        }
        _ => {
            ctx.count("csr_stream:valid");
            let op = csr_op(&rows, 0, &p, &ws);
            run_op(ctx, &op);
        }
    }
}

fn grid_op(w: usize, h: usize, d: Option<usize>, p: &[usize], ws: &[i64]) -> String {
    match d {
        None => format!("grid2 {} {} {} {}", w, h, fmt_vec(p), fmt_vec(ws)),
        Some(d) => format!("grid3 {} {} {} {} {}", w, h, d, fmt_vec(p), fmt_vec(ws)),
    }
}

fn gen_grid(ctx: &mut Ctx) {
    let three = ctx.rng.chance(2, 5);
    let (w, h, d) = if three {
        let m = if ctx.quick() { 5 } else { 6 };
        (1 + ctx.rng.usize(m), 1 + ctx.rng.usize(m), Some(1 + ctx.rng.usize(m)))
    } else {
        (1 + ctx.rng.usize(12), 1 + ctx.rng.usize(12), None)
    };
    let n = w * h * d.unwrap_or(1);
    let mut p = if ctx.rng.chance(1, 8) {
        ctx.count("grid_partition:wide-ids");
        wide_partition(ctx, n)
    } else {
        rand_partition(ctx, n)
    };
    let mut ws = rand_weights(ctx, n);
    if ctx.rng.chance(1, 25) {
        ctx.count("grid_stream:malformed");
        match ctx.rng.usize(3) {
            0 => p.truncate(ctx.rng.usize(n)),
            1 => ws.truncate(ctx.rng.usize(n)),
            _ => {
                ws.push(9);
                p.push(1)
            }
        }
    }
    let op = grid_op(w, h, d, &p, &ws);
    run_op(ctx, &op);
}

fn gen_imb(ctx: &mut Ctx) {
    let n = match ctx.rng.usize(6) {
        0 => ctx.rng.usize(3),
        _ => 1 + ctx.rng.usize(24),
    };
    let k = match ctx.rng.usize(8) {
        0 => 1,
        1 => 1 + ctx.rng.usize(12), // possibly more parts than elements: empty parts
        _ => 1 + ctx.rng.usize(5),
    };
    let mut p: Vec<usize> = match ctx.rng.usize(4) {
        0 => vec![ctx.rng.usize(k); n],
        1 => (0..n).map(|i| i % k).collect(),
        _ => (0..n).map(|_| ctx.rng.usize(k)).collect(),
    };
    let mut ws: Vec<i64> = match ctx.rng.usize(7) {
        0 => vec![0; n],
        1 => vec![1; n],
        2 => (0..n).map(|_| ctx.rng.range(-10, 10)).collect(), // totals of either sign, or zero
        3 => (0..n).map(|_| ctx.rng.range(0, 1_000_000_000_000)).collect(),
        4 => {
            let mut v: Vec<i64> = (0..n).map(|_| ctx.rng.range(0, 5)).collect();
            if n > 0 {
                let i = ctx.rng.usize(n);
                v[i] = 100_000;
            }
            v
        }
        _ => (0..n).map(|_| ctx.rng.range(0, 100)).collect(),
    };
    let mut ts: Vec<i64> = (0..k).map(|_| ctx.rng.range(0, 200)).collect();
    let mut k2 = k;
    match ctx.rng.usize(30) {
        0 => {
            ctx.count("imb_stream:zero_parts");
            k2 = 0;
            ts.clear();
            if ctx.rng.chance(1, 2) {
                p.clear();
                ws.clear();
            }
        }
        1 => {
            ctx.count("imb_stream:part_out_of_range");
            if n > 0 {
                let i = ctx.rng.usize(n);
                p[i] = k + ctx.rng.usize(3);
            }
        }
        2 => {
            ctx.count("imb_stream:len_mismatch");
            if ctx.rng.chance(1, 2) {
                ws.push(5);
            } else {
                p.push(0);
            }
        }
        3 => {
            ctx.count("imb_stream:targets_len");
            ts.pop();
        }
        _ => ctx.count("imb_stream:valid"),
    }
    let op = format!("imb {} {} {} {}", k2, fmt_vec(&p), fmt_vec(&ws), fmt_vec(&ts));
    run_op(ctx, &op);
}

/// every 2-colouring of a grid
fn exhaustive_grid(ctx: &mut Ctx, w: usize, h: usize, d: Option<usize>) -> u64 {
    let n = w * h * d.unwrap_or(1);
    let ws: Vec<i64> = (0..n as i64).map(|i| 1 + (i * 7) % 5).collect();
    let mut count = 0;
    for mask in 0u32..(1u32 << n) {
        // colourings are counted up to the swap of the two colours: cell 0 has colour 0
        if mask & 1 == 1 {
            continue;
        }
        let p: Vec<usize> = (0..n).map(|i| (mask >> i & 1) as usize).collect();
        let op = grid_op(w, h, d, &p, &ws);
        run_op(ctx, &op);
        count += 1;
    }
    count
}

pub fn generate(ctx: &mut Ctx) {
    // 1. neighbour lists, positions and indices of every small grid
    let (m2, m3) = if ctx.quick() { (12, 5) } else { (16, 7) };
    for w in 1..=m2 {
        for h in 1..=m2 {
            run_op(ctx, &format!("nbrs2 {} {}", w, h));
        }
    }
    for w in 1..=m3 {
        for h in 1..=m3 {
            for d in 1..=m3 {
                run_op(ctx, &format!("nbrs3 {} {} {}", w, h, d));
            }
        }
    }
    ctx.notes.push(format!("exhaustive: neighbour lists / position_of / index_of of all 2-D grids up to {0}x{0} and all 3-D grids up to {1}x{1}x{1}", m2, m3));
    // 2. every 2-colouring (up to colour swap) of every grid with at most `cells` cells
    let cells = if ctx.quick() { 9 } else { 12 };
    let mut total = 0;
    for w in 1..=cells {
        for h in 1..=cells {
            if w * h <= cells {
                total += exhaustive_grid(ctx, w, h, None);
            }
            for d in 2..=cells {
                // d = 1 is covered by the random stream; keep the 3-D sweep to real 3-D grids
                if w * h * d <= cells && w >= 1 && h >= 1 {
                    total += exhaustive_grid(ctx, w, h, Some(d));
                }
            }
        }
    }
    ctx.notes.push(format!("exhaustive: all 2-colourings (cell 0 fixed) of all 2-D and 3-D (depth >= 2) grids with <= {} cells: {} cases", cells, total));
    // 3. large sizes and parameter corners
    gen_large(ctx);
    // 4. random streams
    for _ in 0..ctx.budget(2500, 60000) {
        gen_csr(ctx);
    }
    for _ in 0..ctx.budget(500, 8000) {
        gen_grid(ctx);
    }
    for _ in 0..ctx.budget(1500, 30000) {
        gen_imb(ctx);
    }
}
