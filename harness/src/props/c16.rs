//! C16 — edge cut, lambda cut and imbalance agree with their definitions.
//!
//! ops (vectors are `<len> <x…>`):
//! * `csr <indptr> <indices> <data> <partition> <weights>`   raw CSR storage of a square view
//!     out: `eg=<generic edge cut> es=<sprs edge cut> lg=<generic lambda> ls=<sprs lambda>`
//! * `grid2 <w> <h> <partition> <weights>` / `grid3 <w> <h> <d> <partition> <weights>`
//!     out: `eg=<Grid edge cut> lg=<Grid lambda> ce=<lattice CSR, sprs edge cut> cl=<lattice CSR, sprs lambda>`
//! * `nbrs2 <w> <h>` / `nbrs3 <w> <h> <d>`
//!     out: `n=<len> nb=<neighbour lists in iterator order> pos=<position_of(i):index_of(position_of(i))…>`
//! * `imb <k> <partition> <weights> <targets>`
//!     out: `loads=[…] max=<max_imbalance> imb=<imbalance f64 bits> tgt=<imbalance_target>`
//! A value is replaced by `panic(index|slice|assert)` when the call panics.
//!
//! Every topology call is made in rayon pools of 1, 4 and 16 threads; the three answers
//! must be identical (oracle) and one is recorded.

use crate::common::*;
use coupe::sprs::{CompressedStorage, CsMatView, TriMat};
use coupe::Topology;
use std::collections::BTreeSet;
use std::num::NonZeroUsize;
use std::sync::OnceLock;

type View<'a> = CsMatView<'a, i64>;

const POOLS: [usize; 3] = [1, 4, 16];

fn pools() -> &'static Vec<coupe::rayon::ThreadPool> {
    static P: OnceLock<Vec<coupe::rayon::ThreadPool>> = OnceLock::new();
    P.get_or_init(|| {
        POOLS
            .iter()
            .map(|&t| coupe::rayon::ThreadPoolBuilder::new().num_threads(t).build().expect("pool"))
            .collect()
    })
}

/// `Ok(value)` or `Err(panic class)`.
type Res<T> = Result<T, String>;

fn class(m: &str) -> String {
    let c = if m.contains("out of range for slice") || m.contains("slice index starts at") {
        "slice"
    } else if m.contains("index out of bounds") {
        "index"
    } else if m.contains("assertion") {
        "assert"
    } else {
        return format!("panic(other:{})", m);
    };
    format!("panic({})", c)
}

fn guarded<T>(f: impl FnOnce() -> T) -> Res<T> {
    match catch(f) {
        Caught::Ok(v) => Ok(v),
        Caught::Panic(m) => Err(class(&m)),
        Caught::Hang => Err("hang".into()),
    }
}

/// Run `f` in every pool; `Err(())` in `.1` if the pools disagree.
fn in_pools<T: PartialEq + Clone + Send>(f: impl Fn() -> T + Sync + Send) -> (Res<T>, bool) {
    let mut first: Option<Res<T>> = None;
    let mut same = true;
    for pool in pools() {
        let r = guarded(|| pool.install(&f));
        match &first {
            None => first = Some(r),
            Some(x) => {
                if *x != r {
                    same = false;
                }
            }
        }
    }
    (first.unwrap(), same)
}

fn show<T: std::fmt::Display>(r: &Res<T>) -> String {
    match r {
        Ok(v) => v.to_string(),
        Err(c) => c.clone(),
    }
}

// ------------------------------------------------------------------ parsing

struct Toks<'a>(std::str::SplitWhitespace<'a>);

impl<'a> Toks<'a> {
    fn one<T: std::str::FromStr>(&mut self) -> Option<T> {
        self.0.next()?.parse().ok()
    }
    fn vec<T: std::str::FromStr>(&mut self) -> Option<Vec<T>> {
        let n: usize = self.one()?;
        if n > 1_000_000 {
            return None;
        }
        let mut v = Vec::with_capacity(n);
        for _ in 0..n {
            v.push(self.one()?);
        }
        Some(v)
    }
    fn done(&mut self) -> bool {
        self.0.next().is_none()
    }
}

fn fmt_vec<T: std::fmt::Display>(v: &[T]) -> String {
    if v.is_empty() {
        "0".to_string()
    } else {
        format!("{} {}", v.len(), join(v))
    }
}

// ------------------------------------------------------------------ naive definitions (oracle)

/// Rows `(neighbour, weight)` of vertex `v` read from the raw arrays the way sprs documents them
/// (the offset of a sliced view is the first `indptr` entry).
fn rows_of(indptr: &[usize], indices: &[usize], data: &[i64]) -> Vec<Vec<(usize, i64)>> {
    let off = indptr[0];
    (0..indptr.len() - 1)
        .map(|v| (indptr[v] - off..indptr[v + 1] - off).map(|k| (indices[k], data[k])).collect())
        .collect()
}

fn dense(rows: &[Vec<(usize, i64)>]) -> Vec<Vec<i64>> {
    let n = rows.len();
    let mut d = vec![vec![0i64; n]; n];
    for (v, r) in rows.iter().enumerate() {
        for &(u, w) in r {
            d[v][u] += w;
        }
    }
    d
}

/// Definition: every unordered pair {i, j} in different parts contributes the weight of its edge,
/// read below the diagonal (`d[i][j]`, `j < i`). For a symmetric matrix this is the textbook
/// edge cut; for an asymmetric one it is what all three code paths document by construction.
fn naive_edge_cut(d: &[Vec<i64>], p: &[usize]) -> i64 {
    let mut s = 0;
    for i in 0..d.len() {
        for j in 0..i {
            if p[i] != p[j] {
                s += d[i][j];
            }
        }
    }
    s
}

/// Symmetric matrices only: half the sum over ordered pairs.
fn naive_edge_cut_sym(d: &[Vec<i64>], p: &[usize]) -> i64 {
    let mut s = 0;
    for i in 0..d.len() {
        for j in 0..d.len() {
            if p[i] != p[j] {
                s += d[i][j];
            }
        }
    }
    s / 2
}

/// Σ_v w(v) · (number of distinct parts in the closed neighbourhood − 1); the neighbourhood is
/// the set of stored entries of the row (explicit zeros count, as in the code).
fn naive_lambda(rows: &[Vec<(usize, i64)>], p: &[usize], ws: &[i64]) -> i64 {
    let mut s = 0;
    for v in 0..rows.len().min(ws.len()) {
        let mut parts = BTreeSet::new();
        parts.insert(p[v]);
        for &(u, _) in &rows[v] {
            parts.insert(p[u]);
        }
        s += ws[v] * (parts.len() as i64 - 1);
    }
    s
}

// ------------------------------------------------------------------ csr op

struct Verdicts(Vec<(&'static str, String)>);

impl Verdicts {
    fn add(&mut self, sig: &'static str, what: String) {
        self.0.push((sig, what));
    }
}

fn run_csr(ctx: &mut Ctx, op: &str, t: &mut Toks) {
    let parsed = (|| {
        let indptr: Vec<usize> = t.vec()?;
        let indices: Vec<usize> = t.vec()?;
        let data: Vec<i64> = t.vec()?;
        let p: Vec<usize> = t.vec()?;
        let ws: Vec<i64> = t.vec()?;
        if !t.done() {
            return None;
        }
        Some((indptr, indices, data, p, ws))
    })();
    let Some((indptr, indices, data, p, ws)) = parsed else {
        ctx.record(op.to_string(), "bad-op".into(), false);
        return;
    };
    // shape check (everything sprs checks except the order inside a row)
    let shaped = !indptr.is_empty()
        && indptr.windows(2).all(|w| w[0] <= w[1])
        && indptr[indptr.len() - 1] - indptr[0] == indices.len()
        && indices.len() == data.len()
        && indices.iter().all(|&u| u < indptr.len() - 1);
    if !shaped {
        ctx.record(op.to_string(), "bad-op".into(), false);
        return;
    }
    let n = indptr.len() - 1;
    let view: View = match CsMatView::try_new((n, n), &indptr[..], &indices[..], &data[..]) {
        Ok(v) => {
            ctx.count("csr:valid");
            v
        }
        Err(_) => {
            ctx.count("csr:unsorted_rows(new_unchecked)");
            // SAFETY: sizes and index ranges were checked above; only the order inside the rows
            // is not what sprs requires, and every access made by coupe and by `outer_view` is a
            // checked slice access.
            unsafe { CsMatView::new_unchecked(CompressedStorage::CSR, (n, n), &indptr[..], &indices[..], &data[..]) }
        }
    };
    let valid = view.check_compressed_structure().is_ok();
    let offset = indptr[0] != 0;
    let (eg, s1) = in_pools(|| <&View as Topology<i64>>::edge_cut(&&view, &p));
    let (es, s2) = in_pools(|| <View as Topology<i64>>::edge_cut(&view, &p));
    let (lg, s3) = in_pools(|| <&View as Topology<i64>>::lambda_cut(&&view, &p, ws.clone()));
    let (ls, s4) = in_pools(|| <View as Topology<i64>>::lambda_cut(&view, &p, ws.clone()));
    let out = format!("eg={} es={} lg={} ls={}", show(&eg), show(&es), show(&lg), show(&ls));

    // oracle
    let mut v = Verdicts(vec![]);
    if !(s1 && s2 && s3 && s4) {
        v.add("pool-dependent", "the answer depends on the rayon pool size".into());
    }
    let rows = rows_of(&indptr, &indices, &data);
    let d = dense(&rows);
    let symmetric = (0..n).all(|i| (0..n).all(|j| d[i][j] == d[j][i]));
    let reads_ok = p.len() >= n;
    if reads_ok {
        let want_e = naive_edge_cut(&d, &p);
        let want_l = naive_lambda(&rows, &p, &ws);
        if symmetric && naive_edge_cut_sym(&d, &p) != want_e {
            v.add("oracle-self-check", "two forms of the definition differ".into());
        }
        if eg != Ok(want_e) {
            v.add("generic-edge-cut", format!("generic edge_cut {} but the definition gives {}", show(&eg), want_e));
        }
        if lg != Ok(want_l) {
            v.add("generic-lambda-cut", format!("generic lambda_cut {} but the definition gives {}", show(&lg), want_l));
        }
        if valid {
            if es != Ok(want_e) {
                let sig = if offset && es.is_err() { "sprs-offset-indptr-panic" } else { "sprs-edge-cut" };
                v.add(sig, format!("sprs edge_cut {} but the definition (and the generic method) give {}", show(&es), want_e));
            }
            if ls != Ok(want_l) {
                let sig = if offset && ls.is_err() { "sprs-offset-indptr-panic" } else { "sprs-lambda-cut" };
                v.add(sig, format!("sprs lambda_cut {} but the definition (and the generic method) give {}", show(&ls), want_l));
            }
        } else {
            // precondition of the specialisation (sorted rows) not met: only counted
            if es != Ok(want_e) {
                ctx.count("csr:unsorted:sprs_edge_cut_differs");
            } else {
                ctx.count("csr:unsorted:sprs_edge_cut_agrees");
            }
            if ls != Ok(want_l) {
                v.add("sprs-lambda-cut", format!("sprs lambda_cut {} on unsorted rows, definition {}", show(&ls), want_l));
            }
        }
    } else {
        // malformed: partition shorter than the matrix; every path must refuse (panic), none may
        // return a number
        ctx.count("csr:short_partition");
        if n > 0 && (eg.is_ok() || es.is_ok()) {
            v.add("short-partition-accepted", format!("edge_cut answered {} / {} on a short partition", show(&eg), show(&es)));
        }
    }
    ctx.count(if symmetric { "csr:symmetric" } else { "csr:asymmetric" });
    if offset {
        ctx.count("csr:offset_indptr");
    }
    if rows.iter().any(|r| r.is_empty()) {
        ctx.count("csr:has_empty_row");
    }
    if ws.len() != n {
        ctx.count("csr:weights_len_differs");
    }
    let nontrivial = reads_ok && n >= 2 && !indices.is_empty() && p.iter().take(n).any(|&x| x != p[0]);
    let idx = ctx.record(op.to_string(), out, nontrivial);
    for (sig, what) in v.0 {
        ctx.fail(idx, sig, what);
    }
}

// ------------------------------------------------------------------ grid ops

fn nz(x: usize) -> NonZeroUsize {
    NonZeroUsize::new(x).unwrap()
}

/// Coordinates of cell `i`, by enumeration (x fastest, then y, then z).
fn coords(w: usize, h: usize, d: usize) -> Vec<[usize; 3]> {
    let mut c = Vec::with_capacity(w * h * d);
    for z in 0..d {
        for y in 0..h {
            for x in 0..w {
                c.push([x, y, z]);
            }
        }
    }
    c
}

fn l1(a: &[usize; 3], b: &[usize; 3]) -> usize {
    (0..3).map(|k| a[k].abs_diff(b[k])).sum()
}

/// The lattice as rows of neighbours at L1 distance 1, increasing (O(n²)).
fn lattice_rows(c: &[[usize; 3]]) -> Vec<Vec<(usize, i64)>> {
    (0..c.len())
        .map(|i| (0..c.len()).filter(|&j| l1(&c[i], &c[j]) == 1).map(|j| (j, 1i64)).collect())
        .collect()
}

enum G {
    D2(coupe::Grid<2>),
    D3(coupe::Grid<3>),
}

impl G {
    fn edge_cut(&self, p: &[usize]) -> i64 {
        match self {
            G::D2(g) => Topology::<i64>::edge_cut(g, p),
            G::D3(g) => Topology::<i64>::edge_cut(g, p),
        }
    }
    fn lambda_cut(&self, p: &[usize], ws: Vec<i64>) -> i64 {
        match self {
            G::D2(g) => Topology::<i64>::lambda_cut(g, p, ws),
            G::D3(g) => Topology::<i64>::lambda_cut(g, p, ws),
        }
    }
    fn len(&self) -> usize {
        match self {
            G::D2(g) => Topology::<i64>::len(g),
            G::D3(g) => Topology::<i64>::len(g),
        }
    }
    fn neighbors(&self, v: usize) -> Vec<(usize, i64)> {
        match self {
            G::D2(g) => Topology::<i64>::neighbors(g, v).collect(),
            G::D3(g) => Topology::<i64>::neighbors(g, v).collect(),
        }
    }
}

fn run_grid(ctx: &mut Ctx, op: &str, t: &mut Toks, dim: usize) {
    let parsed = (|| {
        let w: usize = t.one()?;
        let h: usize = t.one()?;
        let d: usize = if dim == 3 { t.one()? } else { 1 };
        let p: Vec<usize> = t.vec()?;
        let ws: Vec<i64> = t.vec()?;
        if !t.done() || w == 0 || h == 0 || d == 0 || w * h * d > 100_000 {
            return None;
        }
        Some((w, h, d, p, ws))
    })();
    let Some((w, h, d, p, ws)) = parsed else {
        ctx.record(op.to_string(), "bad-op".into(), false);
        return;
    };
    let g = if dim == 2 { G::D2(coupe::Grid::new_2d(nz(w), nz(h))) } else { G::D3(coupe::Grid::new_3d(nz(w), nz(h), nz(d))) };
    let n = w * h * d;
    let c = coords(w, h, d);
    let rows = lattice_rows(&c);
    // the CSR lattice, built from the definition through sprs' triplet format
    let mut tri = TriMat::new((n, n));
    for (i, r) in rows.iter().enumerate() {
        for &(j, wt) in r {
            tri.add_triplet(i, j, wt);
        }
    }
    let csr: coupe::sprs::CsMat<i64> = tri.to_csr();
    let view = csr.view();

    let (eg, s1) = in_pools(|| g.edge_cut(&p));
    let (lg, s2) = in_pools(|| g.lambda_cut(&p, ws.clone()));
    let (ce, s3) = in_pools(|| <View as Topology<i64>>::edge_cut(&view, &p));
    let (cl, s4) = in_pools(|| <View as Topology<i64>>::lambda_cut(&view, &p, ws.clone()));
    let (cge, s5) = in_pools(|| <&View as Topology<i64>>::edge_cut(&&view, &p));
    let (cgl, s6) = in_pools(|| <&View as Topology<i64>>::lambda_cut(&&view, &p, ws.clone()));
    let out = format!("eg={} lg={} ce={} cl={}", show(&eg), show(&lg), show(&ce), show(&cl));

    let mut v = Verdicts(vec![]);
    if !(s1 && s2 && s3 && s4 && s5 && s6) {
        v.add("pool-dependent", "the answer depends on the rayon pool size".into());
    }
    if g.len() != n {
        v.add("grid-len", format!("Grid len {} but {} cells", g.len(), n));
    }
    let reads_ok = p.len() >= n;
    if reads_ok {
        let dm = dense(&rows);
        let want_e = naive_edge_cut_sym(&dm, &p);
        let want_l = naive_lambda(&rows, &p, &ws);
        for (name, got, want) in [
            ("grid-edge-cut", &eg, want_e),
            ("grid-lambda-cut", &lg, want_l),
            ("lattice-sprs-edge-cut", &ce, want_e),
            ("lattice-sprs-lambda-cut", &cl, want_l),
            ("lattice-generic-edge-cut", &cge, want_e),
            ("lattice-generic-lambda-cut", &cgl, want_l),
        ] {
            if *got != Ok(want) {
                v.add(name, format!("{} but the definition gives {}", show(got), want));
            }
        }
    } else {
        ctx.count("grid:short_partition");
        if eg.is_ok() || ce.is_ok() {
            v.add("short-partition-accepted", "edge_cut answered on a short partition".into());
        }
    }
    ctx.count(&format!("grid{}d", dim));
    let parts: BTreeSet<usize> = p.iter().take(n).cloned().collect();
    ctx.count(&format!("grid:parts={}", parts.len().min(6)));
    let nontrivial = reads_ok && n >= 2 && parts.len() >= 2;
    let idx = ctx.record(op.to_string(), out, nontrivial);
    for (sig, what) in v.0 {
        ctx.fail(idx, sig, what);
    }
}

fn run_nbrs(ctx: &mut Ctx, op: &str, t: &mut Toks, dim: usize) {
    let parsed = (|| {
        let w: usize = t.one()?;
        let h: usize = t.one()?;
        let d: usize = if dim == 3 { t.one()? } else { 1 };
        if !t.done() || w == 0 || h == 0 || d == 0 || w * h * d > 100_000 {
            return None;
        }
        Some((w, h, d))
    })();
    let Some((w, h, d)) = parsed else {
        ctx.record(op.to_string(), "bad-op".into(), false);
        return;
    };
    let n = w * h * d;
    let c = coords(w, h, d);
    let g2 = coupe::Grid::new_2d(nz(w), nz(h));
    let g3 = coupe::Grid::new_3d(nz(w), nz(h), nz(d));
    let g = if dim == 2 { G::D2(g2) } else { G::D3(g3) };
    let mut v = Verdicts(vec![]);
    let res = guarded(|| {
        let nb: Vec<Vec<(usize, i64)>> = (0..n).map(|i| g.neighbors(i)).collect();
        let pos: Vec<(Vec<usize>, usize)> = (0..n)
            .map(|i| {
                if dim == 2 {
                    let q = coupe::verif::cartesian::position_of(g2, i);
                    (q.to_vec(), coupe::verif::cartesian::index_of(g2, q))
                } else {
                    let q = coupe::verif::cartesian::position_of(g3, i);
                    (q.to_vec(), coupe::verif::cartesian::index_of(g3, q))
                }
            })
            .collect();
        (nb, pos)
    });
    let out = match &res {
        Err(c) => c.clone(),
        Ok((nb, pos)) => {
            // oracle: neighbour *set* = cells at L1 distance 1, unit weights, no repetition;
            // positions = enumeration order; index_of inverts position_of and is a bijection
            for i in 0..n {
                let mut got: Vec<usize> = nb[i].iter().map(|e| e.0).collect();
                got.sort();
                let want: Vec<usize> = (0..n).filter(|&j| l1(&c[i], &c[j]) == 1).collect();
                if got != want {
                    v.add("grid-neighbours", format!("cell {}: neighbours {:?}, L1-distance-1 cells {:?}", i, got, want));
                    break;
                }
                if nb[i].iter().any(|e| e.1 != 1) {
                    v.add("grid-neighbours", format!("cell {}: an edge weight is not 1", i));
                    break;
                }
            }
            for i in 0..n {
                if pos[i].0[..] != c[i][..dim] || pos[i].1 != i {
                    v.add("grid-position-index", format!("cell {}: position_of {:?}, index_of of it {}", i, pos[i].0, pos[i].1));
                    break;
                }
            }
            // index_of over every in-range position (surjectivity is the loop above)
            for (i, q) in c.iter().enumerate() {
                let k = if dim == 2 {
                    coupe::verif::cartesian::index_of(g2, [q[0], q[1]])
                } else {
                    coupe::verif::cartesian::index_of(g3, *q)
                };
                if k != i {
                    v.add("grid-position-index", format!("index_of({:?}) = {} but the cell is number {}", q, k, i));
                    break;
                }
            }
            let nbs: Vec<String> = nb.iter().map(|r| r.iter().map(|e| e.0.to_string()).collect::<Vec<_>>().join(",")).collect();
            let ps: Vec<String> = pos
                .iter()
                .map(|(q, k)| format!("{}:{}", q.iter().map(|x| x.to_string()).collect::<Vec<_>>().join(","), k))
                .collect();
            format!("n={} nb={} pos={}", g.len(), nbs.join("|"), ps.join(" "))
        }
    };
    if res.is_err() {
        v.add("grid-panic", out.clone());
    }
    ctx.count(&format!("nbrs{}d", dim));
    let idx = ctx.record(op.to_string(), out, n >= 2);
    for (sig, what) in v.0 {
        ctx.fail(idx, sig, what);
    }
}

// ------------------------------------------------------------------ imbalance op

fn run_imb(ctx: &mut Ctx, op: &str, t: &mut Toks) {
    let parsed = (|| {
        let k: usize = t.one()?;
        let p: Vec<usize> = t.vec()?;
        let ws: Vec<i64> = t.vec()?;
        let ts: Vec<i64> = t.vec()?;
        if !t.done() || k > 100_000 {
            return None;
        }
        Some((k, p, ws, ts))
    })();
    let Some((k, p, ws, ts)) = parsed else {
        ctx.record(op.to_string(), "bad-op".into(), false);
        return;
    };
    let (loads, s1) = in_pools(|| coupe::imbalance::compute_parts_load(&p, k, ws.clone()));
    let (mx, s2) = in_pools(|| coupe::imbalance::max_imbalance(k, &p, ws.clone()));
    let (imb, s3) = in_pools(|| coupe::imbalance::imbalance(k, &p, ws.clone()).to_bits());
    let (tgt, s4) = in_pools(|| coupe::imbalance::imbalance_target(&ts, &p, ws.clone()));
    let out = format!(
        "loads={} max={} imb={} tgt={}",
        match &loads {
            Ok(l) => format!("[{}]", join(l)),
            Err(c) => c.clone(),
        },
        show(&mx),
        match &imb {
            Ok(b) => format!("{:x}", b),
            Err(c) => c.clone(),
        },
        show(&tgt)
    );
    let mut v = Verdicts(vec![]);
    if !(s1 && s2 && s3 && s4) {
        v.add("pool-dependent", "the answer depends on the rayon pool size".into());
    }
    // closed forms; defined when the inputs meet the documented contract
    let in_range = p.iter().all(|&x| x < k);
    let contract = in_range && p.len() == ws.len() && k > 0;
    let naive_loads = |kk: usize| -> Vec<i64> {
        (0..kk).map(|j| p.iter().zip(&ws).filter(|(&q, _)| q == j).map(|(_, w)| *w).sum()).collect()
    };
    if contract {
        ctx.count("imb:contract");
        let nl = naive_loads(k);
        if loads.as_ref() != Ok(&nl) {
            v.add("parts-load", format!("compute_parts_load {:?} but the definition gives {:?}", loads, nl));
        }
        let want_mx = nl.iter().max().unwrap() - nl.iter().min().unwrap();
        if mx != Ok(want_mx) {
            v.add("max-imbalance", format!("max_imbalance {} but max-min is {}", show(&mx), want_mx));
        }
        // imbalance = max_k (L_k - T/K) / (T/K) = max_k (K L_k - T) / T as an exact rational
        let total: i128 = nl.iter().map(|&x| x as i128).sum();
        match &imb {
            Ok(b) => {
                let got = f64::from_bits(*b);
                if total == 0 {
                    if got != 0.0 {
                        v.add("imbalance", format!("imbalance {} with zero total weight", got));
                    }
                } else {
                    // max over parts of the rational (K L - T)/T, compared by cross-multiplication
                    let mut best: Option<i128> = None; // numerator, denominator is `total`
                    for &l in &nl {
                        let num = k as i128 * l as i128 - total;
                        best = Some(match best {
                            None => num,
                            Some(b0) => {
                                // num/total > b0/total ?
                                let gt = if total > 0 { num > b0 } else { num < b0 };
                                if gt { num } else { b0 }
                            }
                        });
                    }
                    let exact = best.unwrap() as f64 / total as f64;
                    let lmax = nl.iter().map(|x| x.abs()).max().unwrap() as f64;
                    let tol = 1e-12 * (1.0 + (k as f64 * lmax / total as f64).abs());
                    if !((got - exact).abs() <= tol) {
                        v.add("imbalance", format!("imbalance {} but the closed form is {}", got, exact));
                    }
                }
            }
            Err(c) => v.add("imbalance", format!("imbalance {} inside the contract", c)),
        }
        if ts.len() == k {
            let want = nl.iter().zip(&ts).map(|(l, t)| l - t).max().unwrap();
            if tgt != Ok(want) {
                v.add("imbalance-target", format!("imbalance_target {} but max(load-target) is {}", show(&tgt), want));
            }
        }
    } else {
        ctx.count("imb:outside_contract");
        if k == 0 && p.len() == ws.len() {
            // documented special case: no parts, imbalance 0
            if imb != Ok(0f64.to_bits()) {
                v.add("imbalance", format!("imbalance {} with zero parts", show(&imb.map(|b| f64::from_bits(b)))));
            }
        }
    }
    let nontrivial = contract && k >= 2 && p.len() >= 2;
    let idx = ctx.record(op.to_string(), out, nontrivial);
    for (sig, what) in v.0 {
        ctx.fail(idx, sig, what);
    }
}

pub fn run_op(ctx: &mut Ctx, op: &str) {
    if ctx.hang_limit_reached() {
        return;
    }
    let mut t = Toks(op.split_whitespace());
    match t.0.next() {
        Some("csr") => run_csr(ctx, op, &mut t),
        Some("grid2") => run_grid(ctx, op, &mut t, 2),
        Some("grid3") => run_grid(ctx, op, &mut t, 3),
        Some("nbrs2") => run_nbrs(ctx, op, &mut t, 2),
        Some("nbrs3") => run_nbrs(ctx, op, &mut t, 3),
        Some("imb") => run_imb(ctx, op, &mut t),
        _ => {
            ctx.record(op.to_string(), "bad-op".into(), false);
        }
    }
}

// ------------------------------------------------------------------ generator

fn csr_op(rows: &[Vec<(usize, i64)>], offset: usize, p: &[usize], ws: &[i64]) -> String {
    let mut indptr = vec![offset];
    let mut indices = vec![];
    let mut data = vec![];
    for r in rows {
        for &(u, w) in r {
            indices.push(u);
            data.push(w);
        }
        indptr.push(offset + indices.len());
    }
    format!("csr {} {} {} {} {}", fmt_vec(&indptr), fmt_vec(&indices), fmt_vec(&data), fmt_vec(p), fmt_vec(ws))
}

/// Part ids are arbitrary `usize` values for the cut functions: ids that collide when truncated
/// (to 8, 16, 32 bits), the extremes, and small ids mixed with them.
fn wide_partition(ctx: &mut Ctx, n: usize) -> Vec<usize> {
    const IDS: [usize; 12] = [
        0,
        1,
        255,
        256,
        65_536,
        1 << 32,
        (1 << 32) + 1,
        1 << 33,
        1 << 63,
        (1 << 63) + 1,
        usize::MAX - 1,
        usize::MAX,
    ];
    let k = 2 + ctx.rng.usize(4);
    let pick: Vec<usize> = (0..k).map(|_| IDS[ctx.rng.usize(IDS.len())]).collect();
    (0..n).map(|_| pick[ctx.rng.usize(k)]).collect()
}

fn rand_partition(ctx: &mut Ctx, n: usize) -> Vec<usize> {
    let k = 1 + ctx.rng.usize(5);
    match ctx.rng.usize(6) {
        0 => vec![ctx.rng.usize(k); n],                                // one part
        1 => (0..n).map(|i| i * k / n.max(1)).collect(),               // contiguous blocks
        2 => (0..n).map(|i| i % k).collect(),                          // stripes
        3 => (0..n).map(|_| ctx.rng.usize(k) * 1000 + 7).collect(),    // sparse part ids
        _ => (0..n).map(|_| ctx.rng.usize(k)).collect(),
    }
}

fn rand_weights(ctx: &mut Ctx, n: usize) -> Vec<i64> {
    match ctx.rng.usize(5) {
        0 => vec![1; n],
        1 => (0..n).map(|_| ctx.rng.range(0, 3)).collect(),
        2 => (0..n).map(|_| ctx.rng.range(-5, 20)).collect(),
        3 => (0..n).map(|_| ctx.rng.range(0, 1_000_000_000)).collect(),
        _ => (0..n).map(|_| ctx.rng.range(1, 100)).collect(),
    }
}

fn gen_csr(ctx: &mut Ctx) {
    let n = match ctx.rng.usize(10) {
        0 => ctx.rng.usize(3),
        1..=6 => 2 + ctx.rng.usize(10),
        _ => 8 + ctx.rng.usize(if ctx.quick() { 30 } else { 60 }),
    };
    let shape = ctx.rng.usize(8);
    let density = 1 + ctx.rng.usize(6); // expected entries per row
    let mut rows: Vec<Vec<(usize, i64)>> = vec![vec![]; n];
    let wmode = ctx.rng.usize(4);
    let weight = |ctx: &mut Ctx| match wmode {
        0 => 1,
        1 => ctx.rng.range(1, 9),
        2 => ctx.rng.range(-9, 9), // negative and explicit-zero entries
        _ => ctx.rng.range(1, 1_000_000_000),
    };
    let has = |r: &Vec<(usize, i64)>, u: usize| r.iter().any(|e| e.0 == u);
    let name = match shape {
        0..=2 => {
            // symmetric, maybe with a diagonal
            for _ in 0..n * density / 2 {
                let (a, b) = (ctx.rng.usize(n), ctx.rng.usize(n));
                if a == b && ctx.rng.chance(1, 2) {
                    continue;
                }
                if !has(&rows[a], b) {
                    let w = weight(ctx);
                    rows[a].push((b, w));
                    if a != b {
                        rows[b].push((a, w));
                    }
                }
            }
            "symmetric"
        }
        3 => {
            // same pattern both ways, different weights
            for _ in 0..n * density / 2 {
                let (a, b) = (ctx.rng.usize(n), ctx.rng.usize(n));
                if a != b && !has(&rows[a], b) {
                    rows[a].push((b, weight(ctx)));
                    rows[b].push((a, weight(ctx)));
                }
            }
            "asym_weights"
        }
        4 => {
            for _ in 0..n * density {
                let (a, b) = (ctx.rng.usize(n), ctx.rng.usize(n));
                if !has(&rows[a], b) {
                    rows[a].push((b, weight(ctx)));
                }
            }
            "asym_pattern"
        }
        5 => {
            // only above / only below the diagonal
            let upper = ctx.rng.chance(1, 2);
            for _ in 0..n * density {
                let (a, b) = (ctx.rng.usize(n), ctx.rng.usize(n));
                if a != b {
                    let (lo, hi) = (a.min(b), a.max(b));
                    let (r, c) = if upper { (lo, hi) } else { (hi, lo) };
                    if !has(&rows[r], c) {
                        rows[r].push((c, weight(ctx)));
                    }
                }
            }
            "triangular"
        }
        6 => {
            // few vertices carry everything: many empty rows / isolated vertices
            let hubs = 1 + ctx.rng.usize(2);
            for _ in 0..n * density / 2 {
                let (a, b) = (ctx.rng.usize(hubs.min(n.max(1))), ctx.rng.usize(n));
                if a != b && !has(&rows[a], b) {
                    let w = weight(ctx);
                    rows[a].push((b, w));
                    rows[b].push((a, w));
                }
            }
            "hubs_isolated"
        }
        _ => {
            // path / ring
            for i in 1..n {
                let w = weight(ctx);
                rows[i].push((i - 1, w));
                rows[i - 1].push((i, w));
            }
            "path"
        }
    };
    if n == 0 && shape != 0 {
        // keep the empty graph rare
    }
    for r in rows.iter_mut() {
        r.sort();
    }
    ctx.count(&format!("csr_shape:{}", name));
    let p = if ctx.rng.chance(1, 6) {
        ctx.count("csr_partition:wide-ids");
        wide_partition(ctx, n)
    } else {
        rand_partition(ctx, n)
    };
    let ws = rand_weights(ctx, n);
    // streams
    let stream = ctx.rng.usize(20);
    match stream {
        0 | 1 => {
            // separate stream: rows not sorted (precondition of the specialisation broken)
            for r in rows.iter_mut() {
                ctx.rng.shuffle(r);
            }
            if ctx.rng.chance(1, 3) && n > 0 {
                // a repeated entry
                let a = ctx.rng.usize(n);
                if let Some(&e) = rows[a].first() {
                    rows[a].push(e);
                }
            }
            ctx.count("csr_stream:unsorted");
            let op = csr_op(&rows, 0, &p, &ws);
            run_op(ctx, &op);
        }
        2 => {
            // a valid view whose indptr does not start at 0 (what `slice_outer` produces)
            ctx.count("csr_stream:offset_indptr");
            let off = 1 + ctx.rng.usize(5);
            let op = csr_op(&rows, off, &p, &ws);
            run_op(ctx, &op);
        }
        3 => {
            // malformed: partition too short, or weights of another length
            ctx.count("csr_stream:malformed");
            let mut p2 = p.clone();
            let mut ws2 = ws.clone();
            match ctx.rng.usize(3) {
                0 => {
                    p2.truncate(ctx.rng.usize(n.max(1)));
                }
                1 => {
                    ws2.truncate(ctx.rng.usize(n.max(1)));
                }
                _ => {
                    ws2.extend([3, 4, 5]);
                    p2.extend([0, 1]);
                }
            }
            let op = csr_op(&rows, 0, &p2, &ws2);
            run_op(ctx, &op);
        }
        _ => {
            ctx.count("csr_stream:valid");
            let op = csr_op(&rows, 0, &p, &ws);
            run_op(ctx, &op);
        }
    }
}

fn grid_op(w: usize, h: usize, d: Option<usize>, p: &[usize], ws: &[i64]) -> String {
    match d {
        None => format!("grid2 {} {} {} {}", w, h, fmt_vec(p), fmt_vec(ws)),
        Some(d) => format!("grid3 {} {} {} {} {}", w, h, d, fmt_vec(p), fmt_vec(ws)),
    }
}

fn gen_grid(ctx: &mut Ctx) {
    let three = ctx.rng.chance(2, 5);
    let (w, h, d) = if three {
        let m = if ctx.quick() { 5 } else { 6 };
        (1 + ctx.rng.usize(m), 1 + ctx.rng.usize(m), Some(1 + ctx.rng.usize(m)))
    } else {
        (1 + ctx.rng.usize(12), 1 + ctx.rng.usize(12), None)
    };
    let n = w * h * d.unwrap_or(1);
    let mut p = if ctx.rng.chance(1, 8) {
        ctx.count("grid_partition:wide-ids");
        wide_partition(ctx, n)
    } else {
        rand_partition(ctx, n)
    };
    let mut ws = rand_weights(ctx, n);
    if ctx.rng.chance(1, 25) {
        ctx.count("grid_stream:malformed");
        match ctx.rng.usize(3) {
            0 => p.truncate(ctx.rng.usize(n)),
            1 => ws.truncate(ctx.rng.usize(n)),
            _ => {
                ws.push(9);
                p.push(1)
            }
        }
    }
    let op = grid_op(w, h, d, &p, &ws);
    run_op(ctx, &op);
}

fn gen_imb(ctx: &mut Ctx) {
    let n = match ctx.rng.usize(6) {
        0 => ctx.rng.usize(3),
        _ => 1 + ctx.rng.usize(24),
    };
    let k = match ctx.rng.usize(8) {
        0 => 1,
        1 => 1 + ctx.rng.usize(12), // possibly more parts than elements: empty parts
        _ => 1 + ctx.rng.usize(5),
    };
    let mut p: Vec<usize> = match ctx.rng.usize(4) {
        0 => vec![ctx.rng.usize(k); n],
        1 => (0..n).map(|i| i % k).collect(),
        _ => (0..n).map(|_| ctx.rng.usize(k)).collect(),
    };
    let mut ws: Vec<i64> = match ctx.rng.usize(7) {
        0 => vec![0; n],
        1 => vec![1; n],
        2 => (0..n).map(|_| ctx.rng.range(-10, 10)).collect(), // totals of either sign, or zero
        3 => (0..n).map(|_| ctx.rng.range(0, 1_000_000_000_000)).collect(),
        4 => {
            let mut v: Vec<i64> = (0..n).map(|_| ctx.rng.range(0, 5)).collect();
            if n > 0 {
                let i = ctx.rng.usize(n);
                v[i] = 100_000;
            }
            v
        }
        _ => (0..n).map(|_| ctx.rng.range(0, 100)).collect(),
    };
    let mut ts: Vec<i64> = (0..k).map(|_| ctx.rng.range(0, 200)).collect();
    let mut k2 = k;
    match ctx.rng.usize(30) {
        0 => {
            ctx.count("imb_stream:zero_parts");
            k2 = 0;
            ts.clear();
            if ctx.rng.chance(1, 2) {
                p.clear();
                ws.clear();
            }
        }
        1 => {
            ctx.count("imb_stream:part_out_of_range");
            if n > 0 {
                let i = ctx.rng.usize(n);
                p[i] = k + ctx.rng.usize(3);
            }
        }
        2 => {
            ctx.count("imb_stream:len_mismatch");
            if ctx.rng.chance(1, 2) {
                ws.push(5);
            } else {
                p.push(0);
            }
        }
        3 => {
            ctx.count("imb_stream:targets_len");
            ts.pop();
        }
        _ => ctx.count("imb_stream:valid"),
    }
    let op = format!("imb {} {} {} {}", k2, fmt_vec(&p), fmt_vec(&ws), fmt_vec(&ts));
    run_op(ctx, &op);
}

/// every 2-colouring of a grid
fn exhaustive_grid(ctx: &mut Ctx, w: usize, h: usize, d: Option<usize>) -> u64 {
    let n = w * h * d.unwrap_or(1);
    let ws: Vec<i64> = (0..n as i64).map(|i| 1 + (i * 7) % 5).collect();
    let mut count = 0;
    for mask in 0u32..(1u32 << n) {
        // colourings are counted up to the swap of the two colours: cell 0 has colour 0
        if mask & 1 == 1 {
            continue;
        }
        let p: Vec<usize> = (0..n).map(|i| (mask >> i & 1) as usize).collect();
        let op = grid_op(w, h, d, &p, &ws);
        run_op(ctx, &op);
        count += 1;
    }
    count
}

pub fn generate(ctx: &mut Ctx) {
    // 1. neighbour lists, positions and indices of every small grid
    let (m2, m3) = if ctx.quick() { (12, 5) } else { (16, 7) };
    for w in 1..=m2 {
        for h in 1..=m2 {
            run_op(ctx, &format!("nbrs2 {} {}", w, h));
        }
    }
    for w in 1..=m3 {
        for h in 1..=m3 {
            for d in 1..=m3 {
                run_op(ctx, &format!("nbrs3 {} {} {}", w, h, d));
            }
        }
    }
    ctx.notes.push(format!("exhaustive: neighbour lists / position_of / index_of of all 2-D grids up to {0}x{0} and all 3-D grids up to {1}x{1}x{1}", m2, m3));
    // 2. every 2-colouring (up to colour swap) of every grid with at most `cells` cells
    let cells = if ctx.quick() { 9 } else { 12 };
    let mut total = 0;
    for w in 1..=cells {
        for h in 1..=cells {
            if w * h <= cells {
                total += exhaustive_grid(ctx, w, h, None);
            }
            for d in 2..=cells {
                // d = 1 is covered by the random stream; keep the 3-D sweep to real 3-D grids
                if w * h * d <= cells && w >= 1 && h >= 1 {
                    total += exhaustive_grid(ctx, w, h, Some(d));
                }
            }
        }
    }
    ctx.notes.push(format!("exhaustive: all 2-colourings (cell 0 fixed) of all 2-D and 3-D (depth >= 2) grids with <= {} cells: {} cases", cells, total));
    // 3. random streams
    for _ in 0..ctx.budget(2500, 60000) {
        gen_csr(ctx);
    }
    for _ in 0..ctx.budget(500, 8000) {
        gen_grid(ctx);
    }
    for _ in 0..ctx.budget(1500, 30000) {
        gen_imb(ctx);
    }
}
