//! C16 — edge cut, lambda cut and imbalance agree with their definitions.
//!
//! ops (vectors are `<len> <x…>`):
//! * `csr <indptr> <indices> <data> <partition> <weights>`   raw CSR storage of a square view
//!     out: `eg=<generic edge cut> es=<sprs edge cut> lg=<generic lambda> ls=<sprs lambda>`
//! * `csc <indptr> <indices> <data> <partition> <weights>`   the same raw arrays under a view whose storage
//!     flag is CSC (vertex = outer dimension = column; the neighbours of a vertex are its outer slice in both
//!     storages, so the definition on the outer slices and the model are those of `csr`); out as `csr`
//! * `grid2 <w> <h> <partition> <weights>` / `grid3 <w> <h> <d> <partition> <weights>`
//!     out: `eg=<Grid edge cut> lg=<Grid lambda> ce=<lattice CSR, sprs edge cut> cl=<lattice CSR, sprs lambda>`
//! * `nbrs2 <w> <h>` / `nbrs3 <w> <h> <d>`
//!     out: `n=<len> nb=<neighbour lists in iterator order> pos=<position_of(i):index_of(position_of(i))…>`
//! * `imb <k> <partition> <weights> <targets>`
//!     out: `loads=[…] max=<max_imbalance> imb=<imbalance f64 bits> tgt=<imbalance_target>`
//! * `lcsr …`, `lgrid2 …`, `lgrid3 …`, `limb …`: LARGE / CORNER stream, inputs described by a few
//!     parameters (see the section below); outputs as `csr`, `grid2`, `imb`; pools 1, 2, 3, 16.
//! A value is replaced by `panic(index|slice|assert)` when the call panics.
//!
//! Every topology call is made in rayon pools of 1, 4 and 16 threads; the three answers
//! must be identical (oracle) and one is recorded.

use crate::common::*;
use coupe::sprs::{CompressedStorage, CsMatView, TriMat};
use coupe::num_traits::{FromPrimitive, One, ToPrimitive, Zero};
use coupe::rayon::prelude::*;
use coupe::Topology;
use std::collections::BTreeSet;
use std::num::NonZeroUsize;
use std::sync::OnceLock;

type View<'a> = CsMatView<'a, i64>;

const POOLS: [usize; 3] = [1, 4, 16];

fn pools() -> &'static Vec<coupe::rayon::ThreadPool> {
    static P: OnceLock<Vec<coupe::rayon::ThreadPool>> = OnceLock::new();
    P.get_or_init(|| {
        POOLS
            .iter()
            .map(|&t| coupe::rayon::ThreadPoolBuilder::new().num_threads(t).build().expect("pool"))
            .collect()
    })
}

/// `Ok(value)` or `Err(panic class)`.
type Res<T> = Result<T, String>;

fn class(m: &str) -> String {
    let c = if m.contains("out of range for slice") || m.contains("slice index starts at") {
        "slice"
    } else if m.contains("index out of bounds") {
        "index"
    } else if m.contains("assertion") {
        "assert"
    } else {
        return format!("panic(other:{})", m);
    };
    format!("panic({})", c)
}

fn guarded<T>(f: impl FnOnce() -> T) -> Res<T> {
    match catch(f) {
        Caught::Ok(v) => Ok(v),
        Caught::Panic(m) => Err(class(&m)),
        Caught::Hang => Err("hang".into()),
    }
}

/// Pools of the LARGE stream: 1, 2, 3 and 16 threads.
const LPOOLS: [usize; 4] = [1, 2, 3, 16];

fn lpools() -> &'static Vec<coupe::rayon::ThreadPool> {
    static P: OnceLock<Vec<coupe::rayon::ThreadPool>> = OnceLock::new();
    P.get_or_init(|| {
        LPOOLS
            .iter()
            .map(|&t| coupe::rayon::ThreadPoolBuilder::new().num_threads(t).build().expect("pool"))
            .collect()
    })
}

/// Run `f` in every pool; `false` in `.1` if the pools disagree.
fn in_pools<T: PartialEq + Clone + Send>(f: impl Fn() -> T + Sync + Send) -> (Res<T>, bool) {
    in_pool_set(pools(), f)
}

fn in_pool_set<T: PartialEq + Clone + Send>(
    set: &[coupe::rayon::ThreadPool],
    f: impl Fn() -> T + Sync + Send,
) -> (Res<T>, bool) {
    let mut first: Option<Res<T>> = None;
    let mut same = true;
    for pool in set {
        let r = guarded(|| pool.install(&f));
        match &first {
            None => first = Some(r),
            Some(x) => {
                if *x != r {
                    same = false;
                }
            }
        }
    }
    (first.unwrap(), same)
}

fn show<T: std::fmt::Display>(r: &Res<T>) -> String {
    match r {
        Ok(v) => v.to_string(),
        Err(c) => c.clone(),
    }
}

// ------------------------------------------------------------------ parsing

struct Toks<'a>(std::str::SplitWhitespace<'a>);

impl<'a> Toks<'a> {
    fn one<T: std::str::FromStr>(&mut self) -> Option<T> {
        self.0.next()?.parse().ok()
    }
    fn vec<T: std::str::FromStr>(&mut self) -> Option<Vec<T>> {
        let n: usize = self.one()?;
        if n > 1_000_000 {
            return None;
        }
        let mut v = Vec::with_capacity(n);
        for _ in 0..n {
            v.push(self.one()?);
        }
        Some(v)
    }
    fn done(&mut self) -> bool {
        self.0.next().is_none()
    }
}

fn fmt_vec<T: std::fmt::Display>(v: &[T]) -> String {
    if v.is_empty() {
        "0".to_string()
    } else {
        format!("{} {}", v.len(), join(v))
    }
}

// ------------------------------------------------------------------ naive definitions (oracle)

/// Rows `(neighbour, weight)` of vertex `v` read from the raw arrays the way sprs documents them
/// (the offset of a sliced view is the first `indptr` entry).
fn rows_of(indptr: &[usize], indices: &[usize], data: &[i64]) -> Vec<Vec<(usize, i64)>> {
    let off = indptr[0];
    (0..indptr.len() - 1)
        .map(|v| (indptr[v] - off..indptr[v + 1] - off).map(|k| (indices[k], data[k])).collect())
        .collect()
}

fn dense(rows: &[Vec<(usize, i64)>]) -> Vec<Vec<i64>> {
    let n = rows.len();
    let mut d = vec![vec![0i64; n]; n];
    for (v, r) in rows.iter().enumerate() {
        for &(u, w) in r {
            d[v][u] += w;
        }
    }
    d
}

/// Definition: every unordered pair {i, j} in different parts contributes the weight of its edge,
/// read below the diagonal (`d[i][j]`, `j < i`). For a symmetric matrix this is the textbook
/// edge cut; for an asymmetric one it is what all three code paths document by construction.
fn naive_edge_cut(d: &[Vec<i64>], p: &[usize]) -> i64 {
    let mut s = 0;
    for i in 0..d.len() {
        for j in 0..i {
            if p[i] != p[j] {
                s += d[i][j];
            }
        }
    }
    s
}

/// Symmetric matrices only: half the sum over ordered pairs.
fn naive_edge_cut_sym(d: &[Vec<i64>], p: &[usize]) -> i64 {
    let mut s = 0;
    for i in 0..d.len() {
        for j in 0..d.len() {
            if p[i] != p[j] {
                s += d[i][j];
            }
        }
    }
    s / 2
}

/// Σ_v w(v) · (number of distinct parts in the closed neighbourhood − 1); the neighbourhood is
/// the set of stored entries of the row (explicit zeros count, as in the code).
fn naive_lambda(rows: &[Vec<(usize, i64)>], p: &[usize], ws: &[i64]) -> i64 {
    let mut s = 0;
    for v in 0..rows.len().min(ws.len()) {
        let mut parts = BTreeSet::new();
        parts.insert(p[v]);
        for &(u, _) in &rows[v] {
            parts.insert(p[u]);
        }
        s += ws[v] * (parts.len() as i64 - 1);
    }
    s
}

// ------------------------------------------------------------------ csr op

struct Verdicts(Vec<(&'static str, String)>);

impl Verdicts {
    fn add(&mut self, sig: &'static str, what: String) {
        self.0.push((sig, what));
    }
}

/// The four topology calls (generic edge cut, sprs edge cut, generic lambda, sprs lambda) on one
/// view in the 4-thread pool.
fn four_calls(view: &View, p: &[usize], ws: &[i64]) -> [Res<i64>; 4] {
    let pool = &pools()[1];
    [
        guarded(|| pool.install(|| <&View as Topology<i64>>::edge_cut(&view, p))),
        guarded(|| pool.install(|| <View as Topology<i64>>::edge_cut(view, p))),
        guarded(|| pool.install(|| <&View as Topology<i64>>::lambda_cut(&view, p, ws.to_vec()))),
        guarded(|| pool.install(|| <View as Topology<i64>>::lambda_cut(view, p, ws.to_vec()))),
    ]
}

/// STORAGE-ORDER oracle of a valid view (sorted rows, partition long enough). The code never looks
/// at the storage flag: a vertex is an outer slice. Hence
/// * the same arrays under the other flag (`transpose_view`) must give the same four values;
/// * the same MATRIX in the other storage (`to_other_storage`: its outer slices are the rows of
///   the transpose) must give, through both paths, the definition evaluated on the transpose --
///   which for a symmetric matrix is the same number as for the original.
#[allow(clippy::too_many_arguments)]
fn cross_storage(
    ctx: &mut Ctx,
    v: &mut Verdicts,
    view: &View,
    rows: &[Vec<(usize, i64)>],
    d: &[Vec<i64>],
    symmetric: bool,
    offset: bool,
    p: &[usize],
    ws: &[i64],
    want_e: i64,
    want_l: i64,
) {
    const NAMES: [&str; 4] = ["generic edge_cut", "sprs edge_cut", "generic lambda_cut", "sprs lambda_cut"];
    let n = rows.len();
    // (a) same arrays, other storage flag
    let flipped = view.transpose_view();
    let got = four_calls(&flipped, p, ws);
    let want = [want_e, want_e, want_l, want_l];
    for k in 0..4 {
        if got[k] != Ok(want[k]) {
            if offset && got[k].is_err() {
                v.add("sprs-offset-indptr-panic", format!("{} {} on the flipped view", NAMES[k], show(&got[k])));
            } else {
                v.add(
                    "storage-flag-dependent",
                    format!(
                        "{} gives {} when the same arrays are viewed as {:?}, but {} (the definition on the outer slices) as {:?}",
                        NAMES[k], show(&got[k]), flipped.storage(), want[k], view.storage()
                    ),
                );
            }
        }
    }
    ctx.count("csr:cross-storage:flag-flipped");
    // (b) same matrix, other storage (skipped for views with a non-zero first offset: the
    // conversion is sprs code, keep the judged surface to coupe)
    if offset {
        return;
    }
    let mut rows_t: Vec<Vec<(usize, i64)>> = vec![vec![]; n];
    for (r, row) in rows.iter().enumerate() {
        for &(c, w) in row {
            rows_t[c].push((r, w));
        }
    }
    let d_t: Vec<Vec<i64>> = (0..n).map(|i| (0..n).map(|j| d[j][i]).collect()).collect();
    let want_te = naive_edge_cut(&d_t, p);
    let want_tl = naive_lambda(&rows_t, p, ws);
    // `symmetric` is about the VALUES (an explicit zero without a mirror entry keeps it true): the
    // edge cut of the transpose is then the same number; lambda looks at the stored PATTERN
    let pattern_symmetric = (0..n).all(|i| rows[i].iter().map(|e| e.0).eq(rows_t[i].iter().map(|e| e.0)));
    if (symmetric && want_te != want_e) || (pattern_symmetric && want_tl != want_l) {
        v.add("oracle-self-check", "the definition differs between a symmetric matrix and its transpose".into());
    }
    let other = view.to_other_storage();
    let ov: View = other.view();
    let converted_ok = ov.check_compressed_structure().is_ok()
        && (0..n).all(|i| {
            let o = ov.outer_view(i).unwrap();
            o.indices().iter().cloned().zip(o.data().iter().cloned()).eq(rows_t[i].iter().cloned())
        });
    if !converted_ok {
        // not coupe's business
        ctx.count("csr:cross-storage:conversion-unexpected");
        return;
    }
    let got = four_calls(&ov, p, ws);
    let want = [want_te, want_te, want_tl, want_tl];
    const SIGS: [&str; 4] = [
        "other-storage-generic-edge-cut",
        "other-storage-sprs-edge-cut",
        "other-storage-generic-lambda-cut",
        "other-storage-sprs-lambda-cut",
    ];
    for k in 0..4 {
        if got[k] != Ok(want[k]) {
            v.add(
                SIGS[k],
                format!(
                    "{} gives {} on the same matrix stored as {:?} ({}), but the definition on its outer slices gives {}",
                    NAMES[k], show(&got[k]), ov.storage(), if symmetric { "symmetric" } else { "non-symmetric" }, want[k]
                ),
            );
        }
    }
    ctx.count(if symmetric { "csr:cross-storage:converted:symmetric" } else { "csr:cross-storage:converted:non-symmetric" });
}

fn run_csr(ctx: &mut Ctx, op: &str, t: &mut Toks, csc: bool) {
    let parsed = (|| {
        let indptr: Vec<usize> = t.vec()?;
        let indices: Vec<usize> = t.vec()?;
        let data: Vec<i64> = t.vec()?;
        let p: Vec<usize> = t.vec()?;
        let ws: Vec<i64> = t.vec()?;
        if !t.done() {
            return None;
        }
        Some((indptr, indices, data, p, ws))
    })();
    let Some((indptr, indices, data, p, ws)) = parsed else {
        ctx.record(op.to_string(), "bad-op".into(), false);
        return;
    };
    // shape check (everything sprs checks except the order inside a row)
    let shaped = !indptr.is_empty()
        && indptr.windows(2).all(|w| w[0] <= w[1])
        && indptr[indptr.len() - 1] - indptr[0] == indices.len()
        && indices.len() == data.len()
        && indices.iter().all(|&u| u < indptr.len() - 1);
    if !shaped {
        ctx.record(op.to_string(), "bad-op".into(), false);
        return;
    }
    let n = indptr.len() - 1;
    let storage = if csc { CompressedStorage::CSC } else { CompressedStorage::CSR };
    let built = if csc {
        CsMatView::try_new_csc((n, n), &indptr[..], &indices[..], &data[..])
    } else {
        CsMatView::try_new((n, n), &indptr[..], &indices[..], &data[..])
    };
    if csc {
        ctx.count("csr:storage=csc");
    }
    let view: View = match built {
        Ok(v) => {
            ctx.count("csr:valid");
            v
        }
        Err(_) => {
            ctx.count("csr:unsorted_rows(new_unchecked)");
            // SAFETY: sizes and index ranges were checked above; only the order inside the rows
            // is not what sprs requires, and every access made by coupe and by `outer_view` is a
            // checked slice access.
            unsafe { CsMatView::new_unchecked(storage, (n, n), &indptr[..], &indices[..], &data[..]) }
        }
    };
    let valid = view.check_compressed_structure().is_ok();
    let offset = indptr[0] != 0;
    let (eg, s1) = in_pools(|| <&View as Topology<i64>>::edge_cut(&&view, &p));
    let (es, s2) = in_pools(|| <View as Topology<i64>>::edge_cut(&view, &p));
    let (lg, s3) = in_pools(|| <&View as Topology<i64>>::lambda_cut(&&view, &p, ws.clone()));
    let (ls, s4) = in_pools(|| <View as Topology<i64>>::lambda_cut(&view, &p, ws.clone()));
    let out = format!("eg={} es={} lg={} ls={}", show(&eg), show(&es), show(&lg), show(&ls));

    // oracle
    let mut v = Verdicts(vec![]);
    if !(s1 && s2 && s3 && s4) {
        v.add("pool-dependent", "the answer depends on the rayon pool size".into());
    }
    let rows = rows_of(&indptr, &indices, &data);
    let d = dense(&rows);
    let symmetric = (0..n).all(|i| (0..n).all(|j| d[i][j] == d[j][i]));
    let reads_ok = p.len() >= n;
    if reads_ok {
        let want_e = naive_edge_cut(&d, &p);
        let want_l = naive_lambda(&rows, &p, &ws);
        if symmetric && naive_edge_cut_sym(&d, &p) != want_e {
            v.add("oracle-self-check", "two forms of the definition differ".into());
        }
        if eg != Ok(want_e) {
            v.add("generic-edge-cut", format!("generic edge_cut {} but the definition gives {}", show(&eg), want_e));
        }
        if lg != Ok(want_l) {
            v.add("generic-lambda-cut", format!("generic lambda_cut {} but the definition gives {}", show(&lg), want_l));
        }
        if valid {
            if es != Ok(want_e) {
                let sig = if offset && es.is_err() { "sprs-offset-indptr-panic" } else { "sprs-edge-cut" };
                v.add(sig, format!("sprs edge_cut {} but the definition (and the generic method) give {}", show(&es), want_e));
            }
            if ls != Ok(want_l) {
                let sig = if offset && ls.is_err() { "sprs-offset-indptr-panic" } else { "sprs-lambda-cut" };
                v.add(sig, format!("sprs lambda_cut {} but the definition (and the generic method) give {}", show(&ls), want_l));
            }
            cross_storage(ctx, &mut v, &view, &rows, &d, symmetric, offset, &p, &ws, want_e, want_l);
        } else {
            // precondition of the specialisation (sorted rows) not met: only counted
            if es != Ok(want_e) {
                ctx.count("csr:unsorted:sprs_edge_cut_differs");
            } else {
                ctx.count("csr:unsorted:sprs_edge_cut_agrees");
            }
            if ls != Ok(want_l) {
                v.add("sprs-lambda-cut", format!("sprs lambda_cut {} on unsorted rows, definition {}", show(&ls), want_l));
            }
        }
    } else {
        // malformed: partition shorter than the matrix; every path must refuse (panic), none may
        // return a number
        ctx.count("csr:short_partition");
        if n > 0 && (eg.is_ok() || es.is_ok()) {
            v.add("short-partition-accepted", format!("edge_cut answered {} / {} on a short partition", show(&eg), show(&es)));
        }
    }
    ctx.count(if symmetric { "csr:symmetric" } else { "csr:asymmetric" });
    if offset {
        ctx.count("csr:offset_indptr");
    }
    if rows.iter().any(|r| r.is_empty()) {
        ctx.count("csr:has_empty_row");
    }
    if ws.len() != n {
        ctx.count("csr:weights_len_differs");
    }
    let nontrivial = reads_ok && n >= 2 && !indices.is_empty() && p.iter().take(n).any(|&x| x != p[0]);
    let idx = ctx.record(op.to_string(), out, nontrivial);
    for (sig, what) in v.0 {
        ctx.fail(idx, sig, what);
    }
}

// ------------------------------------------------------------------ grid ops

fn nz(x: usize) -> NonZeroUsize {
    NonZeroUsize::new(x).unwrap()
}

/// Coordinates of cell `i`, by enumeration (x fastest, then y, then z).
fn coords(w: usize, h: usize, d: usize) -> Vec<[usize; 3]> {
    let mut c = Vec::with_capacity(w * h * d);
    for z in 0..d {
        for y in 0..h {
            for x in 0..w {
                c.push([x, y, z]);
            }
        }
    }
    c
}

fn l1(a: &[usize; 3], b: &[usize; 3]) -> usize {
    (0..3).map(|k| a[k].abs_diff(b[k])).sum()
}

/// The lattice as rows of neighbours at L1 distance 1, increasing (O(n²)).
fn lattice_rows(c: &[[usize; 3]]) -> Vec<Vec<(usize, i64)>> {
    (0..c.len())
        .map(|i| (0..c.len()).filter(|&j| l1(&c[i], &c[j]) == 1).map(|j| (j, 1i64)).collect())
        .collect()
}

enum G {
    D2(coupe::Grid<2>),
    D3(coupe::Grid<3>),
}

impl G {
    fn edge_cut(&self, p: &[usize]) -> i64 {
        match self {
            G::D2(g) => Topology::<i64>::edge_cut(g, p),
            G::D3(g) => Topology::<i64>::edge_cut(g, p),
        }
    }
    fn lambda_cut(&self, p: &[usize], ws: Vec<i64>) -> i64 {
        match self {
            G::D2(g) => Topology::<i64>::lambda_cut(g, p, ws),
            G::D3(g) => Topology::<i64>::lambda_cut(g, p, ws),
        }
    }
    fn len(&self) -> usize {
        match self {
            G::D2(g) => Topology::<i64>::len(g),
            G::D3(g) => Topology::<i64>::len(g),
        }
    }
    fn neighbors(&self, v: usize) -> Vec<(usize, i64)> {
        match self {
            G::D2(g) => Topology::<i64>::neighbors(g, v).collect(),
            G::D3(g) => Topology::<i64>::neighbors(g, v).collect(),
        }
    }
}

fn run_grid(ctx: &mut Ctx, op: &str, t: &mut Toks, dim: usize) {
    let parsed = (|| {
        let w: usize = t.one()?;
        let h: usize = t.one()?;
        let d: usize = if dim == 3 { t.one()? } else { 1 };
        let p: Vec<usize> = t.vec()?;
        let ws: Vec<i64> = t.vec()?;
        if !t.done() || w == 0 || h == 0 || d == 0 || w * h * d > 100_000 {
            return None;
        }
        Some((w, h, d, p, ws))
    })();
    let Some((w, h, d, p, ws)) = parsed else {
        ctx.record(op.to_string(), "bad-op".into(), false);
        return;
    };
    let g = if dim == 2 { G::D2(coupe::Grid::new_2d(nz(w), nz(h))) } else { G::D3(coupe::Grid::new_3d(nz(w), nz(h), nz(d))) };
    let n = w * h * d;
    let c = coords(w, h, d);
    let rows = lattice_rows(&c);
    // the CSR lattice, built from the definition through sprs' triplet format
    let mut tri = TriMat::new((n, n));
    for (i, r) in rows.iter().enumerate() {
        for &(j, wt) in r {
            tri.add_triplet(i, j, wt);
        }
    }
    let csr: coupe::sprs::CsMat<i64> = tri.to_csr();
    let view = csr.view();

    let (eg, s1) = in_pools(|| g.edge_cut(&p));
    let (lg, s2) = in_pools(|| g.lambda_cut(&p, ws.clone()));
    let (ce, s3) = in_pools(|| <View as Topology<i64>>::edge_cut(&view, &p));
    let (cl, s4) = in_pools(|| <View as Topology<i64>>::lambda_cut(&view, &p, ws.clone()));
    let (cge, s5) = in_pools(|| <&View as Topology<i64>>::edge_cut(&&view, &p));
    let (cgl, s6) = in_pools(|| <&View as Topology<i64>>::lambda_cut(&&view, &p, ws.clone()));
    let out = format!("eg={} lg={} ce={} cl={}", show(&eg), show(&lg), show(&ce), show(&cl));

    let mut v = Verdicts(vec![]);
    if !(s1 && s2 && s3 && s4 && s5 && s6) {
        v.add("pool-dependent", "the answer depends on the rayon pool size".into());
    }
    if g.len() != n {
        v.add("grid-len", format!("Grid len {} but {} cells", g.len(), n));
    }
    let reads_ok = p.len() >= n;
    if reads_ok {
        let dm = dense(&rows);
        let want_e = naive_edge_cut_sym(&dm, &p);
        let want_l = naive_lambda(&rows, &p, &ws);
        for (name, got, want) in [
            ("grid-edge-cut", &eg, want_e),
            ("grid-lambda-cut", &lg, want_l),
            ("lattice-sprs-edge-cut", &ce, want_e),
            ("lattice-sprs-lambda-cut", &cl, want_l),
            ("lattice-generic-edge-cut", &cge, want_e),
            ("lattice-generic-lambda-cut", &cgl, want_l),
        ] {
            if *got != Ok(want) {
                v.add(name, format!("{} but the definition gives {}", show(got), want));
            }
        }
    } else {
        ctx.count("grid:short_partition");
        if eg.is_ok() || ce.is_ok() {
            v.add("short-partition-accepted", "edge_cut answered on a short partition".into());
        }
    }
    ctx.count(&format!("grid{}d", dim));
    let parts: BTreeSet<usize> = p.iter().take(n).cloned().collect();
    ctx.count(&format!("grid:parts={}", parts.len().min(6)));
    let nontrivial = reads_ok && n >= 2 && parts.len() >= 2;
    let idx = ctx.record(op.to_string(), out, nontrivial);
    for (sig, what) in v.0 {
        ctx.fail(idx, sig, what);
    }
}

fn run_nbrs(ctx: &mut Ctx, op: &str, t: &mut Toks, dim: usize) {
    let parsed = (|| {
        let w: usize = t.one()?;
        let h: usize = t.one()?;
        let d: usize = if dim == 3 { t.one()? } else { 1 };
        if !t.done() || w == 0 || h == 0 || d == 0 || w * h * d > 100_000 {
            return None;
        }
        Some((w, h, d))
    })();
    let Some((w, h, d)) = parsed else {
        ctx.record(op.to_string(), "bad-op".into(), false);
        return;
    };
    let n = w * h * d;
    let c = coords(w, h, d);
    let g2 = coupe::Grid::new_2d(nz(w), nz(h));
    let g3 = coupe::Grid::new_3d(nz(w), nz(h), nz(d));
    let g = if dim == 2 { G::D2(g2) } else { G::D3(g3) };
    let mut v = Verdicts(vec![]);
    let res = guarded(|| {
        let nb: Vec<Vec<(usize, i64)>> = (0..n).map(|i| g.neighbors(i)).collect();
        let pos: Vec<(Vec<usize>, usize)> = (0..n)
            .map(|i| {
                if dim == 2 {
                    let q = coupe::verif::cartesian::position_of(g2, i);
                    (q.to_vec(), coupe::verif::cartesian::index_of(g2, q))
                } else {
                    let q = coupe::verif::cartesian::position_of(g3, i);
                    (q.to_vec(), coupe::verif::cartesian::index_of(g3, q))
                }
            })
            .collect();
        (nb, pos)
    });
    let out = match &res {
        Err(c) => c.clone(),
        Ok((nb, pos)) => {
            // oracle: neighbour *set* = cells at L1 distance 1, unit weights, no repetition;
            // positions = enumeration order; index_of inverts position_of and is a bijection
            for i in 0..n {
                let mut got: Vec<usize> = nb[i].iter().map(|e| e.0).collect();
                got.sort();
                let want: Vec<usize> = (0..n).filter(|&j| l1(&c[i], &c[j]) == 1).collect();
                if got != want {
                    v.add("grid-neighbours", format!("cell {}: neighbours {:?}, L1-distance-1 cells {:?}", i, got, want));
                    break;
                }
                if nb[i].iter().any(|e| e.1 != 1) {
                    v.add("grid-neighbours", format!("cell {}: an edge weight is not 1", i));
                    break;
                }
            }
            for i in 0..n {
                if pos[i].0[..] != c[i][..dim] || pos[i].1 != i {
                    v.add("grid-position-index", format!("cell {}: position_of {:?}, index_of of it {}", i, pos[i].0, pos[i].1));
                    break;
                }
            }
            // index_of over every in-range position (surjectivity is the loop above)
            for (i, q) in c.iter().enumerate() {
                let k = if dim == 2 {
                    coupe::verif::cartesian::index_of(g2, [q[0], q[1]])
                } else {
                    coupe::verif::cartesian::index_of(g3, *q)
                };
                if k != i {
                    v.add("grid-position-index", format!("index_of({:?}) = {} but the cell is number {}", q, k, i));
                    break;
                }
            }
            let nbs: Vec<String> = nb.iter().map(|r| r.iter().map(|e| e.0.to_string()).collect::<Vec<_>>().join(",")).collect();
            let ps: Vec<String> = pos
                .iter()
                .map(|(q, k)| format!("{}:{}", q.iter().map(|x| x.to_string()).collect::<Vec<_>>().join(","), k))
                .collect();
            format!("n={} nb={} pos={}", g.len(), nbs.join("|"), ps.join(" "))
        }
    };
    if res.is_err() {
        v.add("grid-panic", out.clone());
    }
    ctx.count(&format!("nbrs{}d", dim));
    let idx = ctx.record(op.to_string(), out, n >= 2);
    for (sig, what) in v.0 {
        ctx.fail(idx, sig, what);
    }
}

// ------------------------------------------------------------------ imbalance op

fn run_imb(ctx: &mut Ctx, op: &str, t: &mut Toks) {
    let parsed = (|| {
        let k: usize = t.one()?;
        let p: Vec<usize> = t.vec()?;
        let ws: Vec<i64> = t.vec()?;
        let ts: Vec<i64> = t.vec()?;
        if !t.done() || k > 100_000 {
            return None;
        }
        Some((k, p, ws, ts))
    })();
    let Some((k, p, ws, ts)) = parsed else {
        ctx.record(op.to_string(), "bad-op".into(), false);
        return;
    };
    eval_imb(ctx, op, k, p, ws, ts, false, vec![]);
}

/// Runs the four imbalance functions and their closed-form oracle (linear in the input).
fn eval_imb(
    ctx: &mut Ctx,
    op: &str,
    k: usize,
    p: Vec<usize>,
    ws: Vec<i64>,
    ts: Vec<i64>,
    large: bool,
    extra: Vec<(&'static str, String)>,
) {
    let set = if large { lpools() } else { pools() };
    let (loads, s1) = in_pool_set(set, || coupe::imbalance::compute_parts_load(&p, k, ws.clone()));
    let (mx, s2) = in_pool_set(set, || coupe::imbalance::max_imbalance(k, &p, ws.clone()));
    let (imb, s3) = in_pool_set(set, || coupe::imbalance::imbalance(k, &p, ws.clone()).to_bits());
    let (tgt, s4) = in_pool_set(set, || coupe::imbalance::imbalance_target(&ts, &p, ws.clone()));
    let out = format!(
        "loads={} max={} imb={} tgt={}",
        match &loads {
            Ok(l) => format!("[{}]", join(l)),
            Err(c) => c.clone(),
        },
        show(&mx),
        match &imb {
            Ok(b) => format!("{:x}", b),
            Err(c) => c.clone(),
        },
        show(&tgt)
    );
    let mut v = Verdicts(extra);
    if !(s1 && s2 && s3 && s4) {
        v.add("pool-dependent", "the answer depends on the rayon pool size".into());
    }
    // closed forms; defined when the inputs meet the documented contract
    let in_range = p.iter().all(|&x| x < k);
    let contract = in_range && p.len() == ws.len() && k > 0;
    let naive_loads = |kk: usize| -> Vec<i64> {
        if p.len().saturating_mul(kk) <= 1 << 20 {
            // the definition, part by part
            (0..kk).map(|j| p.iter().zip(&ws).filter(|(&q, _)| q == j).map(|(_, w)| *w).sum()).collect()
        } else {
            // the same sums in one sequential pass (linear), checked against the grand total
            let mut l = vec![0i128; kk];
            for (&q, &w) in p.iter().zip(&ws) {
                l[q] += w as i128;
            }
            let total: i128 = ws.iter().take(p.len()).map(|&w| w as i128).sum();
            assert_eq!(l.iter().sum::<i128>(), total);
            l.into_iter().map(|x| x as i64).collect()
        }
    };
    if contract {
        ctx.count("imb:contract");
        let nl = naive_loads(k);
        if loads.as_ref() != Ok(&nl) {
            v.add("parts-load", format!("compute_parts_load {:?} but the definition gives {:?}", loads, nl));
        }
        let want_mx = nl.iter().max().unwrap() - nl.iter().min().unwrap();
        if mx != Ok(want_mx) {
            v.add("max-imbalance", format!("max_imbalance {} but max-min is {}", show(&mx), want_mx));
        }
        // imbalance = max_k (L_k - T/K) / (T/K) = max_k (K L_k - T) / T as an exact rational
        let total: i128 = nl.iter().map(|&x| x as i128).sum();
        match &imb {
            Ok(b) => {
                let got = f64::from_bits(*b);
                if total == 0 {
                    if got != 0.0 {
                        v.add("imbalance", format!("imbalance {} with zero total weight", got));
                    }
                } else {
                    // max over parts of the rational (K L - T)/T, compared by cross-multiplication
                    let mut best: Option<i128> = None; // numerator, denominator is `total`
                    for &l in &nl {
                        let num = k as i128 * l as i128 - total;
                        best = Some(match best {
                            None => num,
                            Some(b0) => {
                                // num/total > b0/total ?
                                let gt = if total > 0 { num > b0 } else { num < b0 };
                                if gt { num } else { b0 }
                            }
                        });
                    }
                    let exact = best.unwrap() as f64 / total as f64;
                    let lmax = nl.iter().map(|x| x.abs()).max().unwrap() as f64;
                    let tol = 1e-12 * (1.0 + (k as f64 * lmax / total as f64).abs());
                    if !((got - exact).abs() <= tol) {
                        v.add("imbalance", format!("imbalance {} but the closed form is {}", got, exact));
                    }
                    // the documented f64 expression, evaluated independently on the exact loads:
                    // max_j (L_j - T/K) / (T/K) with T, L_j, K converted to f64 (round to nearest)
                    let ideal = total as f64 / k as f64;
                    let mut best = f64::NEG_INFINITY;
                    for &l in &nl {
                        best = best.max((l as f64 - ideal) / ideal);
                    }
                    if ideal != 0.0 && got != best {
                        v.add("imbalance-closed-form-bits", format!("imbalance {:?} but the f64 closed form gives {:?}", got, best));
                    }
                }
            }
            Err(c) => v.add("imbalance", format!("imbalance {} inside the contract", c)),
        }
        if ts.len() == k {
            let want = nl.iter().zip(&ts).map(|(l, t)| l - t).max().unwrap();
            if tgt != Ok(want) {
                v.add("imbalance-target", format!("imbalance_target {} but max(load-target) is {}", show(&tgt), want));
            }
        }
    } else {
        ctx.count("imb:outside_contract");
        if k == 0 && p.len() == ws.len() {
            // documented special case: no parts, imbalance 0
            if imb != Ok(0f64.to_bits()) {
                v.add("imbalance", format!("imbalance {} with zero parts", show(&imb.map(|b| f64::from_bits(b)))));
            }
        }
    }
    let nontrivial = contract && k >= 2 && p.len() >= 2;
    let idx = ctx.record(op.to_string(), out, nontrivial);
    for (sig, what) in v.0 {
        ctx.fail(idx, sig, what);
    }
}

// ------------------------------------------------------------------ LARGE / CORNER stream
//
// Inputs with tens of thousands of vertices are described by a few parameters and expanded by the
// same integer formulas here and in the Lean driver (`Driver/C16.lean`), so the op lines stay
// short. All oracles below are linear in the number of stored entries.
//
// * `lcsr <n> <kind> <stride> <em> <off> <pm> <k> <wm> <seed>`   band matrix `i±1, i±stride`
//     (kind 0 symmetric, 1 directed with dropped entries), edge-weight mode, indptr offset,
//     partition mode, part count, vertex-weight mode.     out: as `csr`
// * `lgrid2 <w> <h> <pm> <k> <wm> <seed>` / `lgrid3 <w> <h> <d> …`            out: as `grid2`
// * `limb <n> <k> <pm> <wm> <seed>`                                           out: as `imb`

fn mix(a: u64, b: u64, s: u64) -> u64 {
    let x = a
        .wrapping_mul(2654435761)
        .wrapping_add(b.wrapping_mul(2246822519))
        .wrapping_add(s.wrapping_mul(3266489917))
        .wrapping_add(374761393)
        & 0xffff_ffff;
    let y = (x ^ (x >> 15)).wrapping_mul(2246822519) & 0xffff_ffff;
    y ^ (y >> 13)
}

/// 0: ids ascending in `k` contiguous blocks, 1: blocks of 4096 cycling through the ids,
/// 2: random, 3: stripes, else: blocks of 8192 with ascending ids.
fn lpart(pm: usize, k: usize, n: usize, seed: u64, i: usize) -> usize {
    match pm {
        0 => ((i as u128 * k as u128) / n as u128) as usize,
        1 => (i / 4096) % k,
        2 => (mix(i as u64, 1, seed) % k as u64) as usize,
        3 => i % k,
        5 => [0usize, 1, 63, 64, 65, 127, 128, 129, 191, 192, 255, 256][(mix(i as u64, 1, seed) % 12) as usize],
        _ => (i / 8192).min(k - 1),
    }
}

fn lweight(wm: usize, seed: u64, i: usize) -> i64 {
    match wm {
        0 => 1,
        1 => 1 + (mix(i as u64, 2, seed) % 7) as i64,
        3 => (mix(i as u64, 2, seed) % 4) as i64, // a quarter of the weights are zero
        _ => 1 + (mix(i as u64, 3, seed) % 1_048_576) as i64,
    }
}

fn lrow(gk: usize, s: usize, em: usize, n: usize, seed: u64, i: usize) -> Vec<(usize, i64)> {
    let m: u64 = if em == 0 { 9 } else { 1 << 31 };
    let mut cand = vec![];
    if i >= s {
        cand.push(i - s);
    }
    if i >= 1 {
        cand.push(i - 1);
    }
    if i + 1 < n {
        cand.push(i + 1);
    }
    if i + s < n {
        cand.push(i + s);
    }
    // edge-weight mode 2: values 0..9, explicit zeros are stored
    let wt = |x: u64| if em == 2 { (x % 10) as i64 } else { 1 + (x % m) as i64 };
    if gk == 0 {
        cand.into_iter().map(|j| (j, wt(mix(i.min(j) as u64, i.max(j) as u64, seed)))).collect()
    } else {
        cand.into_iter()
            .filter(|&j| mix(i as u64, j as u64, seed + 7) % 4 != 0)
            .map(|j| (j, wt(mix(i as u64, j as u64, seed))))
            .collect()
    }
}

fn limb_weight(wm: usize, n: usize, seed: u64, i: usize) -> i64 {
    match wm {
        0 => 1,
        1 => (mix(i as u64, 2, seed) % 100) as i64,
        2 => (1u64 << 30) as i64 + (mix(i as u64, 3, seed) % (1 << 31)) as i64,
        4 => (mix(i as u64, 2, seed) % 4) as i64,
        _ => ((1u64 << 61) / n as u64) as i64 - (mix(i as u64, 4, seed) % 1000) as i64,
    }
}

fn size_class(n: usize) -> &'static str {
    match n {
        0..=4096 => "<=4096",
        4097..=8192 => "4097..8192",
        8193..=16384 => "8193..16384",
        16385..=65536 => "16385..65536",
        65537..=131072 => "65537..131072",
        _ => ">131072",
    }
}

/// Edge cut by the definition, one pass over the stored entries: an entry `(i, j)` below the
/// diagonal whose ends lie in different parts contributes its weight. For a symmetric matrix the
/// sum over *all* entries in different parts must be exactly twice that.
fn linear_edge_cut(rows: &[Vec<(usize, i64)>], p: &[usize], symmetric: bool) -> Result<i64, String> {
    let mut lower = 0i128;
    let mut all = 0i128;
    for (i, r) in rows.iter().enumerate() {
        for &(j, w) in r {
            if p[i] != p[j] {
                all += w as i128;
                if j < i {
                    lower += w as i128;
                }
            }
        }
    }
    if symmetric && all != 2 * lower {
        return Err(format!("oracle self-check: all {} != 2 x lower {}", all, lower));
    }
    Ok(lower as i64)
}

/// λ-1 cut by the definition: per vertex, the parts of the neighbours other than its own are
/// sorted and counted (no hashing).
fn linear_lambda(rows: &[Vec<(usize, i64)>], p: &[usize], ws: &[i64]) -> i64 {
    let mut s = 0i128;
    let mut buf: Vec<usize> = vec![];
    for v in 0..rows.len().min(ws.len()) {
        buf.clear();
        buf.extend(rows[v].iter().map(|e| p[e.0]).filter(|&q| q != p[v]));
        buf.sort_unstable();
        buf.dedup();
        s += ws[v] as i128 * buf.len() as i128;
    }
    s as i64
}

fn parse_nats(t: &mut Toks, k: usize) -> Option<Vec<usize>> {
    let mut v = Vec::with_capacity(k);
    for _ in 0..k {
        v.push(t.one::<usize>()?);
    }
    if t.done() { Some(v) } else { None }
}

fn run_lcsr(ctx: &mut Ctx, op: &str, t: &mut Toks, plumb: bool) {
    let Some(a) = parse_nats(t, 9) else {
        ctx.record(op.to_string(), "bad-op".into(), false);
        return;
    };
    let (n, gk, s, em, off, pm, k, wm, seed) = (a[0], a[1], a[2], a[3], a[4], a[5], a[6], a[7], a[8] as u64);
    if s < 2 || k == 0 || n == 0 || n > 2_000_000 {
        ctx.record(op.to_string(), "bad-op".into(), false);
        return;
    }
    let rows: Vec<Vec<(usize, i64)>> = (0..n).map(|i| lrow(gk, s, em, n, seed, i)).collect();
    let p: Vec<usize> = (0..n).map(|i| lpart(pm, k, n, seed, i)).collect();
    let ws: Vec<i64> = (0..n).map(|i| lweight(wm, seed, i)).collect();
    let mut indptr = vec![off];
    let mut indices = vec![];
    let mut data = vec![];
    for r in &rows {
        for &(u, w) in r {
            indices.push(u);
            data.push(w);
        }
        indptr.push(off + indices.len());
    }
    let mut v = Verdicts(vec![]);
    let view: View = match CsMatView::try_new((n, n), &indptr[..], &indices[..], &data[..]) {
        Ok(x) => x,
        Err(_) => {
            let idx = ctx.record(op.to_string(), "invalid-matrix".into(), false);
            ctx.fail(idx, "harness-bug", "the large generator built an invalid matrix".into());
            return;
        }
    };
    let set = lpools();
    let (eg, s1) = in_pool_set(set, || <&View as Topology<i64>>::edge_cut(&&view, &p));
    let (es, s2) = in_pool_set(set, || <View as Topology<i64>>::edge_cut(&view, &p));
    let (lg, s3) = in_pool_set(set, || <&View as Topology<i64>>::lambda_cut(&&view, &p, ws.clone()));
    let (ls, s4) = in_pool_set(set, || <View as Topology<i64>>::lambda_cut(&view, &p, ws.clone()));
    let out = format!("eg={} es={} lg={} ls={}", show(&eg), show(&es), show(&lg), show(&ls));
    if !(s1 && s2 && s3 && s4) {
        v.add("pool-dependent", "the answer depends on the rayon pool size".into());
    }
    // reuse: the same view answers for another partition in between, then again for the first
    let p2: Vec<usize> = p.iter().rev().cloned().collect();
    let again = guarded(|| {
        let _ = <View as Topology<i64>>::edge_cut(&view, &p2);
        let _ = <View as Topology<i64>>::lambda_cut(&view, &p2, ws.clone());
        (<View as Topology<i64>>::edge_cut(&view, &p), <View as Topology<i64>>::lambda_cut(&view, &p, ws.clone()))
    });
    ctx.count("reuse");
    if let (Ok((e2, l2)), Ok(e1), Ok(l1)) = (&again, &es, &ls) {
        if e2 != e1 || l2 != l1 {
            v.add("history-dependent", format!("second call on the same view: {} / {} after {} / {}", e2, l2, e1, l1));
        }
    }
    match linear_edge_cut(&rows, &p, gk == 0) {
        Err(m) => v.add("oracle-self-check", m),
        Ok(want_e) => {
            for (name, got) in [("generic-edge-cut", &eg), ("sprs-edge-cut", &es)] {
                if *got != Ok(want_e) {
                    let sig = if off != 0 && got.is_err() && name.starts_with("sprs") { "sprs-offset-indptr-panic" } else { name };
                    v.add(sig, format!("{} {} but the definition gives {}", name, show(got), want_e));
                }
            }
        }
    }
    let want_l = linear_lambda(&rows, &p, &ws);
    for (name, got) in [("generic-lambda-cut", &lg), ("sprs-lambda-cut", &ls)] {
        if *got != Ok(want_l) {
            let sig = if off != 0 && got.is_err() && name.starts_with("sprs") { "sprs-offset-indptr-panic" } else { name };
            v.add(sig, format!("{} {} but the definition gives {}", name, show(got), want_l));
        }
    }
    if plumb {
        plumb_csr(ctx, &mut v, &indptr, &indices, &data, &p, &ws, &es, &ls);
    } else {
        ctx.count(&format!("large:csr:{}", size_class(n)));
    }
    let idx = ctx.record(op.to_string(), out, n >= 2 && k >= 2);
    for (sig, what) in v.0 {
        ctx.fail(idx, sig, what);
    }
}

fn run_lgrid(ctx: &mut Ctx, op: &str, t: &mut Toks, dim: usize, plumb: bool) {
    let Some(a) = parse_nats(t, if dim == 2 { 6 } else { 7 }) else {
        ctx.record(op.to_string(), "bad-op".into(), false);
        return;
    };
    let (w, h, d) = if dim == 2 { (a[0], a[1], 1) } else { (a[0], a[1], a[2]) };
    let o = dim; // offset of the remaining parameters
    let (pm, k, wm, seed) = (a[o], a[o + 1], a[o + 2], a[o + 3] as u64);
    if w == 0 || h == 0 || d == 0 || k == 0 || w.saturating_mul(h).saturating_mul(d) > 2_000_000 {
        ctx.record(op.to_string(), "bad-op".into(), false);
        return;
    }
    let n = w * h * d;
    let g = if dim == 2 { G::D2(coupe::Grid::new_2d(nz(w), nz(h))) } else { G::D3(coupe::Grid::new_3d(nz(w), nz(h), nz(d))) };
    let p: Vec<usize> = (0..n).map(|i| lpart(pm, k, n, seed, i)).collect();
    let ws: Vec<i64> = (0..n).map(|i| lweight(wm, seed, i)).collect();
    // the lattice by enumeration of the cells (x fastest): neighbours in increasing order
    let mut rows: Vec<Vec<(usize, i64)>> = Vec::with_capacity(n);
    let mut i = 0usize;
    for z in 0..d {
        for y in 0..h {
            for x in 0..w {
                let mut r = Vec::with_capacity(6);
                if z > 0 {
                    r.push((i - w * h, 1));
                }
                if y > 0 {
                    r.push((i - w, 1));
                }
                if x > 0 {
                    r.push((i - 1, 1));
                }
                if x + 1 < w {
                    r.push((i + 1, 1));
                }
                if y + 1 < h {
                    r.push((i + w, 1));
                }
                if z + 1 < d {
                    r.push((i + w * h, 1));
                }
                rows.push(r);
                i += 1;
            }
        }
    }
    let mut indptr = vec![0usize];
    let mut indices = vec![];
    for r in &rows {
        indices.extend(r.iter().map(|e| e.0));
        indptr.push(indices.len());
    }
    let data = vec![1i64; indices.len()];
    let mut v = Verdicts(vec![]);
    let view: View = match CsMatView::try_new((n, n), &indptr[..], &indices[..], &data[..]) {
        Ok(x) => x,
        Err(_) => {
            let idx = ctx.record(op.to_string(), "invalid-matrix".into(), false);
            ctx.fail(idx, "harness-bug", "the large generator built an invalid lattice".into());
            return;
        }
    };
    let set = lpools();
    let (eg, s1) = in_pool_set(set, || g.edge_cut(&p));
    let (lg, s2) = in_pool_set(set, || g.lambda_cut(&p, ws.clone()));
    let (ce, s3) = in_pool_set(set, || <View as Topology<i64>>::edge_cut(&view, &p));
    let (cl, s4) = in_pool_set(set, || <View as Topology<i64>>::lambda_cut(&view, &p, ws.clone()));
    let (cge, s5) = in_pool_set(set, || <&View as Topology<i64>>::edge_cut(&&view, &p));
    let (cgl, s6) = in_pool_set(set, || <&View as Topology<i64>>::lambda_cut(&&view, &p, ws.clone()));
    let out = format!("eg={} lg={} ce={} cl={}", show(&eg), show(&lg), show(&ce), show(&cl));
    if !(s1 && s2 && s3 && s4 && s5 && s6) {
        v.add("pool-dependent", "the answer depends on the rayon pool size".into());
    }
    if g.len() != n {
        v.add("grid-len", format!("Grid len {} but {} cells", g.len(), n));
    }
    // the definition, edge by edge: every +x, +y, +z lattice edge whose ends differ counts one
    let mut want_e = 0i64;
    let mut i = 0usize;
    for z in 0..d {
        for y in 0..h {
            for x in 0..w {
                if x + 1 < w && p[i] != p[i + 1] {
                    want_e += 1;
                }
                if y + 1 < h && p[i] != p[i + w] {
                    want_e += 1;
                }
                if z + 1 < d && p[i] != p[i + w * h] {
                    want_e += 1;
                }
                i += 1;
            }
        }
    }
    match linear_edge_cut(&rows, &p, true) {
        Ok(e) if e == want_e => {}
        other => v.add("oracle-self-check", format!("edge enumeration {} against entry enumeration {:?}", want_e, other)),
    }
    let want_l = linear_lambda(&rows, &p, &ws);
    for (name, got, want) in [
        ("grid-edge-cut", &eg, want_e),
        ("grid-lambda-cut", &lg, want_l),
        ("lattice-sprs-edge-cut", &ce, want_e),
        ("lattice-sprs-lambda-cut", &cl, want_l),
        ("lattice-generic-edge-cut", &cge, want_e),
        ("lattice-generic-lambda-cut", &cgl, want_l),
    ] {
        if *got != Ok(want) {
            v.add(name, format!("{} but the definition gives {}", show(got), want));
        }
    }
    // the iterator itself at a sample of cells (all cells when small): the set must be the lattice row
    let step = (n / 4099).max(1);
    let mut c = 0;
    while c < n {
        let mut got: Vec<usize> = g.neighbors(c).iter().map(|e| e.0).collect();
        got.sort_unstable();
        let want: Vec<usize> = rows[c].iter().map(|e| e.0).collect();
        if got != want {
            v.add("grid-neighbours", format!("cell {}: neighbours {:?}, lattice {:?}", c, got, want));
            break;
        }
        c += step;
    }
    if plumb {
        plumb_grid(ctx, &mut v, w, h, d, dim, &p, &ws, &eg, &lg);
    } else {
        ctx.count(&format!("large:grid{}d:{}", dim, size_class(n)));
    }
    let idx = ctx.record(op.to_string(), out, n >= 2 && k >= 2);
    for (sig, what) in v.0 {
        ctx.fail(idx, sig, what);
    }
}

fn run_limb(ctx: &mut Ctx, op: &str, t: &mut Toks, plumb: bool) {
    let Some(a) = parse_nats(t, 5) else {
        ctx.record(op.to_string(), "bad-op".into(), false);
        return;
    };
    let (n, k, pm, wm, seed) = (a[0], a[1], a[2], a[3], a[4] as u64);
    if k == 0 || n == 0 || n > 2_000_000 || k > 100_000 {
        ctx.record(op.to_string(), "bad-op".into(), false);
        return;
    }
    let p: Vec<usize> = (0..n).map(|i| lpart(pm, k, n, seed, i)).collect();
    let ws: Vec<i64> = (0..n).map(|i| limb_weight(wm, n, seed, i)).collect();
    let ts: Vec<i64> = (0..k).map(|j| (mix(j as u64, 5, seed) % 1000) as i64).collect();
    let total: i128 = ws.iter().map(|&x| x as i128).sum();
    let mut extra = Verdicts(vec![]);
    if plumb {
        plumb_imb(ctx, &mut extra, k, &p, &ws, &ts);
        ctx.count(if total % k as i128 == 0 { "plumbing:imb:total_divisible" } else { "plumbing:imb:total_not_divisible" });
        if total > 1 << 53 {
            ctx.count("plumbing:imb:total>2^53");
        }
    } else {
        ctx.count(&format!("large:imb:{}", size_class(n)));
        ctx.count(if total % k as i128 == 0 { "large:imb:total_divisible" } else { "large:imb:total_not_divisible" });
    }
    eval_imb(ctx, op, k, p, ws, ts, true, extra.0);
}

fn gen_large(ctx: &mut Ctx) {
    let quick = ctx.quick();
    let seed = |ctx: &mut Ctx| ctx.rng.below(1 << 20);
    // --- CSR: (n, kind, stride, edge mode, offset, partition mode, parts, weight mode)
    let mut csr: Vec<[usize; 8]> = vec![
        [8193, 0, 4096, 0, 0, 0, 2, 1],
        [16385 + 37, 0, 8192, 0, 0, 0, 64, 1],
        [20001, 1, 4096, 1, 0, 1, 257, 2],
        [65537 + 11, 0, 8192, 1, 3, 0, 257, 1],
        [70001, 1, 97, 0, 0, 2, 64, 0],
        [70001, 0, 2, 0, 0, 3, 70001, 1], // every vertex its own part: more than 65 536 ids
    ];
    if !quick {
        csr.extend([
            [4097, 0, 4096, 0, 0, 4, 2, 1],
            [8193, 1, 8192, 0, 5, 0, 3, 1],
            [16385, 0, 4097, 1, 0, 4, 255, 2],
            [65536, 0, 8192, 0, 0, 0, 256, 1], // block-aligned on purpose
            [65537, 1, 65536, 0, 0, 0, 2, 0],
            [131077, 0, 8192, 0, 0, 0, 257, 1],
            [131077, 1, 16384, 1, 2, 2, 64, 2],
            [140003, 0, 4096, 0, 0, 1, 128, 1],
            [140003, 0, 3, 1, 0, 4, 65, 0],
        ]);
    }
    for c in csr {
        let s = seed(ctx);
        run_op(ctx, &format!("lcsr {} {} {} {} {} {} {} {} {}", c[0], c[1], c[2], c[3], c[4], c[5], c[6], c[7], s));
    }
    // --- grids: rows of 4096 / 8192 nodes, sizes off the powers of two, unequal 3-D sides
    let mut g2: Vec<[usize; 5]> = vec![[4097, 5, 0, 2, 1], [8192, 3, 0, 64, 1], [8193, 9, 4, 257, 0], [131, 157, 2, 64, 2]];
    let mut g3: Vec<[usize; 6]> = vec![[17, 29, 43, 0, 64, 1], [37, 41, 47, 0, 257, 1], [4096, 3, 2, 1, 2, 0]];
    if !quick {
        g2.extend([[4096, 17, 0, 256, 1], [16385, 9, 0, 2, 1], [70001, 2, 4, 63, 1], [3, 43691, 0, 257, 2], [383, 367, 1, 128, 0]]);
        g3.extend([[53, 47, 59, 0, 257, 1], [8193, 2, 5, 0, 64, 1], [2, 8193, 3, 4, 65, 0], [3, 5, 8737, 0, 255, 2], [61, 31, 73, 2, 2, 1]]);
    }
    for c in g2 {
        let s = seed(ctx);
        run_op(ctx, &format!("lgrid2 {} {} {} {} {} {}", c[0], c[1], c[2], c[3], c[4], s));
    }
    for c in g3 {
        let s = seed(ctx);
        run_op(ctx, &format!("lgrid3 {} {} {} {} {} {} {}", c[0], c[1], c[2], c[3], c[4], c[5], s));
    }
    // --- imbalance: (n, parts, partition mode, weight mode); sorted ids (modes 0, 4) and random (2)
    let mut imb: Vec<[usize; 4]> = vec![
        [8193, 2, 0, 1],
        [16385 + 37, 64, 0, 2],
        [20001, 257, 2, 1],
        [65537 + 11, 257, 0, 2],
        [70001, 64, 2, 3],
        [70001, 3, 4, 1],
    ];
    if !quick {
        imb.extend([
            [8193, 257, 1, 0],
            [16385, 63, 0, 3],
            [65536, 256, 0, 2],
            [65537, 65, 3, 1],
            [131077, 257, 0, 2],
            [131077, 2, 2, 3],
            [140003, 64, 0, 1],
            [140003, 128, 2, 2],
            [140003, 4099, 2, 1],
            [100003, 255, 4, 2],
        ]);
    }
    for c in imb {
        let s = seed(ctx);
        run_op(ctx, &format!("limb {} {} {} {} {}", c[0], c[1], c[2], c[3], s));
    }
    // --- parameter corners at moderate sizes (through the same descriptors)
    for k in [63usize, 64, 65, 128, 255, 256, 257, 4099] {
        ctx.count(&format!("corner:parts={}", k));
        let s = seed(ctx);
        run_op(ctx, &format!("limb {} {} {} {} {}", 5003, k, 2, 1, s));
        let s = seed(ctx);
        run_op(ctx, &format!("lcsr {} 0 {} 0 0 {} {} 1 {}", 4999, 70, if k % 2 == 0 { 0 } else { 2 }, k, s));
        let s = seed(ctx);
        run_op(ctx, &format!("lgrid2 {} {} 2 {} 1 {}", 71, 67, k, s));
    }
    for n in [1usize, 2, 3] {
        ctx.count("corner:tiny");
        let s = seed(ctx);
        run_op(ctx, &format!("lcsr {} 0 2 0 0 3 2 1 {}", n, s));
        run_op(ctx, &format!("limb {} 2 3 1 {}", n, s));
        run_op(ctx, &format!("limb {} 3 2 3 {}", n, s));
    }
    // weights near the top of the i64 range with totals that still fit (loads, max_imbalance exact)
    for (n, k) in [(2usize, 2usize), (3, 2), (1021, 64), (8193, 257)] {
        ctx.count("corner:weights~2^61/n");
        let s = seed(ctx);
        run_op(ctx, &format!("limb {} {} 2 3 {}", n, k, s));
    }
    ctx.notes.push(format!(
        "large/corner stream: descriptor ops (lcsr, lgrid2, lgrid3, limb) in pools {:?}; linear oracles; compared exactly with the model (array-backed evaluator proved equal to it)",
        LPOOLS
    ));
}

// ------------------------------------------------------------------ SPECIAL VALUES / PLUMBING / CONTEXT
//
// `pcsr`, `pgrid2`, `pgrid3`, `pimb` take the parameters of `lcsr`, `lgrid2`, `lgrid3`, `limb`
// (same output, same model line) and additionally run the same data through every legal input
// type: `view` / `&view` / `&&view` topologies, Grid by value and by reference, weights as Vec,
// `par_iter().cloned()`, `into_par_iter().map(..)`, range-based, `with_min_len`/`with_max_len`,
// `chain` of two halves, arrays; element types i32, u32, u64, f64, f32 where the values fit
// exactly; f64/f32 zeros replaced by -0.0 (all of them / all but one). Every variant must give
// the value of the i64-Vec-by-value call (which is compared with the model).
// `cctx <csr|grid|imb> <m> <seed>`: m inputs called sequentially, on the global pool, from inside
// a rayon task and all at once on pools of 4 and 16 threads.
// `fimb <n> <k> <seed>`: f64 weights scaled by exact powers of two (down to subnormal, up to the
// last finite binade).

trait W16:
    Copy
    + Send
    + Sync
    + std::fmt::Debug
    + std::iter::Sum
    + std::ops::Mul<Output = Self>
    + std::ops::Div<Output = Self>
    + std::ops::Sub<Output = Self>
    + std::ops::AddAssign
    + PartialOrd
    + FromPrimitive
    + ToPrimitive
    + Zero
    + One
    + 'static
{
    const NAME: &'static str;
    const MAX_EXACT: i128;
    const SIGNED: bool = true;
    fn neg_zero() -> Option<Self> {
        None
    }
}
impl W16 for i64 {
    const NAME: &'static str = "i64";
    const MAX_EXACT: i128 = i64::MAX as i128;
}
impl W16 for i32 {
    const NAME: &'static str = "i32";
    const MAX_EXACT: i128 = i32::MAX as i128;
}
impl W16 for u32 {
    const NAME: &'static str = "u32";
    const MAX_EXACT: i128 = u32::MAX as i128;
    const SIGNED: bool = false;
}
impl W16 for u64 {
    const NAME: &'static str = "u64";
    const MAX_EXACT: i128 = u64::MAX as i128;
    const SIGNED: bool = false;
}
impl W16 for usize {
    const NAME: &'static str = "usize";
    const MAX_EXACT: i128 = usize::MAX as i128;
    const SIGNED: bool = false;
}
impl W16 for f64 {
    const NAME: &'static str = "f64";
    const MAX_EXACT: i128 = 1 << 53;
    fn neg_zero() -> Option<Self> {
        Some(-0.0)
    }
}
impl W16 for f32 {
    const NAME: &'static str = "f32";
    const MAX_EXACT: i128 = 1 << 24;
    fn neg_zero() -> Option<Self> {
        Some(-0.0)
    }
}

/// `nz`: 0 keep +0, 1 every zero becomes -0.0, 2 every zero but the first one.
fn conv_vec<T: W16>(xs: &[i64], nz: u8) -> Vec<T> {
    let mut first = true;
    xs.iter()
        .map(|&x| {
            if x == 0 && nz > 0 {
                let skip = nz == 2 && first;
                first = false;
                if !skip {
                    return T::neg_zero().unwrap();
                }
            }
            T::from_i64(x).unwrap()
        })
        .collect()
}

/// Back to an exact integer (`None` if the value is not an integer); -0.0 is 0.
fn back<T: W16>(x: T) -> Option<i128> {
    let f = x.to_f64()?;
    if f.fract() != 0.0 {
        return None;
    }
    x.to_i128()
}

/// Results of all weight adaptors for one call expression.
macro_rules! each_w {
    ($base:expr, |$w:ident| $call:expr) => {{
        let base = $base;
        let n = base.len();
        let h = n / 2;
        let pool = &lpools()[2];
        let mut out = vec![];
        {
            let $w = base.clone();
            out.push(("Vec", guarded(|| pool.install(|| $call))));
        }
        {
            let $w = base.par_iter().cloned();
            out.push(("par_iter().cloned()", guarded(|| pool.install(|| $call))));
        }
        {
            let $w = base.par_iter().copied();
            out.push(("par_iter().copied()", guarded(|| pool.install(|| $call))));
        }
        {
            let $w = base.clone().into_par_iter().map(|x| x);
            out.push(("into_par_iter().map()", guarded(|| pool.install(|| $call))));
        }
        {
            let $w = (0..n).into_par_iter().map(|i| base[i]);
            out.push(("(0..n).into_par_iter().map()", guarded(|| pool.install(|| $call))));
        }
        {
            let $w = base.par_iter().cloned().with_min_len(4096);
            out.push(("with_min_len(4096)", guarded(|| pool.install(|| $call))));
        }
        {
            let $w = base.par_iter().cloned().with_min_len(1).with_max_len(1);
            out.push(("with_max_len(1)", guarded(|| pool.install(|| $call))));
        }
        {
            let $w = base.par_iter().cloned().with_max_len(7);
            out.push(("with_max_len(7)", guarded(|| pool.install(|| $call))));
        }
        {
            let $w = base[..h].par_iter().cloned().chain(base[h..].par_iter().cloned());
            out.push(("chain(halves)", guarded(|| pool.install(|| $call))));
        }
        {
            // on the global pool, not inside `install`
            let $w = base.clone();
            out.push(("Vec@global-pool", guarded(|| $call)));
        }
        out
    }};
}

fn check_all<T: PartialEq + std::fmt::Debug>(
    ctx: &mut Ctx,
    v: &mut Verdicts,
    sig: &'static str,
    what: &str,
    got: Vec<(&'static str, Res<T>)>,
    want: &Res<T>,
) {
    for (name, r) in got {
        ctx.count(&format!("plumbing:{}", name));
        if r != *want {
            v.add(sig, format!("{} through {}: {:?}, by value with a Vec: {:?}", what, name, r, want));
        }
    }
}

/// Edge cut and lambda cut of the same matrix with element type `T`, through `view` and `&view`.
fn typed_cut<T: W16>(
    indptr: &[usize],
    indices: &[usize],
    data: &[i64],
    p: &[usize],
    ws: &[i64],
    nz: u8,
) -> Res<[Option<i128>; 4]> {
    let n = indptr.len() - 1;
    let d: Vec<T> = conv_vec(data, nz);
    let w: Vec<T> = conv_vec(ws, nz);
    let pool = &lpools()[1];
    guarded(|| {
        pool.install(|| {
            let view: CsMatView<T> = CsMatView::new((n, n), indptr, indices, &d[..]);
            [
                back(<CsMatView<T> as Topology<T>>::edge_cut(&view, p)),
                back(<&CsMatView<T> as Topology<T>>::edge_cut(&&view, p)),
                back(<CsMatView<T> as Topology<T>>::lambda_cut(&view, p, w.clone())),
                back(<&CsMatView<T> as Topology<T>>::lambda_cut(&&view, p, w.par_iter().cloned())),
            ]
        })
    })
}

fn plumb_csr(
    ctx: &mut Ctx,
    v: &mut Verdicts,
    indptr: &[usize],
    indices: &[usize],
    data: &[i64],
    p: &[usize],
    ws: &Vec<i64>,
    base_e: &Res<i64>,
    base_l: &Res<i64>,
) {
    let n = indptr.len() - 1;
    let view: View = CsMatView::new((n, n), indptr, indices, data);
    // topologies by value and behind one, two references
    let e = vec![
        ("view", guarded(|| <View as Topology<i64>>::edge_cut(&view, p))),
        ("&view", guarded(|| <&View as Topology<i64>>::edge_cut(&&view, p))),
        ("&&view", guarded(|| <&&View as Topology<i64>>::edge_cut(&&&view, p))),
        ("(&view).edge_cut()", guarded(|| (&view).edge_cut(p))),
        ("(&&view).edge_cut()", guarded(|| (&&view).edge_cut(p))),
    ];
    check_all(ctx, v, "input-type-dependent@edge_cut", "edge_cut", e, base_e);
    let l = vec![
        ("view", guarded(|| <View as Topology<i64>>::lambda_cut(&view, p, ws.clone()))),
        ("&view", guarded(|| <&View as Topology<i64>>::lambda_cut(&&view, p, ws.clone()))),
        ("&&view", guarded(|| <&&View as Topology<i64>>::lambda_cut(&&&view, p, ws.clone()))),
    ];
    check_all(ctx, v, "input-type-dependent@lambda_cut", "lambda_cut", l, base_l);
    // weight adaptors, specialised and default method
    let l = each_w!(ws, |w| <View as Topology<i64>>::lambda_cut(&view, p, w));
    check_all(ctx, v, "input-type-dependent@lambda_cut", "sprs lambda_cut", l, base_l);
    let l = each_w!(ws, |w| <&View as Topology<i64>>::lambda_cut(&&view, p, w));
    check_all(ctx, v, "input-type-dependent@lambda_cut", "generic lambda_cut", l, base_l);
    // element types
    let want = match (base_e, base_l) {
        (Ok(e), Ok(l)) => Ok([Some(*e as i128), Some(*e as i128), Some(*l as i128), Some(*l as i128)]),
        _ => return,
    };
    let has_zero = data.iter().any(|&x| x == 0) || ws.iter().any(|&x| x == 0);
    macro_rules! ty {
        ($T:ty) => {{
            ctx.count(&format!("plumbing:type:{}", <$T as W16>::NAME));
            let r = typed_cut::<$T>(indptr, indices, data, p, ws, 0);
            if r != want {
                v.add("input-type-dependent@edge_cut/lambda_cut", format!("{} weights: {:?}, i64: {:?}", <$T as W16>::NAME, r, want));
            }
            if <$T as W16>::neg_zero().is_some() && has_zero {
                for nz in [1u8, 2] {
                    ctx.count(if nz == 1 { "special:negzero:all" } else { "special:negzero:all-but-one" });
                    let r = typed_cut::<$T>(indptr, indices, data, p, ws, nz);
                    if r != want {
                        v.add("negzero-dependent@edge_cut/lambda_cut", format!("{} weights with -0.0 (mode {}): {:?}, with +0.0: {:?}", <$T as W16>::NAME, nz, r, want));
                    }
                }
            }
        }};
    }
    ty!(i32);
    ty!(u32);
    ty!(u64);
    ty!(usize);
    ty!(f64);
    ty!(f32);
}

fn typed_grid<T: W16>(w: usize, h: usize, d: usize, dim: usize, p: &[usize], ws: &[i64], nz: u8) -> Res<[Option<i128>; 4]> {
    let wv: Vec<T> = conv_vec(ws, nz);
    let pool = &lpools()[1];
    guarded(|| {
        pool.install(|| {
            if dim == 2 {
                let g = coupe::Grid::new_2d(nz_(w), nz_(h));
                [
                    back(<coupe::Grid<2> as Topology<T>>::edge_cut(&g, p)),
                    back(<&coupe::Grid<2> as Topology<T>>::edge_cut(&&g, p)),
                    back(<coupe::Grid<2> as Topology<T>>::lambda_cut(&g, p, wv.clone())),
                    back(<&&coupe::Grid<2> as Topology<T>>::lambda_cut(&&&g, p, wv.par_iter().cloned())),
                ]
            } else {
                let g = coupe::Grid::new_3d(nz_(w), nz_(h), nz_(d));
                [
                    back(<coupe::Grid<3> as Topology<T>>::edge_cut(&g, p)),
                    back(<&coupe::Grid<3> as Topology<T>>::edge_cut(&&g, p)),
                    back(<coupe::Grid<3> as Topology<T>>::lambda_cut(&g, p, wv.clone())),
                    back(<&&coupe::Grid<3> as Topology<T>>::lambda_cut(&&&g, p, wv.par_iter().cloned())),
                ]
            }
        })
    })
}

fn nz_(x: usize) -> NonZeroUsize {
    NonZeroUsize::new(x).unwrap()
}

fn plumb_grid(
    ctx: &mut Ctx,
    v: &mut Verdicts,
    w: usize,
    h: usize,
    d: usize,
    dim: usize,
    p: &[usize],
    ws: &Vec<i64>,
    base_e: &Res<i64>,
    base_l: &Res<i64>,
) {
    if dim == 2 {
        let g = coupe::Grid::new_2d(nz_(w), nz_(h));
        let l = each_w!(ws, |x| <coupe::Grid<2> as Topology<i64>>::lambda_cut(&g, p, x));
        check_all(ctx, v, "input-type-dependent@lambda_cut", "Grid<2> lambda_cut", l, base_l);
        let l = each_w!(ws, |x| <&coupe::Grid<2> as Topology<i64>>::lambda_cut(&&g, p, x));
        check_all(ctx, v, "input-type-dependent@lambda_cut", "&Grid<2> lambda_cut", l, base_l);
        if ws.len() == 9 {
            let arr: [i64; 9] = ws[..].try_into().unwrap();
            let l = vec![("[i64; 9]", guarded(|| <coupe::Grid<2> as Topology<i64>>::lambda_cut(&g, p, arr)))];
            check_all(ctx, v, "input-type-dependent@lambda_cut", "Grid<2> lambda_cut", l, base_l);
        }
    } else {
        let g = coupe::Grid::new_3d(nz_(w), nz_(h), nz_(d));
        let l = each_w!(ws, |x| <coupe::Grid<3> as Topology<i64>>::lambda_cut(&g, p, x));
        check_all(ctx, v, "input-type-dependent@lambda_cut", "Grid<3> lambda_cut", l, base_l);
        let l = each_w!(ws, |x| <&coupe::Grid<3> as Topology<i64>>::lambda_cut(&&g, p, x));
        check_all(ctx, v, "input-type-dependent@lambda_cut", "&Grid<3> lambda_cut", l, base_l);
    }
    let want = match (base_e, base_l) {
        (Ok(e), Ok(l)) => Ok([Some(*e as i128), Some(*e as i128), Some(*l as i128), Some(*l as i128)]),
        _ => return,
    };
    let has_zero = ws.iter().any(|&x| x == 0);
    macro_rules! ty {
        ($T:ty) => {{
            ctx.count(&format!("plumbing:type:{}", <$T as W16>::NAME));
            let r = typed_grid::<$T>(w, h, d, dim, p, ws, 0);
            if r != want {
                v.add("input-type-dependent@edge_cut/lambda_cut", format!("Grid with {} weights: {:?}, i64: {:?}", <$T as W16>::NAME, r, want));
            }
            if <$T as W16>::neg_zero().is_some() && has_zero {
                for nz in [1u8, 2] {
                    ctx.count(if nz == 1 { "special:negzero:all" } else { "special:negzero:all-but-one" });
                    let r = typed_grid::<$T>(w, h, d, dim, p, ws, nz);
                    if r != want {
                        v.add("negzero-dependent@lambda_cut", format!("Grid with {} weights with -0.0 (mode {}): {:?}, with +0.0: {:?}", <$T as W16>::NAME, nz, r, want));
                    }
                }
            }
        }};
    }
    ty!(i32);
    ty!(u32);
    ty!(u64);
    ty!(usize);
    ty!(f64);
    ty!(f32);
}

/// `(loads, max_imbalance, imbalance bits with +0 for any zero, imbalance_target)`
type ImbOut = (Vec<Option<i128>>, Option<i128>, u64, Option<i128>);

fn norm_bits(x: f64) -> u64 {
    if x == 0.0 { 0 } else { x.to_bits() }
}

fn typed_imb<T: W16>(k: usize, p: &[usize], ws: &[i64], ts: &[i64], nz: u8) -> Res<ImbOut> {
    let w: Vec<T> = conv_vec(ws, nz);
    let t: Vec<T> = conv_vec(ts, 0);
    let pool = &lpools()[1];
    guarded(|| {
        pool.install(|| {
            (
                coupe::imbalance::compute_parts_load(p, k, w.clone()).into_iter().map(back).collect(),
                back(coupe::imbalance::max_imbalance(k, p, w.par_iter().cloned())),
                norm_bits(coupe::imbalance::imbalance(k, p, w.clone())),
                back(coupe::imbalance::imbalance_target(&t, p, w.par_iter().cloned())),
            )
        })
    })
}

fn plumb_imb(ctx: &mut Ctx, v: &mut Verdicts, k: usize, p: &[usize], ws: &Vec<i64>, ts: &[i64]) {
    let base = typed_imb::<i64>(k, p, ws, ts, 0);
    let Ok(b) = &base else { return };
    // adaptors
    let l = each_w!(ws, |w| coupe::imbalance::compute_parts_load(p, k, w).into_iter().map(back).collect::<Vec<_>>());
    check_all(ctx, v, "input-type-dependent@compute_parts_load", "compute_parts_load", l, &Ok(b.0.clone()));
    let l = each_w!(ws, |w| back(coupe::imbalance::max_imbalance(k, p, w)));
    check_all(ctx, v, "input-type-dependent@max_imbalance", "max_imbalance", l, &Ok(b.1));
    let l = each_w!(ws, |w| norm_bits(coupe::imbalance::imbalance(k, p, w)));
    check_all(ctx, v, "input-type-dependent@imbalance", "imbalance", l, &Ok(b.2));
    let l = each_w!(ws, |w| back(coupe::imbalance::imbalance_target(ts, p, w)));
    check_all(ctx, v, "input-type-dependent@imbalance_target", "imbalance_target", l, &Ok(b.3));
    // element types, where every value and every sum is exact in the type
    let total: i128 = ws.iter().map(|&x| x as i128).sum();
    let lo = ws.iter().cloned().min().unwrap_or(0);
    let has_zero = ws.iter().any(|&x| x == 0);
    macro_rules! ty {
        ($T:ty) => {{
            let signed = <$T as W16>::SIGNED;
            if total < <$T as W16>::MAX_EXACT && (signed || lo >= 0) {
                ctx.count(&format!("plumbing:type:{}", <$T as W16>::NAME));
                // unsigned `load - target` must not underflow: targets 0 there
                let zeros = vec![0i64; ts.len()];
                let tt: &[i64] = if signed { ts } else { &zeros };
                let want = if signed { base.clone() } else { typed_imb::<i64>(k, p, ws, tt, 0) };
                let r = typed_imb::<$T>(k, p, ws, tt, 0);
                if r != want {
                    v.add("input-type-dependent@imbalance", format!("{} weights: {:?}, i64: {:?}", <$T as W16>::NAME, r, want));
                }
                if <$T as W16>::neg_zero().is_some() && has_zero {
                    for nz in [1u8, 2] {
                        ctx.count(if nz == 1 { "special:negzero:all" } else { "special:negzero:all-but-one" });
                        let r = typed_imb::<$T>(k, p, ws, tt, nz);
                        if r != want {
                            v.add("negzero-dependent@imbalance", format!("{} weights with -0.0 (mode {}): {:?}, with +0.0: {:?}", <$T as W16>::NAME, nz, r, want));
                        }
                    }
                }
            }
        }};
    }
    ty!(i32);
    ty!(u32);
    ty!(u64);
    ty!(usize);
    ty!(f64);
    ty!(f32);
}

// ---- calling context

const CTX_K: [usize; 6] = [2, 3, 64, 257, 65, 300];

struct CsrIn {
    n: usize,
    indptr: Vec<usize>,
    indices: Vec<usize>,
    data: Vec<i64>,
    rows: Vec<Vec<(usize, i64)>>,
    sym: bool,
    p: Vec<usize>,
    ws: Vec<i64>,
}

fn ctx_csr_input(seed: u64, j: usize) -> CsrIn {
    let ju = j as u64;
    let n = 1500 + (mix(ju, 11, seed) % 3000) as usize;
    let (gk, s, em) = (j % 2, 2 + (mix(ju, 12, seed) % 200) as usize, if j % 3 == 0 { 2 } else { 0 });
    let off = if j % 5 == 0 { 3 } else { 0 };
    let (pm, k, wm, sj) = (j % 6, CTX_K[j % 6], if j % 2 == 0 { 1 } else { 3 }, mix(ju, 13, seed));
    let rows: Vec<Vec<(usize, i64)>> = (0..n).map(|i| lrow(gk, s, em, n, sj, i)).collect();
    let mut indptr = vec![off];
    let mut indices = vec![];
    let mut data = vec![];
    for r in &rows {
        for &(u, w) in r {
            indices.push(u);
            data.push(w);
        }
        indptr.push(off + indices.len());
    }
    CsrIn {
        n,
        indptr,
        indices,
        data,
        rows,
        sym: gk == 0,
        p: (0..n).map(|i| lpart(pm, k, n, sj, i)).collect(),
        ws: (0..n).map(|i| lweight(wm, sj, i)).collect(),
    }
}

fn ctx_csr_call(x: &CsrIn) -> [i64; 4] {
    let view: View = CsMatView::new((x.n, x.n), &x.indptr[..], &x.indices[..], &x.data[..]);
    [
        <&View as Topology<i64>>::edge_cut(&&view, &x.p),
        <View as Topology<i64>>::edge_cut(&view, &x.p),
        <&View as Topology<i64>>::lambda_cut(&&view, &x.p, x.ws.clone()),
        <View as Topology<i64>>::lambda_cut(&view, &x.p, x.ws.par_iter().cloned()),
    ]
}

struct GridIn {
    g: (usize, usize, usize, usize),
    p: Vec<usize>,
    ws: Vec<i64>,
}

fn ctx_grid_input(seed: u64, j: usize) -> GridIn {
    let ju = j as u64;
    let (a, b, c) = (mix(ju, 14, seed) as usize, mix(ju, 15, seed) as usize, mix(ju, 16, seed) as usize);
    let g = if j % 2 == 0 { (2, 20 + a % 60, 20 + b % 60, 1) } else { (3, 5 + a % 12, 5 + b % 12, 5 + c % 12) };
    let n = g.1 * g.2 * g.3;
    let (pm, k, wm, sj) = (j % 6, CTX_K[j % 6], if j % 2 == 0 { 1 } else { 3 }, mix(ju, 13, seed));
    GridIn { g, p: (0..n).map(|i| lpart(pm, k, n, sj, i)).collect(), ws: (0..n).map(|i| lweight(wm, sj, i)).collect() }
}

fn ctx_grid_call(x: &GridIn) -> [i64; 4] {
    let g = if x.g.0 == 2 { G::D2(coupe::Grid::new_2d(nz(x.g.1), nz(x.g.2))) } else { G::D3(coupe::Grid::new_3d(nz(x.g.1), nz(x.g.2), nz(x.g.3))) };
    [g.edge_cut(&x.p), g.edge_cut(&x.p), g.lambda_cut(&x.p, x.ws.clone()), g.lambda_cut(&x.p, x.ws.clone())]
}

struct ImbIn {
    k: usize,
    p: Vec<usize>,
    ws: Vec<i64>,
}

fn ctx_imb_input(seed: u64, j: usize) -> ImbIn {
    let ju = j as u64;
    let n = 2000 + (mix(ju, 11, seed) % 5000) as usize;
    let (k, sj) = (CTX_K[j % 6], mix(ju, 13, seed));
    let wm = [1usize, 2, 3, 4][j % 4];
    ImbIn { k, p: (0..n).map(|i| lpart(j % 6, k, n, sj, i)).collect(), ws: (0..n).map(|i| limb_weight(wm, n, sj, i)).collect() }
}

fn ctx_imb_call(x: &ImbIn) -> (Vec<i64>, i64, u64) {
    (
        coupe::imbalance::compute_parts_load(&x.p, x.k, x.ws.clone()),
        coupe::imbalance::max_imbalance(x.k, &x.p, x.ws.par_iter().cloned()),
        coupe::imbalance::imbalance(x.k, &x.p, x.ws.clone()).to_bits(),
    )
}

/// The same calls sequentially (1 thread), on the global pool, from inside a rayon task and all
/// at once on pools of 4 and 16 threads; returns the sequential results and the contexts that
/// disagree with them.
fn in_contexts<I: Sync, R: PartialEq + Send + Clone + std::fmt::Debug>(
    ctx: &mut Ctx,
    inputs: &[I],
    call: impl Fn(&I) -> R + Sync + Send,
) -> (Res<Vec<R>>, Vec<String>) {
    let mut bad = vec![];
    let seq = guarded(|| lpools()[0].install(|| inputs.iter().map(&call).collect::<Vec<R>>()));
    let mut cmp = |name: &str, r: Res<Vec<R>>, ctx: &mut Ctx| {
        ctx.count(&format!("context:{}", name));
        if r != seq {
            let which = match (&r, &seq) {
                (Ok(a), Ok(b)) => format!("{} of {} results differ", a.iter().zip(b).filter(|(x, y)| x != y).count(), b.len()),
                _ => format!("{:?}", r.as_ref().err()),
            };
            bad.push(format!("{}: {}", name, which));
        }
    };
    // (a) the global pool
    cmp("global-pool", guarded(|| inputs.iter().map(&call).collect()), ctx);
    // (c) from inside a rayon task: both sides of a join, and a spawned scope task
    let p4 = &pools()[1];
    cmp(
        "inside-join",
        guarded(|| {
            p4.install(|| {
                inputs
                    .iter()
                    .map(|x| {
                        let (a, b) = coupe::rayon::join(|| call(x), || call(x));
                        assert!(a == b, "the two sides of a join disagree");
                        a
                    })
                    .collect()
            })
        }),
        ctx,
    );
    cmp(
        "inside-scope-spawn",
        guarded(|| {
            let slots: Vec<std::sync::Mutex<Option<R>>> = inputs.iter().map(|_| std::sync::Mutex::new(None)).collect();
            p4.scope(|s| {
                for (x, slot) in inputs.iter().zip(&slots) {
                    let call = &call;
                    s.spawn(move |_| {
                        *slot.lock().unwrap() = Some(call(x));
                    });
                }
            });
            slots.into_iter().map(|m| m.into_inner().unwrap().unwrap()).collect()
        }),
        ctx,
    );
    // (d) all at once
    for (name, pool) in [("concurrent@4", &pools()[1]), ("concurrent@16", &pools()[2])] {
        cmp(name, guarded(|| pool.install(|| inputs.par_iter().map(&call).collect())), ctx);
    }
    (seq, bad)
}

fn run_cctx(ctx: &mut Ctx, op: &str, t: &mut Toks) {
    let kind = t.0.next().unwrap_or("").to_string();
    let Some(a) = parse_nats(t, 2) else {
        ctx.record(op.to_string(), "bad-op".into(), false);
        return;
    };
    let (m, seed) = (a[0], a[1] as u64);
    if m > 64 || !["csr", "grid", "imb"].contains(&kind.as_str()) {
        ctx.record(op.to_string(), "bad-op".into(), false);
        return;
    }
    let mut v = Verdicts(vec![]);
    let out = match kind.as_str() {
        "csr" => {
            let inputs: Vec<CsrIn> = (0..m).map(|j| ctx_csr_input(seed, j)).collect();
            let (seq, bad) = in_contexts(ctx, &inputs, ctx_csr_call);
            for b in bad {
                v.add("context-dependent@edge_cut/lambda_cut", b);
            }
            match seq {
                Err(c) => c,
                Ok(rs) => {
                    for (x, r) in inputs.iter().zip(&rs) {
                        let want_e = linear_edge_cut(&x.rows, &x.p, x.sym);
                        let want_l = linear_lambda(&x.rows, &x.p, &x.ws);
                        if want_e != Ok(r[0]) || want_e != Ok(r[1]) || want_l != r[2] || want_l != r[3] {
                            v.add("context-oracle", format!("{:?} but the definitions give {:?} / {}", r, want_e, want_l));
                        }
                    }
                    rs.iter().map(|r| format!("{}:{}", r[0], r[2])).collect::<Vec<_>>().join(" ")
                }
            }
        }
        "grid" => {
            let inputs: Vec<GridIn> = (0..m).map(|j| ctx_grid_input(seed, j)).collect();
            let (seq, bad) = in_contexts(ctx, &inputs, ctx_grid_call);
            for b in bad {
                v.add("context-dependent@Grid", b);
            }
            match seq {
                Err(c) => c,
                Ok(rs) => {
                    for (x, r) in inputs.iter().zip(&rs) {
                        let (w, h, d) = (x.g.1, x.g.2, x.g.3);
                        let mut want_e = 0i64;
                        let mut want_l = 0i64;
                        let mut i = 0usize;
                        let mut buf = vec![];
                        for z in 0..d {
                            for y in 0..h {
                                for xx in 0..w {
                                    buf.clear();
                                    let mut nb = |j: usize, fwd: bool| {
                                        if x.p[i] != x.p[j] {
                                            buf.push(x.p[j]);
                                            if fwd {
                                                want_e += 1;
                                            }
                                        }
                                    };
                                    if xx + 1 < w { nb(i + 1, true) }
                                    if y + 1 < h { nb(i + w, true) }
                                    if z + 1 < d { nb(i + w * h, true) }
                                    if xx > 0 { nb(i - 1, false) }
                                    if y > 0 { nb(i - w, false) }
                                    if z > 0 { nb(i - w * h, false) }
                                    buf.sort_unstable();
                                    buf.dedup();
                                    want_l += x.ws[i] * buf.len() as i64;
                                    i += 1;
                                }
                            }
                        }
                        if r[0] != want_e || r[2] != want_l {
                            v.add("context-oracle", format!("Grid {:?}: {:?} but the definitions give {} / {}", x.g, r, want_e, want_l));
                        }
                    }
                    rs.iter().map(|r| format!("{}:{}", r[0], r[2])).collect::<Vec<_>>().join(" ")
                }
            }
        }
        _ => {
            let inputs: Vec<ImbIn> = (0..m).map(|j| ctx_imb_input(seed, j)).collect();
            let (seq, bad) = in_contexts(ctx, &inputs, ctx_imb_call);
            for b in bad {
                v.add("context-dependent@imbalance", b);
            }
            match seq {
                Err(c) => c,
                Ok(rs) => {
                    for (x, r) in inputs.iter().zip(&rs) {
                        let mut l = vec![0i64; x.k];
                        for (&q, &w) in x.p.iter().zip(&x.ws) {
                            l[q] += w;
                        }
                        let mx = l.iter().max().unwrap() - l.iter().min().unwrap();
                        if l != r.0 || mx != r.1 {
                            v.add("context-oracle", format!("loads / max_imbalance {:?} but the definitions give {:?}", (&r.0, r.1), (&l, mx)));
                        }
                    }
                    rs.iter().map(|r| format!("{}:{:x}", r.1, r.2)).collect::<Vec<_>>().join(" ")
                }
            }
        }
    };
    let idx = ctx.record(op.to_string(), out, m >= 2);
    for (sig, what) in v.0 {
        ctx.fail(idx, sig, what);
    }
}

// ---- f64 weights scaled by exact powers of two

fn run_fimb(ctx: &mut Ctx, op: &str, t: &mut Toks) {
    let Some(a) = parse_nats(t, 3) else {
        ctx.record(op.to_string(), "bad-op".into(), false);
        return;
    };
    let (n, k, seed) = (a[0], a[1], a[2] as u64);
    if n == 0 || k == 0 || n > 100_000 || k > 10_000 {
        ctx.record(op.to_string(), "bad-op".into(), false);
        return;
    }
    let p: Vec<usize> = (0..n).map(|i| lpart(2, k, n, seed, i)).collect();
    let ws: Vec<i64> = (0..n).map(|i| limb_weight(1, n, seed, i)).collect();
    let pool = &lpools()[1];
    let base = guarded(|| {
        pool.install(|| {
            (
                coupe::imbalance::compute_parts_load(&p, k, ws.clone()),
                coupe::imbalance::max_imbalance(k, &p, ws.clone()),
                coupe::imbalance::imbalance(k, &p, ws.clone()),
            )
        })
    });
    let mut v = Verdicts(vec![]);
    let out = match &base {
        Err(c) => c.clone(),
        Ok((loads, mx, imb)) => {
            let total: i64 = loads.iter().sum();
            // the last finite binade: total * 2^top is finite, twice that is not
            let top = 1023 - (63 - (total.max(1) as u64).leading_zeros() as i32);
            for (e, class) in [(-1000, "normal-small"), (-1022, "smallest-normal"), (512, "normal-large"), (top, "just-below-overflow"), (-1074, "subnormal")] {
                ctx.count(&format!("special:scale:{}", class));
                let sc = |x: i64| -> f64 {
                    // x * 2^e exactly, in two steps to stay inside the exponent range of powi
                    let half = e / 2;
                    (x as f64) * 2f64.powi(half) * 2f64.powi(e - half)
                };
                let wf: Vec<f64> = ws.iter().map(|&x| sc(x)).collect();
                let r = guarded(|| {
                    pool.install(|| {
                        (
                            coupe::imbalance::compute_parts_load(&p, k, wf.clone()),
                            coupe::imbalance::max_imbalance(k, &p, wf.clone()),
                            coupe::imbalance::imbalance(k, &p, wf.par_iter().cloned()),
                        )
                    })
                });
                match r {
                    Err(c) => v.add("special-value-panic@imbalance", format!("weights x 2^{}: {}", e, c)),
                    Ok((lf, mf, imf)) => {
                        let want_l: Vec<f64> = loads.iter().map(|&x| sc(x)).collect();
                        if lf != want_l || mf != sc(*mx) {
                            v.add("scale-dependent@compute_parts_load", format!("weights x 2^{}: loads / max_imbalance are not the scaled integers", e));
                        }
                        if !imf.is_finite() {
                            v.add("special-value@imbalance", format!("weights x 2^{}: imbalance {}", e, imf));
                        } else if class == "subnormal" {
                            // the quotient total/K is rounded to a multiple of 2^-1074: a few ulps of a
                            // number with few bits; only closeness can be required
                            if total > 0 && (imf - imb).abs() > 1e-3 * (1.0 + imb.abs()) * (k as f64) {
                                v.add("special-value@imbalance", format!("subnormal weights: imbalance {} against {}", imf, imb));
                            }
                        } else if norm_bits(imf) != norm_bits(*imb) {
                            v.add("scale-dependent@imbalance", format!("weights x 2^{}: imbalance {:?}, unscaled {:?}", e, imf, imb));
                        }
                    }
                }
            }
            // 64 subnormal weights of 1e-310 in 4 equal parts: perfectly balanced
            ctx.count("special:subnormal:64x1e-310");
            let p4: Vec<usize> = (0..64).map(|i| i % 4).collect();
            match guarded(|| coupe::imbalance::imbalance(4, &p4, vec![1e-310f64; 64])) {
                Ok(x) if x == 0.0 => {}
                other => v.add("special-value@imbalance", format!("64 weights of 1e-310 in 4 equal parts: {:?}", other)),
            }
            format!("max={} imb={:x}", mx, imb.to_bits())
        }
    };
    let idx = ctx.record(op.to_string(), out, k >= 2 && n >= 2);
    for (sig, what) in v.0 {
        ctx.fail(idx, sig, what);
    }
}

/// Partitions whose ids collide modulo 64 inside one neighbourhood (63, 64, 65 with 0, 1, 127, …).
fn ids_mod64_partition(ctx: &mut Ctx, n: usize) -> Vec<usize> {
    const IDS: [usize; 12] = [0, 1, 63, 64, 65, 127, 128, 129, 191, 192, 255, 256];
    (0..n).map(|_| IDS[ctx.rng.usize(IDS.len())]).collect()
}

fn gen_special(ctx: &mut Ctx) {
    let quick = ctx.quick();
    let seed = |ctx: &mut Ctx| ctx.rng.below(1 << 20);
    // 1. ids 63 / 64 / 65 in one neighbourhood: explicit stars, random small graphs and grids
    run_op(ctx, "csr 5 0 3 4 5 6 6 1 2 3 0 0 0 6 1 1 1 1 1 1 4 64 63 64 65 4 1 1 1 1");
    run_op(ctx, "csr 5 0 3 4 5 6 6 1 2 3 0 0 0 6 1 1 1 1 1 1 4 0 63 64 65 4 5 1 1 1");
    run_op(ctx, "csr 5 0 3 4 5 6 6 1 2 3 0 0 0 6 1 1 1 1 1 1 4 1 65 129 193 4 5 1 1 1");
    for _ in 0..ctx.budget(60, 600) {
        ctx.count("special:ids63-64-65");
        let n = 4 + ctx.rng.usize(20);
        let mut rows: Vec<Vec<(usize, i64)>> = vec![vec![]; n];
        for _ in 0..3 * n {
            let (a, b) = (ctx.rng.usize(n), ctx.rng.usize(n));
            if a != b && !rows[a].iter().any(|e| e.0 == b) {
                rows[a].push((b, 1));
                rows[b].push((a, 1));
            }
        }
        for r in rows.iter_mut() {
            r.sort();
        }
        let p = ids_mod64_partition(ctx, n);
        let ws = rand_weights(ctx, n);
        let op = csr_op(&rows, 0, &p, &ws);
        run_op(ctx, &op);
        let (w, h) = (2 + ctx.rng.usize(5), 2 + ctx.rng.usize(5));
        let p = ids_mod64_partition(ctx, w * h);
        let ws = rand_weights(ctx, w * h);
        let op = grid_op(w, h, None, &p, &ws);
        run_op(ctx, &op);
    }
    // 2. plumbing: (n, kind, stride, em, off, pm, k, wm) - weights small enough for every type
    let mut pc: Vec<[usize; 8]> = vec![[2999, 0, 50, 2, 0, 5, 300, 3], [4099, 1, 64, 2, 3, 2, 64, 3], [1, 0, 2, 0, 0, 3, 2, 1], [2, 0, 2, 2, 0, 3, 2, 3]];
    let mut pg2: Vec<[usize; 5]> = vec![[3, 3, 5, 300, 3], [67, 61, 2, 65, 3]];
    let mut pg3: Vec<[usize; 6]> = vec![[11, 13, 17, 5, 300, 3]];
    // (n, k, pm, wm): wm 4 has zeros and fits every type, 2 only u64/f64, 3 (2^61/n) only u64
    let mut pi: Vec<[usize; 4]> = vec![[5003, 64, 2, 4], [5003, 257, 5, 1], [4099, 7, 0, 2], [8193, 3, 2, 3], [2, 2, 3, 4], [3, 2, 2, 3]];
    if !quick {
        pc.extend([[8193, 0, 4096, 2, 0, 0, 64, 3], [5000, 1, 3, 0, 2, 1, 2, 1], [3, 0, 2, 2, 0, 3, 3, 3], [7001, 0, 2, 2, 0, 5, 300, 3]]);
        pg2.extend([[4097, 2, 0, 2, 3], [1, 9, 3, 3, 3], [9, 1, 5, 300, 1]]);
        pg3.extend([[2, 3, 5, 3, 4, 3], [19, 7, 23, 2, 257, 1]]);
        pi.extend([[20001, 257, 0, 4], [16385, 63, 2, 3], [65537, 64, 2, 1], [9001, 300, 5, 2], [70001, 5, 2, 3]]);
    }
    for c in pc {
        let s = seed(ctx);
        run_op(ctx, &format!("pcsr {} {} {} {} {} {} {} {} {}", c[0], c[1], c[2], c[3], c[4], c[5], c[6], c[7], s));
    }
    for c in pg2 {
        let s = seed(ctx);
        run_op(ctx, &format!("pgrid2 {} {} {} {} {} {}", c[0], c[1], c[2], c[3], c[4], s));
    }
    for c in pg3 {
        let s = seed(ctx);
        run_op(ctx, &format!("pgrid3 {} {} {} {} {} {} {}", c[0], c[1], c[2], c[3], c[4], c[5], s));
    }
    for c in pi {
        let s = seed(ctx);
        run_op(ctx, &format!("pimb {} {} {} {} {}", c[0], c[1], c[2], c[3], s));
    }
    // 3. calling contexts
    let m = if quick { 12 } else { 32 };
    for kind in ["csr", "grid", "imb"] {
        let s = seed(ctx);
        run_op(ctx, &format!("cctx {} {} {}", kind, m, s));
    }
    // 4. f64 weights over the whole exponent range
    for (n, k) in if quick { vec![(1021usize, 4usize), (5003, 64)] } else { vec![(1021, 4), (5003, 64), (2, 2), (20001, 257), (64, 3)] } {
        let s = seed(ctx);
        run_op(ctx, &format!("fimb {} {} {}", n, k, s));
    }
    ctx.notes.push("special/plumbing/context stream: ids 63/64/65 in one neighbourhood; pcsr/pgrid/pimb (every topology reference depth, weight adaptor and element type, -0.0); cctx (global pool, inside join/scope, 4- and 16-thread concurrent calls); fimb (f64 weights scaled to subnormal … last finite binade)".into());
}

/// Process-level state: which instantiation runs first in the process is drawn from the seed.
fn gen_first_calls(ctx: &mut Ctx) {
    let mut firsts: Vec<(&str, String)> = vec![
        ("grid3", "grid3 2 3 2 12 0 1 0 1 1 0 0 1 1 0 1 0 12 1 2 3 1 2 3 1 2 3 1 2 3".to_string()),
        ("grid2", "grid2 3 3 9 0 0 1 0 1 0 1 1 0 9 1 1 1 1 1 1 1 1 1".to_string()),
        ("csr-i64", "csr 4 0 1 3 4 4 1 0 2 1 4 7 7 9 9 3 0 1 0 3 1 1 1".to_string()),
        ("typed-f64-first", "pcsr 301 0 7 2 0 5 300 3 5".to_string()),
        ("imb-i64", "imb 2 4 0 1 0 1 4 3 1 2 2 2 0 0".to_string()),
        ("typed-imb-first", "pimb 257 3 2 4 9".to_string()),
        ("concurrent-first", "cctx imb 8 3".to_string()),
    ];
    ctx.rng.shuffle(&mut firsts);
    ctx.count(&format!("context:first-call={}", firsts[0].0));
    for (_, op) in firsts {
        run_op(ctx, &op);
    }
}

pub fn run_op(ctx: &mut Ctx, op: &str) {
    if ctx.hang_limit_reached() {
        return;
    }
    let mut t = Toks(op.split_whitespace());
    match t.0.next() {
        Some("csr") => run_csr(ctx, op, &mut t, false),
        Some("csc") => run_csr(ctx, op, &mut t, true),
        Some("grid2") => run_grid(ctx, op, &mut t, 2),
        Some("grid3") => run_grid(ctx, op, &mut t, 3),
        Some("nbrs2") => run_nbrs(ctx, op, &mut t, 2),
        Some("nbrs3") => run_nbrs(ctx, op, &mut t, 3),
        Some("imb") => run_imb(ctx, op, &mut t),
        Some("lcsr") => run_lcsr(ctx, op, &mut t, false),
        Some("lgrid2") => run_lgrid(ctx, op, &mut t, 2, false),
        Some("lgrid3") => run_lgrid(ctx, op, &mut t, 3, false),
        Some("limb") => run_limb(ctx, op, &mut t, false),
        Some("pcsr") => run_lcsr(ctx, op, &mut t, true),
        Some("pgrid2") => run_lgrid(ctx, op, &mut t, 2, true),
        Some("pgrid3") => run_lgrid(ctx, op, &mut t, 3, true),
        Some("pimb") => run_limb(ctx, op, &mut t, true),
        Some("cctx") => run_cctx(ctx, op, &mut t),
        Some("fimb") => run_fimb(ctx, op, &mut t),
        _ => {
            ctx.record(op.to_string(), "bad-op".into(), false);
        }
    }
}

// ------------------------------------------------------------------ generator

fn csr_op(rows: &[Vec<(usize, i64)>], offset: usize, p: &[usize], ws: &[i64]) -> String {
    let mut indptr = vec![offset];
    let mut indices = vec![];
    let mut data = vec![];
    for r in rows {
        for &(u, w) in r {
            indices.push(u);
            data.push(w);
        }
        indptr.push(offset + indices.len());
    }
    format!("csr {} {} {} {} {}", fmt_vec(&indptr), fmt_vec(&indices), fmt_vec(&data), fmt_vec(p), fmt_vec(ws))
}

/// Part ids are arbitrary `usize` values for the cut functions: ids that collide when truncated
/// (to 8, 16, 32 bits), the extremes, and small ids mixed with them.
fn wide_partition(ctx: &mut Ctx, n: usize) -> Vec<usize> {
    const IDS: [usize; 12] = [
        0,
        1,
        255,
        256,
        65_536,
        1 << 32,
        (1 << 32) + 1,
        1 << 33,
        1 << 63,
        (1 << 63) + 1,
        usize::MAX - 1,
        usize::MAX,
    ];
    let k = 2 + ctx.rng.usize(4);
    let pick: Vec<usize> = (0..k).map(|_| IDS[ctx.rng.usize(IDS.len())]).collect();
    (0..n).map(|_| pick[ctx.rng.usize(k)]).collect()
}

fn rand_partition(ctx: &mut Ctx, n: usize) -> Vec<usize> {
    let k = 1 + ctx.rng.usize(5);
    match ctx.rng.usize(6) {
        0 => vec![ctx.rng.usize(k); n],                                // one part
        1 => (0..n).map(|i| i * k / n.max(1)).collect(),               // contiguous blocks
        2 => (0..n).map(|i| i % k).collect(),                          // stripes
        3 => (0..n).map(|_| ctx.rng.usize(k) * 1000 + 7).collect(),    // sparse part ids
        _ => (0..n).map(|_| ctx.rng.usize(k)).collect(),
    }
}

fn rand_weights(ctx: &mut Ctx, n: usize) -> Vec<i64> {
    match ctx.rng.usize(5) {
        0 => vec![1; n],
        1 => (0..n).map(|_| ctx.rng.range(0, 3)).collect(),
        2 => (0..n).map(|_| ctx.rng.range(-5, 20)).collect(),
        3 => (0..n).map(|_| ctx.rng.range(0, 1_000_000_000)).collect(),
        _ => (0..n).map(|_| ctx.rng.range(1, 100)).collect(),
    }
}

fn gen_csr(ctx: &mut Ctx) {
    let n = match ctx.rng.usize(10) {
        0 => ctx.rng.usize(3),
        1..=6 => 2 + ctx.rng.usize(10),
        _ => 8 + ctx.rng.usize(if ctx.quick() { 30 } else { 60 }),
    };
    let shape = ctx.rng.usize(8);
    let density = 1 + ctx.rng.usize(6); // expected entries per row
    let mut rows: Vec<Vec<(usize, i64)>> = vec![vec![]; n];
    let wmode = ctx.rng.usize(4);
    let weight = |ctx: &mut Ctx| match wmode {
        0 => 1,
        1 => ctx.rng.range(1, 9),
        2 => ctx.rng.range(-9, 9), // negative and explicit-zero entries
        _ => ctx.rng.range(1, 1_000_000_000),
    };
    let has = |r: &Vec<(usize, i64)>, u: usize| r.iter().any(|e| e.0 == u);
    let name = match shape {
        0..=2 => {
            // symmetric, maybe with a diagonal
            for _ in 0..n * density / 2 {
                let (a, b) = (ctx.rng.usize(n), ctx.rng.usize(n));
                if a == b && ctx.rng.chance(1, 2) {
                    continue;
                }
                if !has(&rows[a], b) {
                    let w = weight(ctx);
                    rows[a].push((b, w));
                    if a != b {
                        rows[b].push((a, w));
                    }
                }
            }
            "symmetric"
        }
        3 => {
            // same pattern both ways, different weights
            for _ in 0..n * density / 2 {
                let (a, b) = (ctx.rng.usize(n), ctx.rng.usize(n));
                if a != b && !has(&rows[a], b) {
                    rows[a].push((b, weight(ctx)));
                    rows[b].push((a, weight(ctx)));
                }
            }
            "asym_weights"
        }
        4 => {
            for _ in 0..n * density {
                let (a, b) = (ctx.rng.usize(n), ctx.rng.usize(n));
                if !has(&rows[a], b) {
                    rows[a].push((b, weight(ctx)));
                }
            }
            "asym_pattern"
        }
        5 => {
            // only above / only below the diagonal
            let upper = ctx.rng.chance(1, 2);
            for _ in 0..n * density {
                let (a, b) = (ctx.rng.usize(n), ctx.rng.usize(n));
                if a != b {
                    let (lo, hi) = (a.min(b), a.max(b));
                    let (r, c) = if upper { (lo, hi) } else { (hi, lo) };
                    if !has(&rows[r], c) {
                        rows[r].push((c, weight(ctx)));
                    }
                }
            }
            "triangular"
        }
        6 => {
            // few vertices carry everything: many empty rows / isolated vertices
            let hubs = 1 + ctx.rng.usize(2);
            for _ in 0..n * density / 2 {
                let (a, b) = (ctx.rng.usize(hubs.min(n.max(1))), ctx.rng.usize(n));
                if a != b && !has(&rows[a], b) {
                    let w = weight(ctx);
                    rows[a].push((b, w));
                    rows[b].push((a, w));
                }
            }
            "hubs_isolated"
        }
        _ => {
            // path / ring
            for i in 1..n {
                let w = weight(ctx);
                rows[i].push((i - 1, w));
                rows[i - 1].push((i, w));
            }
            "path"
        }
    };
    if n == 0 && shape != 0 {
        // keep the empty graph rare
    }
    for r in rows.iter_mut() {
        r.sort();
    }
    ctx.count(&format!("csr_shape:{}", name));
    let p = if ctx.rng.chance(1, 6) {
        ctx.count("csr_partition:wide-ids");
        wide_partition(ctx, n)
    } else {
        rand_partition(ctx, n)
    };
    let ws = rand_weights(ctx, n);
    // streams
    let stream = ctx.rng.usize(20);
    match stream {
        0 | 1 => {
            // separate stream: rows not sorted (precondition of the specialisation broken)
            for r in rows.iter_mut() {
                ctx.rng.shuffle(r);
            }
            if ctx.rng.chance(1, 3) && n > 0 {
                // a repeated entry
                let a = ctx.rng.usize(n);
                if let Some(&e) = rows[a].first() {
                    rows[a].push(e);
                }
            }
            ctx.count("csr_stream:unsorted");
            let op = csr_op(&rows, 0, &p, &ws);
            run_op(ctx, &op);
        }
        2 => {
            // a valid view whose indptr does not start at 0 (what `slice_outer` produces)
            ctx.count("csr_stream:offset_indptr");
            let off = 1 + ctx.rng.usize(5);
            let op = csr_op(&rows, off, &p, &ws);
            run_op(ctx, &op);
        }
        3 => {
            // malformed: partition too short, or weights of another length
            ctx.count("csr_stream:malformed");
            let mut p2 = p.clone();
            let mut ws2 = ws.clone();
            match ctx.rng.usize(3) {
                0 => {
                    p2.truncate(ctx.rng.usize(n.max(1)));
                }
                1 => {
                    ws2.truncate(ctx.rng.usize(n.max(1)));
                }
                _ => {
                    ws2.extend([3, 4, 5]);
                    p2.extend([0, 1]);
                }
            }
            let op = csr_op(&rows, 0, &p2, &ws2);
            run_op(ctx, &op);
        }
        _ => {
            ctx.count("csr_stream:valid");
            let name = if ctx.rng.chance(1, 3) { "csc" } else { "csr" };
            let op = mat_op(name, &rows, 0, &p, &ws);
            run_op(ctx, &op);
        }
    }
}

// ------------------------------------------------------------------ DEGREE x DISTINCT-PARTS seams
//
// Fast paths of lambda_cut / edge_cut are typically selected by the LENGTH of a row (small rows in
// a stack buffer or a bit set, long rows in a hash set; short rows scanned, long rows bisected at
// the diagonal) and sized by the number of DISTINCT PARTS they can hold. The streams below put a
// row of exactly `d` entries next to every number of distinct parts its closed neighbourhood can
// have (d + 1, d, d - 1, 2, 1, random) for every d in a contiguous range and around the powers of
// two, with the row's vertex first / last / in the middle (0, d, d/2 entries below the diagonal),
// in symmetric and non-symmetric matrices and under both storage flags.

fn mat_op(name: &str, rows: &[Vec<(usize, i64)>], offset: usize, p: &[usize], ws: &[i64]) -> String {
    let s = csr_op(rows, offset, p, ws);
    format!("{}{}", name, &s[3..])
}

/// Injective maps of small part ids: the number of distinct parts is unchanged.
fn seam_id(m: usize, x: usize) -> usize {
    match m {
        0 => x,
        1 => x * 1000 + 7,
        2 => (x << 32) | 5,
        _ => usize::MAX - x,
    }
}

const SEAM_MODES: [&str; 7] = ["d+1", "d(own-shared)", "d(pair-shared)", "d-1", "1", "2", "random"];

/// Local part ids of a closed neighbourhood of `d + 1` vertices (slot 0 = the vertex itself,
/// slots 1..=d its neighbours) with the number of distinct parts named by `SEAM_MODES[mode]`
/// (as far as `d` allows).
fn seam_parts(ctx: &mut Ctx, mode: usize, d: usize) -> Vec<usize> {
    let m = d + 1;
    let mut q: Vec<usize> = (0..m).collect();
    fn pair(ctx: &mut Ctx, q: &mut [usize], d: usize) -> usize {
        // two neighbours share a part; returns one of them
        let j = 1 + ctx.rng.usize(d);
        let k = if j == d { 1 } else { j + 1 };
        q[k] = q[j];
        j
    }
    match mode {
        0 => {}
        1 => {
            if d >= 1 {
                let j = 1 + ctx.rng.usize(d);
                q[0] = q[j];
            }
        }
        2 => {
            if d >= 2 {
                pair(ctx, &mut q, d);
            }
        }
        3 => {
            if d >= 2 {
                let j = pair(ctx, &mut q, d);
                q[0] = q[j];
            }
        }
        4 => {
            for x in q.iter_mut() {
                *x = 0;
            }
        }
        5 => {
            for x in q.iter_mut().skip(1) {
                *x = 1;
            }
        }
        _ => {
            let t = 1 + ctx.rng.usize(m);
            for x in q.iter_mut() {
                *x = ctx.rng.usize(t);
            }
        }
    }
    q
}

fn seam_edge_weight(ctx: &mut Ctx, wmode: usize) -> i64 {
    match wmode {
        0 => 1,
        1 => ctx.rng.range(1, 9),
        2 => ctx.rng.range(1, 1_000_000_000),
        _ => ctx.rng.range(-9, 9),
    }
}

fn seam_bucket(d: usize) -> &'static str {
    match d {
        0..=8 => "0-8",
        9..=16 => "9-16",
        17..=31 => "17-31",
        32 => "32",
        33..=63 => "33-63",
        64 => "64",
        65..=80 => "65-80",
        81..=127 => "81-127",
        128 => "128",
        129..=255 => "129-255",
        256 => "256",
        _ => ">256",
    }
}

const STAR_KINDS: [&str; 3] = ["star", "out-star", "in-star"];

/// A star of `d + 1` vertices around `hub`: symmetric (kind 0), only the hub's row (kind 1,
/// non-symmetric) or only the leaves' rows (kind 2, non-symmetric). The partition gives the hub's
/// closed neighbourhood the distinct-part count of `mode`.
#[allow(clippy::too_many_arguments)]
fn seam_star(ctx: &mut Ctx, d: usize, hub: usize, kind: usize, mode: usize, idm: usize, wmode: usize, name: &str) {
    let n = d + 1;
    let hub = hub.min(d);
    let mut rows: Vec<Vec<(usize, i64)>> = vec![vec![]; n];
    for u in 0..n {
        if u == hub {
            continue;
        }
        let w = seam_edge_weight(ctx, wmode);
        if kind != 2 {
            rows[hub].push((u, w));
        }
        if kind != 1 {
            rows[u].push((hub, w));
        }
    }
    let q = seam_parts(ctx, mode, d);
    let mut p = vec![0usize; n];
    let mut slot = 1;
    for (u, pu) in p.iter_mut().enumerate() {
        if u == hub {
            *pu = seam_id(idm, q[0]);
        } else {
            *pu = seam_id(idm, q[slot]);
            slot += 1;
        }
    }
    let mut ws: Vec<i64> = (0..n).map(|_| ctx.rng.range(1, 9)).collect();
    ws[hub] = 1000 + ctx.rng.range(0, 999);
    ctx.count(&format!("seam:{}:{}", STAR_KINDS[kind], name));
    ctx.count(&format!("seam:parts={}", SEAM_MODES[mode]));
    ctx.count(&format!("seam:degree={}", seam_bucket(d)));
    let op = mat_op(name, &rows, 0, &p, &ws);
    run_op(ctx, &op);
}

/// Every row has exactly `d` entries. kind 0: clique of d + 1 vertices, symmetric weights;
/// kind 1: clique with different weights in the two directions; kind 2: directed circulant
/// v -> v+1..v+d (mod n) on n = d + 1 + extra vertices (non-symmetric pattern); kind 3: symmetric
/// circulant v -> v±1..v±d/2 (d even). Partition kinds: part of vertex i is i (pk 0), i mod (d+1)
/// (pk 1), i mod d (pk 2), i mod (d-1) (pk 3), the `seam_parts` pattern of `mode` repeated (pk 4).
#[allow(clippy::too_many_arguments)]
fn seam_regular(ctx: &mut Ctx, d: usize, kind: usize, pk: usize, mode: usize, idm: usize, wmode: usize, name: &str) {
    let extra = if kind >= 2 { 1 + ctx.rng.usize(4) } else { 0 };
    let n = d + 1 + extra;
    let mut rows: Vec<Vec<(usize, i64)>> = vec![vec![]; n];
    match kind {
        0 | 1 => {
            for a in 0..n {
                for b in 0..a {
                    let w = seam_edge_weight(ctx, wmode);
                    let w2 = if kind == 1 { seam_edge_weight(ctx, wmode) } else { w };
                    rows[a].push((b, w));
                    rows[b].push((a, w2));
                }
            }
        }
        2 => {
            for (a, row) in rows.iter_mut().enumerate() {
                for j in 1..=d {
                    row.push(((a + j) % n, seam_edge_weight(ctx, wmode)));
                }
            }
        }
        _ => {
            for a in 0..n {
                for j in 1..=d / 2 {
                    let w = seam_edge_weight(ctx, wmode);
                    let b = (a + j) % n;
                    rows[a].push((b, w));
                    rows[b].push((a, w));
                }
            }
        }
    }
    for r in rows.iter_mut() {
        r.sort();
        r.dedup_by_key(|e| e.0);
    }
    let q = seam_parts(ctx, mode, d);
    let p: Vec<usize> = (0..n)
        .map(|i| {
            let x = match pk {
                0 => i,
                1 => i % (d + 1),
                2 => i % d.max(1),
                3 => i % d.saturating_sub(1).max(1),
                _ => q[i % q.len()],
            };
            seam_id(idm, x)
        })
        .collect();
    let ws: Vec<i64> = (0..n).map(|_| ctx.rng.range(1, 999)).collect();
    ctx.count(&format!("seam:{}:{}", ["clique", "clique-asym-weights", "circulant-directed", "circulant-symmetric"][kind], name));
    ctx.count(&format!("seam:regular-partition={}", ["identity", "mod(d+1)", "mod(d)", "mod(d-1)", "pattern"][pk]));
    ctx.count(&format!("seam:degree={}", seam_bucket(d)));
    let op = mat_op(name, &rows, 0, &p, &ws);
    run_op(ctx, &op);
}

/// Randomised variant: one vertex `r` of a graph on d + 1 + extra vertices gets exactly `d` random
/// neighbours and a closed neighbourhood with a chosen number of distinct parts; the other rows
/// are the mirror of that row, random sparse rows, or empty; random storage flag, sometimes a
/// non-zero first offset.
fn seam_random(ctx: &mut Ctx) {
    let kmax = if ctx.quick() { 8 } else { 10 };
    let d = match ctx.rng.usize(4) {
        0 | 1 => ctx.rng.usize(81),
        2 => {
            let k = 3 + ctx.rng.usize(kmax - 2);
            ((1usize << k) + ctx.rng.usize(5)).saturating_sub(2)
        }
        _ => ctx.rng.usize(300),
    };
    let extra = ctx.rng.usize(7);
    let n = d + 1 + extra;
    let r = match ctx.rng.usize(4) {
        0 => 0,
        1 => n - 1,
        _ => ctx.rng.usize(n),
    };
    let mut others: Vec<usize> = (0..n).filter(|&u| u != r).collect();
    ctx.rng.shuffle(&mut others);
    let nbrs: Vec<usize> = others[..d].to_vec();
    let wmode = ctx.rng.usize(4);
    let mut rows: Vec<Vec<(usize, i64)>> = vec![vec![]; n];
    let fill = ctx.rng.usize(3);
    for &u in &nbrs {
        let w = seam_edge_weight(ctx, wmode);
        rows[r].push((u, w));
        if fill == 0 {
            rows[u].push((r, w));
        }
    }
    if fill == 2 {
        // random sparse entries elsewhere (non-symmetric)
        for _ in 0..n {
            let (a, b) = (ctx.rng.usize(n), ctx.rng.usize(n));
            if a != r && !rows[a].iter().any(|e| e.0 == b) {
                let w = seam_edge_weight(ctx, wmode);
                rows[a].push((b, w));
            }
        }
    }
    for row in rows.iter_mut() {
        row.sort();
    }
    let mode = ctx.rng.usize(SEAM_MODES.len());
    let q = seam_parts(ctx, mode, d);
    let t = q.iter().max().map_or(1, |m| m + 1);
    let idm = ctx.rng.usize(4);
    let mut p: Vec<usize> = (0..n).map(|_| seam_id(idm, ctx.rng.usize(t + 2))).collect();
    p[r] = seam_id(idm, q[0]);
    for (j, &u) in nbrs.iter().enumerate() {
        p[u] = seam_id(idm, q[j + 1]);
    }
    let mut ws: Vec<i64> = (0..n).map(|_| ctx.rng.range(1, 9)).collect();
    ws[r] = 1000 + ctx.rng.range(0, 999);
    let name = if ctx.rng.chance(1, 2) { "csc" } else { "csr" };
    let offset = if ctx.rng.chance(1, 8) { 1 + ctx.rng.usize(5) } else { 0 };
    ctx.count(&format!("seam:random:{}", name));
    ctx.count(&format!("seam:parts={}", SEAM_MODES[mode]));
    ctx.count(&format!("seam:degree={}", seam_bucket(d)));
    let op = mat_op(name, &rows, offset, &p, &ws);
    run_op(ctx, &op);
}

fn gen_seams(ctx: &mut Ctx) {
    let mut ds: Vec<usize> = (0..=80).collect();
    if ctx.quick() {
        ds.extend([126, 127, 128, 129, 254, 255, 256, 257]);
    } else {
        ds.extend(81..=260);
        ds.extend([511, 512, 513, 1023, 1024, 1025]);
    }
    let dense_cap = if ctx.quick() { 80 } else { 130 };
    const NAMES: [&str; 2] = ["csr", "csc"];
    let mut stars = 0;
    let mut regular = 0;
    for &d in &ds {
        // identity partition (d + 1 distinct parts around the hub): every star kind, the hub first,
        // last and in the middle, both storage flags
        for kind in 0..3 {
            for name in NAMES.iter().copied() {
                let hub = [0, d, d / 2][(kind + d) % 3];
                let idm = if ctx.rng.chance(3, 4) { 0 } else { ctx.rng.usize(4) };
                let wmode = ctx.rng.usize(4);
                seam_star(ctx, d, hub, kind, 0, idm, wmode, name);
                stars += 1;
            }
        }
        // the other distinct-part counts
        for mode in 1..SEAM_MODES.len() {
            for name in NAMES.iter().copied() {
                let kind = ctx.rng.usize(3);
                let hub = [0, d, d / 2, ctx.rng.usize(d + 1)][ctx.rng.usize(4)];
                let idm = ctx.rng.usize(4);
                let wmode = ctx.rng.usize(4);
                seam_star(ctx, d, hub, kind, mode, idm, wmode, name);
                stars += 1;
            }
        }
        // every row with exactly d entries
        let dense = d <= dense_cap || (!ctx.quick() && (255..=257).contains(&d));
        if dense {
            for name in NAMES.iter().copied() {
                let wmode = ctx.rng.usize(3);
                seam_regular(ctx, d, 0, 0, 0, 0, wmode, name);
                let pk = ctx.rng.usize(4);
                seam_regular(ctx, d, 2, pk, 0, 0, wmode, name);
                regular += 2;
            }
            if d <= dense_cap {
                let (idm, wmode, mode) = (ctx.rng.usize(4), ctx.rng.usize(4), 1 + ctx.rng.usize(6));
                let name = NAMES[ctx.rng.usize(2)];
                seam_regular(ctx, d, 1, 4, mode, idm, wmode, name);
                let (idm, wmode, pk, mode) = (ctx.rng.usize(4), ctx.rng.usize(4), ctx.rng.usize(5), ctx.rng.usize(7));
                let name = NAMES[ctx.rng.usize(2)];
                seam_regular(ctx, d, 3, pk, mode, idm, wmode, name);
                regular += 2;
            }
        }
    }
    let randoms = ctx.budget(600, 12000);
    for _ in 0..randoms {
        seam_random(ctx);
    }
    ctx.notes.push(format!(
        "degree x distinct-parts seams: {} degrees (0..=80{}), {} star cases, {} all-rows-of-degree-d cases (cliques, circulants; d <= {}), {} randomised; both storage flags",
        ds.len(),
        if ctx.quick() { ", 126..129, 254..257" } else { ", 81..=260, 511..513, 1023..1025" },
        stars,
        regular,
        dense_cap,
        randoms
    ));
}

fn grid_op(w: usize, h: usize, d: Option<usize>, p: &[usize], ws: &[i64]) -> String {
    match d {
        None => format!("grid2 {} {} {} {}", w, h, fmt_vec(p), fmt_vec(ws)),
        Some(d) => format!("grid3 {} {} {} {} {}", w, h, d, fmt_vec(p), fmt_vec(ws)),
    }
}

fn gen_grid(ctx: &mut Ctx) {
    let three = ctx.rng.chance(2, 5);
    let (w, h, d) = if three {
        let m = if ctx.quick() { 5 } else { 6 };
        (1 + ctx.rng.usize(m), 1 + ctx.rng.usize(m), Some(1 + ctx.rng.usize(m)))
    } else {
        (1 + ctx.rng.usize(12), 1 + ctx.rng.usize(12), None)
    };
    let n = w * h * d.unwrap_or(1);
    let mut p = if ctx.rng.chance(1, 8) {
        ctx.count("grid_partition:wide-ids");
        wide_partition(ctx, n)
    } else {
        rand_partition(ctx, n)
    };
    let mut ws = rand_weights(ctx, n);
    if ctx.rng.chance(1, 25) {
        ctx.count("grid_stream:malformed");
        match ctx.rng.usize(3) {
            0 => p.truncate(ctx.rng.usize(n)),
            1 => ws.truncate(ctx.rng.usize(n)),
            _ => {
                ws.push(9);
                p.push(1)
            }
        }
    }
    let op = grid_op(w, h, d, &p, &ws);
    run_op(ctx, &op);
}

fn gen_imb(ctx: &mut Ctx) {
    let n = match ctx.rng.usize(6) {
        0 => ctx.rng.usize(3),
        _ => 1 + ctx.rng.usize(24),
    };
    let k = match ctx.rng.usize(8) {
        0 => 1,
        1 => 1 + ctx.rng.usize(12), // possibly more parts than elements: empty parts
        _ => 1 + ctx.rng.usize(5),
    };
    let mut p: Vec<usize> = match ctx.rng.usize(4) {
        0 => vec![ctx.rng.usize(k); n],
        1 => (0..n).map(|i| i % k).collect(),
        _ => (0..n).map(|_| ctx.rng.usize(k)).collect(),
    };
    let mut ws: Vec<i64> = match ctx.rng.usize(7) {
        0 => vec![0; n],
        1 => vec![1; n],
        2 => (0..n).map(|_| ctx.rng.range(-10, 10)).collect(), // totals of either sign, or zero
        3 => (0..n).map(|_| ctx.rng.range(0, 1_000_000_000_000)).collect(),
        4 => {
            let mut v: Vec<i64> = (0..n).map(|_| ctx.rng.range(0, 5)).collect();
            if n > 0 {
                let i = ctx.rng.usize(n);
                v[i] = 100_000;
            }
            v
        }
        _ => (0..n).map(|_| ctx.rng.range(0, 100)).collect(),
    };
    let mut ts: Vec<i64> = (0..k).map(|_| ctx.rng.range(0, 200)).collect();
    let mut k2 = k;
    match ctx.rng.usize(30) {
        0 => {
            ctx.count("imb_stream:zero_parts");
            k2 = 0;
            ts.clear();
            if ctx.rng.chance(1, 2) {
                p.clear();
                ws.clear();
            }
        }
        1 => {
            ctx.count("imb_stream:part_out_of_range");
            if n > 0 {
                let i = ctx.rng.usize(n);
                p[i] = k + ctx.rng.usize(3);
            }
        }
        2 => {
            ctx.count("imb_stream:len_mismatch");
            if ctx.rng.chance(1, 2) {
                ws.push(5);
            } else {
                p.push(0);
            }
        }
        3 => {
            ctx.count("imb_stream:targets_len");
            ts.pop();
        }
        _ => ctx.count("imb_stream:valid"),
    }
    let op = format!("imb {} {} {} {}", k2, fmt_vec(&p), fmt_vec(&ws), fmt_vec(&ts));
    run_op(ctx, &op);
}

/// every 2-colouring of a grid
fn exhaustive_grid(ctx: &mut Ctx, w: usize, h: usize, d: Option<usize>) -> u64 {
    let n = w * h * d.unwrap_or(1);
    let ws: Vec<i64> = (0..n as i64).map(|i| 1 + (i * 7) % 5).collect();
    let mut count = 0;
    for mask in 0u32..(1u32 << n) {
        // colourings are counted up to the swap of the two colours: cell 0 has colour 0
        if mask & 1 == 1 {
            continue;
        }
        let p: Vec<usize> = (0..n).map(|i| (mask >> i & 1) as usize).collect();
        let op = grid_op(w, h, d, &p, &ws);
        run_op(ctx, &op);
        count += 1;
    }
    count
}

pub fn generate(ctx: &mut Ctx) {
    // 0. which instantiation is called first in this process depends on the seed
    gen_first_calls(ctx);
    // 1. neighbour lists, positions and indices of every small grid
    let (m2, m3) = if ctx.quick() { (12, 5) } else { (16, 7) };
    for w in 1..=m2 {
        for h in 1..=m2 {
            run_op(ctx, &format!("nbrs2 {} {}", w, h));
        }
    }
    for w in 1..=m3 {
        for h in 1..=m3 {
            for d in 1..=m3 {
                run_op(ctx, &format!("nbrs3 {} {} {}", w, h, d));
            }
        }
    }
    ctx.notes.push(format!("exhaustive: neighbour lists / position_of / index_of of all 2-D grids up to {0}x{0} and all 3-D grids up to {1}x{1}x{1}", m2, m3));
    // 2. every 2-colouring (up to colour swap) of every grid with at most `cells` cells
    let cells = if ctx.quick() { 9 } else { 12 };
    let mut total = 0;
    for w in 1..=cells {
        for h in 1..=cells {
            if w * h <= cells {
                total += exhaustive_grid(ctx, w, h, None);
            }
            for d in 2..=cells {
                // d = 1 is covered by the random stream; keep the 3-D sweep to real 3-D grids
                if w * h * d <= cells && w >= 1 && h >= 1 {
                    total += exhaustive_grid(ctx, w, h, Some(d));
                }
            }
        }
    }
    ctx.notes.push(format!("exhaustive: all 2-colourings (cell 0 fixed) of all 2-D and 3-D (depth >= 2) grids with <= {} cells: {} cases", cells, total));
    // 3. large sizes and parameter corners
    gen_large(ctx);
    gen_special(ctx);
    // 3b. rows of exactly d entries x number of distinct parts around them, both storage flags
    gen_seams(ctx);
    // 4. random streams
    for _ in 0..ctx.budget(2500, 60000) {
        gen_csr(ctx);
    }
    for _ in 0..ctx.budget(500, 8000) {
        gen_grid(ctx);
    }
    for _ in 0..ctx.budget(1500, 30000) {
        gen_imb(ctx);
    }
}
