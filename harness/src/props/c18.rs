//! C18 — (stub; not built yet)

use crate::common::*;

pub fn generate(_ctx: &mut Ctx) {}

pub fn run_op(ctx: &mut Ctx, op: &str) {
    ctx.record(op.to_string(), "bad-op".into(), false);
}
