//! C18 — the tools' dual graph matches its definition; element counts agree.
//!
//! op:  `dual <raw|medit> <threads> <nnodes> <nblocks> {<ty> <count> <refs> <count*npe nodes>}*`
//!      ty: 0 vertex, 1 edge, 2 triangle, 3 quadrangle, 4 quadrilateral, 5 tetrahedron, 6 hexahedron;
//!      `raw` builds the mesh with `Mesh::from_raw_parts`, `medit` writes a MEDIT ASCII text and
//!      parses it with the mesh-io reader (only the first `refs` element lines of a block carry a
//!      reference column; `refs < count` is only expressible this way).
//! out: `ok <size> | <indptr> | <indices> | d<data len> | bary <n|panic> used <m>` | `panic …`
//! op:  `dualgen <threads> <2|3> <a> <b> <c> <p> <layout> <nblocks> <seed>` – LARGE meshes, regenerated
//!      from the parameters (grid a x b [x c], split probability p/8, layout 0 = natural numbering /
//!      1 = shuffled, top-dimensional elements cut into `nblocks` runs with lower-dimensional blocks
//!      interleaved); the model declines (`skip large-n`), the oracle is applied in full.
//! out: `ok <size> nnz <k> h <fnv64 of indptr,indices> | d<data len> | bary <n> used <m>`

use crate::common::*;
use std::collections::BTreeSet;
use std::fmt::Write as _;

const NPE: [usize; 7] = [1, 2, 3, 4, 4, 4, 8];
const DIM: [usize; 7] = [0, 1, 2, 2, 2, 3, 3];
const MEDIT_NAME: [&str; 7] =
    ["", "Edges", "Triangles", "Quadrangles", "Quadrilaterals", "Tetrahedra", "Hexahedra"];
const POOLS: [usize; 3] = [1, 4, 16];

#[derive(Clone, Debug)]
struct Blk {
    ty: usize,
    refs: usize,
    nodes: Vec<usize>,
}

impl Blk {
    fn count(&self) -> usize {
        self.nodes.len() / NPE[self.ty]
    }
}

// ------------------------------------------------------------------ generators

/// Elements per kind before they are cut into blocks.
#[derive(Default)]
struct Soup {
    nn: usize,
    /// (type code, nodes)
    els: Vec<(usize, Vec<usize>)>,
}

fn distinct(rng: &mut Rng, nn: usize, k: usize) -> Vec<usize> {
    // k distinct node ids out of 0..nn (nn >= k)
    let mut v: Vec<usize> = Vec::with_capacity(k);
    while v.len() < k {
        let x = rng.usize(nn);
        if !v.contains(&x) {
            v.push(x);
        }
    }
    v
}

fn quad_code(rng: &mut Rng) -> usize {
    if rng.chance(1, 2) {
        3
    } else {
        4
    }
}

/// Conforming structured 2-D mesh: quads, each split into two triangles with
/// probability `p_tri`/8; boundary edges and a few vertex elements.
fn grid2d(rng: &mut Rng, nx: usize, ny: usize, p_tri: u64, lower: bool) -> Soup {
    let id = |i: usize, j: usize| i + j * (nx + 1);
    let mut s = Soup { nn: (nx + 1) * (ny + 1), els: vec![] };
    let qc = quad_code(rng);
    for j in 0..ny {
        for i in 0..nx {
            let (a, b, c, d) = (id(i, j), id(i + 1, j), id(i + 1, j + 1), id(i, j + 1));
            if rng.chance(p_tri, 8) {
                if rng.chance(1, 2) {
                    s.els.push((2, vec![a, b, c]));
                    s.els.push((2, vec![a, c, d]));
                } else {
                    s.els.push((2, vec![a, b, d]));
                    s.els.push((2, vec![b, c, d]));
                }
            } else {
                s.els.push((qc, vec![a, b, c, d]));
            }
        }
    }
    if lower {
        for i in 0..nx {
            s.els.push((1, vec![id(i, 0), id(i + 1, 0)]));
            s.els.push((1, vec![id(i, ny), id(i + 1, ny)]));
        }
        for j in 0..ny {
            s.els.push((1, vec![id(0, j), id(0, j + 1)]));
            s.els.push((1, vec![id(nx, j), id(nx, j + 1)]));
        }
        for _ in 0..rng.usize(4) {
            s.els.push((0, vec![rng.usize(s.nn)]));
        }
    }
    s
}

/// Structured 3-D mesh: hexahedra, each split into six tetrahedra (Kuhn) with
/// probability `p_tet`/8 (conforming between split cells; a hexahedron next to
/// tetrahedra is a non-conforming interface); boundary faces, edges, vertices.
fn grid3d(rng: &mut Rng, nx: usize, ny: usize, nz: usize, p_tet: u64, lower: bool) -> Soup {
    let id = |i: usize, j: usize, k: usize| i + (nx + 1) * (j + (ny + 1) * k);
    let mut s = Soup { nn: (nx + 1) * (ny + 1) * (nz + 1), els: vec![] };
    const PERMS: [[usize; 3]; 6] =
        [[0, 1, 2], [0, 2, 1], [1, 0, 2], [1, 2, 0], [2, 0, 1], [2, 1, 0]];
    for k in 0..nz {
        for j in 0..ny {
            for i in 0..nx {
                if rng.chance(p_tet, 8) {
                    for p in PERMS {
                        let mut c = [i, j, k];
                        let mut t = vec![id(c[0], c[1], c[2])];
                        for ax in p {
                            c[ax] += 1;
                            t.push(id(c[0], c[1], c[2]));
                        }
                        s.els.push((5, t));
                    }
                } else {
                    s.els.push((
                        6,
                        vec![
                            id(i, j, k),
                            id(i + 1, j, k),
                            id(i + 1, j + 1, k),
                            id(i, j + 1, k),
                            id(i, j, k + 1),
                            id(i + 1, j, k + 1),
                            id(i + 1, j + 1, k + 1),
                            id(i, j + 1, k + 1),
                        ],
                    ));
                }
            }
        }
    }
    if lower {
        let qc = quad_code(rng);
        for j in 0..ny {
            for i in 0..nx {
                let q = vec![id(i, j, 0), id(i + 1, j, 0), id(i + 1, j + 1, 0), id(i, j + 1, 0)];
                if rng.chance(1, 3) {
                    s.els.push((2, vec![q[0], q[1], q[2]]));
                    s.els.push((2, vec![q[0], q[2], q[3]]));
                } else {
                    s.els.push((qc, q));
                }
            }
        }
        for i in 0..nx {
            s.els.push((1, vec![id(i, 0, 0), id(i + 1, 0, 0)]));
        }
        for _ in 0..rng.usize(3) {
            s.els.push((0, vec![rng.usize(s.nn)]));
        }
    }
    s
}

/// Random non-conforming soup: elements draw distinct nodes from a small pool.
fn random_soup(rng: &mut Rng, three_d: bool, nn: usize, ne: usize, lower: usize) -> Soup {
    let mut s = Soup { nn, els: vec![] };
    let top: &[usize] = if three_d { &[5, 5, 6] } else { &[2, 2, 3, 4] };
    let low: &[usize] = if three_d { &[0, 1, 2, 3, 4] } else { &[0, 1] };
    for _ in 0..ne {
        let ty = *rng.pick(top);
        if nn >= NPE[ty] {
            s.els.push((ty, distinct(rng, nn, NPE[ty])));
        }
    }
    for _ in 0..lower {
        let ty = *rng.pick(low);
        if nn >= NPE[ty] {
            s.els.push((ty, distinct(rng, nn, NPE[ty])));
        }
    }
    s
}

/// Cut a soup into blocks: elements shuffled, each type in 1–3 blocks, blocks
/// in random order, sometimes an empty block in between.
fn to_blocks(rng: &mut Rng, mut s: Soup, allow_vertex: bool) -> (usize, Vec<Blk>) {
    rng.shuffle(&mut s.els);
    let mut blocks: Vec<Blk> = vec![];
    for ty in 0..7 {
        if ty == 0 && !allow_vertex {
            continue;
        }
        let els: Vec<&Vec<usize>> = s.els.iter().filter(|e| e.0 == ty).map(|e| &e.1).collect();
        if els.is_empty() {
            continue;
        }
        let parts = 1 + if rng.chance(1, 3) { rng.usize(3) } else { 0 };
        let mut cuts: Vec<usize> = (0..parts - 1).map(|_| rng.usize(els.len() + 1)).collect();
        cuts.push(0);
        cuts.push(els.len());
        cuts.sort_unstable();
        for w in cuts.windows(2) {
            let nodes: Vec<usize> = els[w[0]..w[1]].iter().flat_map(|e| e.iter().cloned()).collect();
            blocks.push(Blk { ty, refs: w[1] - w[0], nodes });
        }
    }
    if rng.chance(1, 6) {
        let ty = 1 + rng.usize(6);
        blocks.push(Blk { ty, refs: 0, nodes: vec![] });
    }
    rng.shuffle(&mut blocks);
    (s.nn, blocks)
}

fn emit(ctx: &mut Ctx, shape: &str, nn: usize, blocks: &[Blk]) {
    let has_vertex = blocks.iter().any(|b| b.ty == 0);
    let mode = if !has_vertex && ctx.rng.chance(1, 4) { "medit" } else { "raw" };
    let threads = *ctx.rng.pick(&POOLS);
    ctx.count(&format!("shape:{}", shape));
    ctx.count(&format!("mode:{}", mode));
    ctx.count(&format!("pool:{}", threads));
    ctx.count(&format!("blocks:{}", blocks.len().min(8)));
    let op = format_op(mode, threads, nn, blocks);
    run_op(ctx, &op);
}

pub fn generate(ctx: &mut Ctx) {
    // ---- tiny and special meshes
    let tiny: Vec<(usize, Vec<Blk>)> = vec![
        (0, vec![]),
        (3, vec![]),
        (3, vec![Blk { ty: 2, refs: 0, nodes: vec![] }]),
        (3, vec![Blk { ty: 2, refs: 1, nodes: vec![0, 1, 2] }]),
        (4, vec![Blk { ty: 2, refs: 2, nodes: vec![0, 1, 2, 1, 2, 3] }]),
        (4, vec![Blk { ty: 2, refs: 2, nodes: vec![0, 1, 2, 0, 1, 2] }]),
        // edges only / vertices only / edges + vertices
        (3, vec![Blk { ty: 1, refs: 2, nodes: vec![0, 1, 1, 2] }]),
        (3, vec![Blk { ty: 0, refs: 3, nodes: vec![0, 1, 1] }]),
        (3, vec![Blk { ty: 0, refs: 2, nodes: vec![0, 2] }, Blk { ty: 1, refs: 2, nodes: vec![0, 1, 1, 2] }]),
        // a triangle and a quad sharing an edge, edge block first
        (
            5,
            vec![
                Blk { ty: 1, refs: 1, nodes: vec![0, 1] },
                Blk { ty: 3, refs: 1, nodes: vec![1, 2, 3, 4] },
                Blk { ty: 2, refs: 1, nodes: vec![0, 1, 2] },
            ],
        ),
        // a tetrahedron and a hexahedron sharing three nodes, face block between
        (
            9,
            vec![
                Blk { ty: 5, refs: 1, nodes: vec![0, 1, 2, 8] },
                Blk { ty: 4, refs: 1, nodes: vec![0, 1, 2, 3] },
                Blk { ty: 6, refs: 1, nodes: vec![0, 1, 2, 3, 4, 5, 6, 7] },
            ],
        ),
        // same type twice with an edge block in between
        (
            5,
            vec![
                Blk { ty: 2, refs: 1, nodes: vec![0, 1, 2] },
                Blk { ty: 1, refs: 2, nodes: vec![0, 1, 3, 4] },
                Blk { ty: 2, refs: 2, nodes: vec![1, 2, 3, 2, 3, 4] },
            ],
        ),
    ];
    for (nn, blocks) in &tiny {
        for &threads in &POOLS {
            ctx.count("shape:tiny");
            let op = format_op("raw", threads, *nn, blocks);
            run_op(ctx, &op);
        }
    }

    // ---- exhaustive: every ordered tuple (length 1..=3) of cells over a small node set
    let (tri_nodes, tet_nodes) = if ctx.quick() { (4usize, 5usize) } else { (5, 6) };
    for (ty, pool_nodes) in [(2usize, tri_nodes), (5usize, tet_nodes)] {
        let k = NPE[ty];
        // all k-subsets of 0..pool_nodes
        let mut cells: Vec<Vec<usize>> = vec![];
        for mask in 0u32..(1 << pool_nodes) {
            if mask.count_ones() as usize == k {
                cells.push((0..pool_nodes).filter(|i| mask >> i & 1 == 1).collect());
            }
        }
        let m = cells.len();
        let mut n_cases = 0usize;
        for len in 1..=3usize {
            let total = m.pow(len as u32);
            for code in 0..total {
                let mut c = code;
                let mut nodes = vec![];
                for _ in 0..len {
                    nodes.extend_from_slice(&cells[c % m]);
                    c /= m;
                }
                let blocks = vec![Blk { ty, refs: len, nodes }];
                let threads = POOLS[code % 3];
                ctx.count("shape:exhaustive");
                let op = format_op("raw", threads, pool_nodes, &blocks);
                run_op(ctx, &op);
                n_cases += 1;
            }
        }
        ctx.notes.push(format!(
            "exhaustive sub-space: every ordered tuple of 1..=3 {} over {} nodes ({} cases)",
            if ty == 2 { "triangles" } else { "tetrahedra" },
            pool_nodes,
            n_cases
        ));
    }

    // ---- structured and random meshes
    let n = ctx.budget(300, 10000);
    for _ in 0..n {
        let big = ctx.rng.chance(1, 12);
        match ctx.rng.usize(6) {
            0 | 1 => {
                let m = if big { 14 } else { 5 };
                let (nx, ny) = (1 + ctx.rng.usize(m), 1 + ctx.rng.usize(m));
                let p = *ctx.rng.pick(&[0u64, 0, 3, 5, 8]);
                let lower = ctx.rng.chance(2, 3);
                let s = grid2d(&mut ctx.rng, nx, ny, p, lower);
                let (nn, blocks) = to_blocks(&mut ctx.rng, s, true);
                emit(ctx, "grid2d", nn, &blocks);
            }
            2 | 3 => {
                let m = if big { 5 } else { 3 };
                let (nx, ny, nz) = (1 + ctx.rng.usize(m), 1 + ctx.rng.usize(m), 1 + ctx.rng.usize(m));
                let p = *ctx.rng.pick(&[0u64, 0, 2, 4, 8]);
                let lower = ctx.rng.chance(2, 3);
                let s = grid3d(&mut ctx.rng, nx, ny, nz, p, lower);
                let (nn, blocks) = to_blocks(&mut ctx.rng, s, true);
                emit(ctx, "grid3d", nn, &blocks);
            }
            _ => {
                let three_d = ctx.rng.chance(1, 2);
                let nn = if three_d { 8 + ctx.rng.usize(if big { 60 } else { 12 }) } else { 4 + ctx.rng.usize(if big { 60 } else { 10 }) };
                let ne = ctx.rng.usize(if big { 120 } else { 14 });
                let lower = ctx.rng.usize(6);
                let s = random_soup(&mut ctx.rng, three_d, nn, ne, lower);
                let (nn, blocks) = to_blocks(&mut ctx.rng, s, true);
                emit(ctx, if three_d { "random3d" } else { "random2d" }, nn, &blocks);
            }
        }
    }

    // ---- degenerate elements (a node repeated inside an element): separate stream
    for _ in 0..ctx.budget(60, 1500) {
        let three_d = ctx.rng.chance(1, 2);
        let nn = if three_d { 8 + ctx.rng.usize(6) } else { 4 + ctx.rng.usize(6) };
        let ne = 2 + ctx.rng.usize(8);
        let mut s = random_soup(&mut ctx.rng, three_d, nn, ne, 2);
        let hits = 1 + ctx.rng.usize(3);
        for _ in 0..hits {
            if s.els.is_empty() {
                break;
            }
            let e = ctx.rng.usize(s.els.len());
            let k = s.els[e].1.len();
            if k >= 2 {
                let (a, b) = (ctx.rng.usize(k), ctx.rng.usize(k));
                s.els[e].1[a] = s.els[e].1[b];
            }
        }
        let (nn, blocks) = to_blocks(&mut ctx.rng, s, true);
        emit(ctx, "degenerate", nn, &blocks);
    }

    // ---- malformed: a node id outside the mesh; element lines without a reference
    for _ in 0..ctx.budget(30, 600) {
        let s = if ctx.rng.chance(1, 2) {
            grid2d(&mut ctx.rng, 2, 2, 4, true)
        } else {
            random_soup(&mut ctx.rng, true, 10, 5, 3)
        };
        let (nn, mut blocks) = to_blocks(&mut ctx.rng, s, false);
        let nonempty: Vec<usize> = (0..blocks.len()).filter(|&i| !blocks[i].nodes.is_empty()).collect();
        if nonempty.is_empty() {
            continue;
        }
        let b = *ctx.rng.pick(&nonempty);
        if ctx.rng.chance(1, 2) {
            let k = ctx.rng.usize(blocks[b].nodes.len());
            blocks[b].nodes[k] = nn + ctx.rng.usize(3);
            ctx.count("shape:malformed-node");
            let mode = if ctx.rng.chance(1, 2) { "medit" } else { "raw" };
            let threads = *ctx.rng.pick(&POOLS);
            let op = format_op(mode, threads, nn, &blocks);
            run_op(ctx, &op);
        } else {
            blocks[b].refs = ctx.rng.usize(blocks[b].refs.max(1));
            ctx.count("shape:malformed-refs");
            let threads = *ctx.rng.pick(&POOLS);
            let op = format_op("medit", threads, nn, &blocks);
            run_op(ctx, &op);
        }
    }

    generate_large(ctx);
}

/// Parameters of a regenerated (large or many-block) mesh.
#[derive(Clone, Debug)]
struct GenP {
    kind: usize,
    a: usize,
    b: usize,
    c: usize,
    p: u64,
    layout: usize,
    nb: usize,
    seed: u64,
}

/// Cut into blocks with control over the layout: the top-dimensional elements, in soup order
/// (natural numbering: row by row) or shuffled, are cut into `nb` contiguous runs (equal lengths
/// with a shorter last run, or random cut points when shuffled); inside a run the elements are
/// grouped by type (one block per type present). Lower-dimensional elements are cut into
/// `nb / 4 + 1` runs in the same way and one such run follows every fourth top run.
fn cut_blocks(rng: &mut Rng, mut s: Soup, shuffle: bool, nb: usize) -> (usize, Vec<Blk>) {
    if shuffle {
        rng.shuffle(&mut s.els);
    }
    let d = s.els.iter().map(|e| DIM[e.0]).max().unwrap_or(0);
    let nn = s.nn;
    let (top, low): (Vec<_>, Vec<_>) = s.els.into_iter().partition(|e| DIM[e.0] == d && e.0 != 1);
    let mut runs = |els: Vec<(usize, Vec<usize>)>, k: usize| -> Vec<Vec<Blk>> {
        let k = k.max(1);
        let n = els.len();
        let mut cuts: Vec<usize> = if shuffle {
            (0..k - 1).map(|_| rng.usize(n + 1)).collect()
        } else {
            let len = (n + k - 1) / k;
            (1..k).map(|i| (i * len).min(n)).collect()
        };
        cuts.push(0);
        cuts.push(n);
        cuts.sort_unstable();
        let mut out = vec![];
        for w in cuts.windows(2) {
            let mut blocks: Vec<Blk> = vec![];
            for (ty, nodes) in &els[w[0]..w[1]] {
                match blocks.iter_mut().find(|b| b.ty == *ty) {
                    Some(b) => {
                        b.nodes.extend_from_slice(nodes);
                        b.refs += 1;
                    }
                    None => blocks.push(Blk { ty: *ty, refs: 1, nodes: nodes.clone() }),
                }
            }
            out.push(blocks);
        }
        out
    };
    let top_runs = runs(top, nb);
    let mut low_runs = runs(low, nb / 4 + 1).into_iter();
    let mut blocks = vec![];
    for (i, r) in top_runs.into_iter().enumerate() {
        blocks.extend(r);
        if i % 4 == 1 {
            if let Some(l) = low_runs.next() {
                blocks.extend(l);
            }
        }
    }
    for l in low_runs {
        blocks.extend(l);
    }
    if shuffle {
        rng.shuffle(&mut blocks);
    }
    (nn, blocks)
}

fn gen_mesh(g: &GenP) -> (usize, Vec<Blk>) {
    let mut rng = Rng::new(g.seed);
    let s = if g.kind == 2 {
        grid2d(&mut rng, g.a, g.b, g.p, true)
    } else {
        grid3d(&mut rng, g.a, g.b, g.c, g.p, true)
    };
    cut_blocks(&mut rng, s, g.layout == 1, g.nb)
}

fn format_gen(threads: usize, g: &GenP) -> String {
    format!("dualgen {} {} {} {} {} {} {} {} {}", threads, g.kind, g.a, g.b, g.c, g.p, g.layout, g.nb, g.seed)
}

fn parse_gen(op: &str) -> Option<(usize, GenP)> {
    let v: Vec<u64> = op.split_whitespace().skip(1).map(|t| t.parse().ok()).collect::<Option<_>>()?;
    if !op.starts_with("dualgen ") || v.len() != 9 || v[0] == 0 || v[0] > 64 || (v[1] != 2 && v[1] != 3) {
        return None;
    }
    if v[2] == 0 || v[3] == 0 || (v[1] == 3 && v[4] == 0) || v[2].saturating_mul(v[3]).saturating_mul(v[4].max(1)) > 2_000_000 {
        return None;
    }
    Some((
        v[0] as usize,
        GenP {
            kind: v[1] as usize,
            a: v[2] as usize,
            b: v[3] as usize,
            c: v[4] as usize,
            p: v[5].min(8),
            layout: v[6] as usize,
            nb: (v[7] as usize).clamp(1, 100_000),
            seed: v[8],
        },
    ))
}

/// LARGE / CORNER stream: sizes above the usual block thresholds (2^12, 2^13, 2^14, 2^15, 36 450,
/// 2^16, 2^17) and not multiples of them, block-aligned numberings (rows of 4096 / 8192 nodes),
/// meshes stored as 100 … 600 blocks, node ids above 65 536, pools 1 / 2 / 3 / 16.
fn generate_large(ctx: &mut Ctx) {
    let g = |kind, a, b, c, p, layout, nb, seed| GenP { kind, a, b, c, p, layout, nb, seed };
    // --- many blocks and a >4096-cell mesh as EXPLICIT ops: compared exactly with the Lean model
    let mut explicit: Vec<(usize, GenP, &str)> = vec![
        (2, g(2, 35, 35, 0, 4, 0, 100, 11), "corner:blocks-100"),
        (3, g(2, 33, 37, 0, 8, 1, 255, 12), "corner:blocks-255"),
        (16, g(3, 6, 6, 5, 4, 0, 256, 13), "corner:blocks-256"),
        (1, g(2, 36, 35, 0, 0, 1, 257, 14), "corner:blocks-257"),
        (2, g(3, 7, 6, 6, 2, 1, 300, 15), "corner:blocks-300"),
        (3, g(2, 35, 36, 0, 5, 0, 600, 16), "corner:blocks-600"),
        (16, g(2, 65, 64, 0, 0, 0, 1, 17), "large:4k-model"),
    ];
    if !ctx.quick() {
        explicit.push((2, g(3, 9, 9, 9, 0, 0, 300, 18), "corner:blocks-300"));
        explicit.push((3, g(2, 41, 40, 0, 8, 1, 600, 19), "corner:blocks-600"));
        explicit.push((1, g(3, 6, 6, 6, 8, 0, 257, 20), "corner:blocks-257"));
        explicit.push((2, g(2, 67, 63, 0, 3, 1, 3, 21), "large:4k-model"));
    }
    for (threads, p, key) in explicit {
        let mut p = p;
        p.seed ^= ctx.seed.wrapping_mul(0x9E37_79B9);
        let (nn, blocks) = gen_mesh(&p);
        ctx.count(key);
        ctx.count(&format!("pool:{}", threads));
        let op = format_op("raw", threads, nn, &blocks);
        run_op(ctx, &op);
    }
    // node ids above 65 536: a strip of triangles around node 65 536 in a mesh of 70 001 nodes
    {
        let base = 65_520usize;
        let mut nodes = vec![];
        for i in 0..40 {
            nodes.extend_from_slice(&[base + i, base + i + 1, base + i + 2]);
        }
        let blocks = vec![
            Blk { ty: 1, refs: 1, nodes: vec![65_535, 65_536] },
            Blk { ty: 2, refs: 40, nodes },
        ];
        ctx.count("corner:node-ids-above-65536");
        let op = format_op("raw", 3, 70_001, &blocks);
        run_op(ctx, &op);
    }
    // --- large meshes, regenerated from parameters: oracle in full, model declines
    let mut large: Vec<(usize, GenP, &str)> = vec![
        (2, g(2, 129, 128, 0, 0, 0, 1, 31), "large:16k-quads"),
        (3, g(2, 91, 91, 0, 8, 1, 3, 32), "large:16k-triangles"),
        (16, g(2, 4095, 5, 0, 0, 0, 1, 33), "large:20k-rows-of-4096-nodes"),
        (1, g(2, 181, 182, 0, 0, 1, 100, 34), "large:32k-quads-100-blocks"),
        (3, g(2, 191, 191, 0, 4, 0, 257, 35), "large:36k-mixed2d-257-blocks"),
        (2, g(3, 14, 14, 14, 8, 1, 300, 36), "large:16k-tets-300-blocks"),
        (16, g(3, 33, 33, 34, 0, 0, 1, 37), "large:37k-hexes"),
        (1, g(3, 21, 20, 20, 3, 1, 600, 38), "large:24k-mixed3d-600-blocks"),
    ];
    if !ctx.quick() {
        large.extend(vec![
            (2, g(2, 265, 265, 0, 0, 0, 1, 41), "large:70k-quads"),
            (3, g(2, 265, 264, 0, 2, 1, 256, 42), "large:70k-mixed2d-256-blocks"),
            (16, g(2, 375, 374, 0, 0, 0, 2, 43), "large:140k-quads"),
            (1, g(2, 8191, 3, 0, 0, 0, 1, 44), "large:24k-rows-of-8192-nodes"),
            (2, g(2, 8191, 9, 0, 8, 0, 255, 45), "large:147k-triangles-rows-of-8192-nodes"),
            (3, g(3, 30, 30, 30, 8, 0, 1, 46), "large:162k-tets"),
            (16, g(3, 41, 41, 42, 0, 1, 100, 47), "large:70k-hexes-100-blocks"),
            (2, g(3, 18, 18, 17, 8, 0, 257, 48), "large:33k-tets-257-blocks"),
            (3, g(2, 128, 128, 0, 0, 0, 1, 49), "large:16384-quads-exact"),
            (1, g(2, 128, 129, 0, 0, 0, 2, 50), "large:16k-quads"),
            (16, g(3, 32, 32, 33, 5, 1, 600, 51), "large:130k-mixed3d-600-blocks"),
            (2, g(2, 190, 192, 0, 8, 1, 1, 52), "large:73k-triangles"),
        ]);
    }
    for (threads, p, key) in large {
        let mut p = p;
        p.seed ^= ctx.seed.wrapping_mul(0x9E37_79B9);
        ctx.count(key);
        ctx.count(&format!("pool:{}", threads));
        let op = format_gen(threads, &p);
        run_op(ctx, &op);
    }
}

// ------------------------------------------------------------------ protocol

fn format_op(mode: &str, threads: usize, nn: usize, blocks: &[Blk]) -> String {
    let mut s = format!("dual {} {} {} {}", mode, threads, nn, blocks.len());
    for b in blocks {
        write!(s, " {} {} {}", b.ty, b.count(), b.refs).unwrap();
        for x in &b.nodes {
            write!(s, " {}", x).unwrap();
        }
    }
    s
}

fn parse_op(op: &str) -> Option<(bool, usize, usize, Vec<Blk>)> {
    let mut it = op.split_whitespace();
    if it.next()? != "dual" {
        return None;
    }
    let medit = match it.next()? {
        "raw" => false,
        "medit" => true,
        _ => return None,
    };
    let threads: usize = it.next()?.parse().ok()?;
    if threads == 0 || threads > 64 {
        return None;
    }
    let nn: usize = it.next()?.parse().ok()?;
    let nb: usize = it.next()?.parse().ok()?;
    let mut blocks = Vec::with_capacity(nb);
    for _ in 0..nb {
        let ty: usize = it.next()?.parse().ok()?;
        if ty > 6 {
            return None;
        }
        let count: usize = it.next()?.parse().ok()?;
        let refs: usize = it.next()?.parse().ok()?;
        let mut nodes = Vec::with_capacity(count * NPE[ty]);
        for _ in 0..count * NPE[ty] {
            nodes.push(it.next()?.parse().ok()?);
        }
        blocks.push(Blk { ty, refs, nodes });
    }
    if it.next().is_some() {
        return None;
    }
    Some((medit, threads, nn, blocks))
}

fn el_type(ty: usize) -> mesh_io::ElementType {
    use mesh_io::ElementType::*;
    [Vertex, Edge, Triangle, Quadrangle, Quadrilateral, Tetrahedron, Hexahedron][ty]
}

fn coords(space: usize, nn: usize) -> Vec<f64> {
    let mut c = Vec::with_capacity(space * nn);
    for i in 0..nn {
        c.push((i % 7) as f64);
        c.push(((i / 7) % 5) as f64 * 0.5);
        if space == 3 {
            c.push((i % 3) as f64 * 0.25);
        }
    }
    c
}

/// Build the mesh the op describes. `Err` = the op cannot be built this way.
fn build_mesh(medit: bool, space: usize, nn: usize, blocks: &[Blk]) -> Result<mesh_io::Mesh, String> {
    let wf = blocks.iter().all(|b| b.refs == b.count());
    if !medit {
        if !wf {
            return Err("raw mode needs refs == count".into());
        }
        let topo = blocks
            .iter()
            .map(|b| (el_type(b.ty), b.nodes.clone(), (0..b.refs as isize).collect::<Vec<_>>()))
            .collect();
        return Ok(mesh_io::Mesh::from_raw_parts(space, coords(space, nn), vec![0; nn], topo));
    }
    if blocks.iter().any(|b| b.ty == 0 || b.refs > b.count()) {
        return Err("not expressible in MEDIT ASCII".into());
    }
    let c = coords(space, nn);
    let mut t = format!("MeshVersionFormatted 2\nDimension {}\n\nVertices\n{}\n", space, nn);
    for i in 0..nn {
        for k in 0..space {
            write!(t, "{} ", c[i * space + k]).unwrap();
        }
        writeln!(t, "{}", i % 3).unwrap();
    }
    for b in blocks {
        write!(t, "\n{}\n{}\n", MEDIT_NAME[b.ty], b.count()).unwrap();
        for (i, el) in b.nodes.chunks(NPE[b.ty]).enumerate() {
            for x in el {
                write!(t, "{} ", x + 1).unwrap();
            }
            if i < b.refs {
                writeln!(t, "{}", i % 4).unwrap();
            } else {
                writeln!(t).unwrap();
            }
        }
    }
    t.push_str("\nEnd\n");
    t.parse::<mesh_io::Mesh>().map_err(|e| format!("reader: {}", e))
}

struct Obs {
    rows: usize,
    cols: usize,
    indptr: Vec<usize>,
    indices: Vec<usize>,
    data_len: usize,
    data_all_one: bool,
}

fn observe(mesh: &mesh_io::Mesh, threads: usize) -> Caught<Obs> {
    catch(|| {
        with_pool(threads, || {
            let g = coupe_tools::dual(mesh);
            Obs {
                rows: g.rows(),
                cols: g.cols(),
                indptr: g.indptr().raw_storage().to_vec(),
                indices: g.indices().to_vec(),
                data_len: g.data().len(),
                data_all_one: g.data().iter().all(|&x| x == 1.0),
            }
        })
    })
}

// ------------------------------------------------------------------ oracle

/// The definition, pairwise: cells = elements of the highest dimension that are
/// not edges, in block order; `i ~ j` iff `i != j` and the node *sets* share at
/// least `d` nodes. Returns (d, cells).
fn definition(blocks: &[Blk]) -> Option<(usize, Vec<BTreeSet<usize>>, bool)> {
    let d = blocks.iter().map(|b| DIM[b.ty]).max()?;
    let mut cells = vec![];
    let mut degenerate = false;
    for b in blocks {
        if DIM[b.ty] == d && b.ty != 1 {
            for el in b.nodes.chunks(NPE[b.ty]) {
                let set: BTreeSet<usize> = el.iter().cloned().collect();
                if set.len() != el.len() {
                    degenerate = true;
                }
                cells.push(set);
            }
        }
    }
    Some((d, cells, degenerate))
}

/// The same definition in O(sum of degrees): shared nodes are counted through a
/// node -> cells index (stamp array), then compared with the threshold `d >= 1`.
fn reference_rows_fast(d: usize, cells: &[BTreeSet<usize>]) -> Vec<Vec<usize>> {
    let n = cells.len();
    let max_node = cells.iter().filter_map(|c| c.iter().next_back()).max().map(|&m| m + 1).unwrap_or(0);
    let mut n2c: Vec<Vec<u32>> = vec![Vec::new(); max_node];
    for (i, c) in cells.iter().enumerate() {
        for &x in c {
            n2c[x].push(i as u32);
        }
    }
    let mut cnt = vec![0u32; n];
    let mut touched: Vec<usize> = vec![];
    let mut rows = Vec::with_capacity(n);
    for (i, c) in cells.iter().enumerate() {
        touched.clear();
        for &x in c {
            for &j in &n2c[x] {
                let j = j as usize;
                if j != i {
                    if cnt[j] == 0 {
                        touched.push(j);
                    }
                    cnt[j] += 1;
                }
            }
        }
        let mut row: Vec<usize> = touched.iter().cloned().filter(|&j| cnt[j] as usize >= d).collect();
        row.sort_unstable();
        for &j in &touched {
            cnt[j] = 0;
        }
        rows.push(row);
    }
    rows
}

/// Structural claims: one failure signature or none. Claims that depend on the
/// shared-node count are returned separately (`semantic`), because degenerate
/// elements are outside the property (counted, not failed).
fn check(
    blocks: &[Blk],
    o: &Obs,
    bary: Option<usize>,
    used: usize,
) -> (Option<(&'static str, String)>, Option<(&'static str, String)>, bool, usize) {
    let (d, cells, degenerate) = match definition(blocks) {
        None => (usize::MAX, vec![], false),
        Some(x) => x,
    };
    let n = cells.len();
    let mut structural = None;
    let mut semantic = None;
    let fail = |slot: &mut Option<(&'static str, String)>, sig: &'static str, what: String| {
        if slot.is_none() {
            *slot = Some((sig, what));
        }
    };
    if o.rows != n || o.cols != n {
        fail(&mut structural, "dual-size", format!("shape {}x{} but {} cells", o.rows, o.cols, n));
    }
    let ptr_ok = o.indptr.len() == o.rows + 1
        && o.indptr[0] == 0
        && o.indptr.windows(2).all(|w| w[0] <= w[1])
        && *o.indptr.last().unwrap() == o.indices.len();
    if !ptr_ok {
        fail(&mut structural, "csr-malformed", format!("indptr {:?} / {} indices", o.indptr, o.indices.len()));
        return (structural, semantic, degenerate, d);
    }
    if o.data_len != o.indices.len() || !o.data_all_one {
        fail(&mut structural, "csr-data", "data is not all ones of the same length as indices".into());
    }
    let row = |i: usize| &o.indices[o.indptr[i]..o.indptr[i + 1]];
    for i in 0..o.rows {
        let r = row(i);
        if !r.windows(2).all(|w| w[0] < w[1]) {
            fail(&mut structural, "row-unsorted", format!("row {} = {:?}", i, r));
        }
        if r.contains(&i) {
            fail(&mut structural, "self-loop", format!("row {} = {:?}", i, r));
        }
        if r.iter().any(|&j| j >= o.rows) {
            fail(&mut structural, "index-range", format!("row {} = {:?}", i, r));
        }
    }
    if structural.is_none() && o.rows == n {
        let fast = if d >= 1 && d != usize::MAX { Some(reference_rows_fast(d, &cells)) } else { None };
        for i in 0..n {
            for &j in row(i) {
                if !row(j).contains(&i) {
                    fail(&mut semantic, "asymmetric", format!("{} in row {} but not conversely", j, i));
                }
            }
            if let Some(fast) = &fast {
                let want = &fast[i];
                if n <= 400 {
                    // small meshes: the literal O(n^2) definition, which also validates the fast form
                    let slow: Vec<usize> = (0..n)
                        .filter(|&j| j != i && cells[i].intersection(&cells[j]).count() >= d)
                        .collect();
                    if slow != *want {
                        fail(&mut structural, "oracle-internal", format!("row {}: {:?} vs {:?}", i, slow, want));
                    }
                }
                if want.as_slice() != row(i) {
                    fail(
                        &mut semantic,
                        "adjacency-mismatch",
                        format!("row {} = {:?}, definition gives {:?}", i, row(i), want),
                    );
                }
            }
        }
    }
    match bary {
        Some(b) if b == o.rows => {}
        Some(b) => fail(&mut structural, "centres-differ", format!("{} cell centres, {} graph vertices", b, o.rows)),
        None => fail(&mut structural, "centres-panic", "barycentres panicked although dual did not".into()),
    }
    if used != o.rows && d != 1 {
        fail(&mut structural, "used-count-differs", format!("used_element_count {} but {} graph vertices", used, o.rows));
    }
    (structural, semantic, degenerate, d)
}

fn fnv(h: &mut u64, xs: &[usize]) {
    for &x in xs {
        for b in (x as u64).to_le_bytes() {
            *h ^= b as u64;
            *h = h.wrapping_mul(0x0000_0100_0000_01B3);
        }
    }
}

pub fn run_op(ctx: &mut Ctx, op: &str) {
    if ctx.hang_limit_reached() {
        return;
    }
    if op.starts_with("dualgen") {
        let Some((threads, g)) = parse_gen(op) else {
            ctx.record(op.to_string(), "bad-op".into(), false);
            return;
        };
        let (nn, blocks) = gen_mesh(&g);
        let space = if g.kind == 3 { 3 } else { 2 };
        let mesh = match catch(|| build_mesh(false, space, nn, &blocks)) {
            Caught::Ok(Ok(m)) => m,
            _ => {
                ctx.record(op.to_string(), "unbuildable".into(), false);
                return;
            }
        };
        ctx.count(&format!("large:blocks:{}", match blocks.len() { 0..=9 => "<10", 10..=255 => "10-255", 256..=999 => "256-999", _ => ">=1000" }));
        execute(ctx, op, &mesh, nn, blocks, threads, space, true);
        return;
    }
    let Some((medit, threads, nn, blocks)) = parse_op(op) else {
        ctx.record(op.to_string(), "bad-op".into(), false);
        return;
    };
    let space = if blocks.iter().any(|b| DIM[b.ty] == 3) { 3 } else { 2 };
    let mut blocks = blocks;
    let mesh = match catch(|| build_mesh(medit, space, nn, &blocks)) {
        Caught::Ok(Ok(m)) => m,
        Caught::Ok(Err(e)) => {
            ctx.count("unbuildable");
            ctx.record(op.to_string(), format!("unbuildable {}", e), false);
            return;
        }
        Caught::Panic(m) => {
            ctx.count("build-panic");
            ctx.record(op.to_string(), format!("unbuildable: build panic {}", m), false);
            return;
        }
        Caught::Hang => unreachable!(),
    };
    // The op handed to the model describes the mesh that was actually built: the number of
    // references per block is read back from it (a reader that fills in missing references
    // turns the `refs < count` ops into ordinary well-formed ones).
    let mut op = op.to_string();
    if mesh.topology().len() == blocks.len() {
        let mut changed = false;
        for (b, (_, _, r)) in blocks.iter_mut().zip(mesh.topology()) {
            if b.refs != r.len() {
                b.refs = r.len();
                changed = true;
            }
        }
        if changed {
            ctx.count("refs-filled-by-reader");
            op = format_op(if medit { "medit" } else { "raw" }, threads, nn, &blocks);
        }
    }
    execute(ctx, op.as_str(), &mesh, nn, blocks, threads, space, false);
}

/// Run `dual` (and the two counts) on the built mesh, record the canonical line (`compact`: a
/// digest instead of the arrays) and evaluate the oracle.
#[allow(clippy::too_many_arguments)]
fn execute(
    ctx: &mut Ctx,
    op: &str,
    mesh: &mesh_io::Mesh,
    nn: usize,
    blocks: Vec<Blk>,
    threads: usize,
    space: usize,
    compact: bool,
) {
    let mesh = mesh;
    let wf = blocks.iter().all(|b| b.refs == b.count());
    let o = match observe(mesh, threads) {
        Caught::Ok(o) => o,
        Caught::Panic(m) => {
            // the only panic the model predicts: a node id that is not a node of the mesh
            let valid = blocks.iter().all(|b| b.nodes.iter().all(|&x| x < nn));
            ctx.count(if valid { "panic:valid-nodes" } else { "panic:node-out-of-range" });
            let idx = ctx.record(op.to_string(), format!("panic {}", m), false);
            if valid && wf {
                ctx.fail(idx, "panic", format!("{} [{}]", m, panic_sig(&m)));
            } else if valid {
                ctx.fail(idx, "medit-missing-refs", format!("panic {}", m));
            }
            return;
        }
        Caught::Hang => unreachable!(),
    };
    // the other pool sizes must give the same arrays (schedules)
    let mut pool_dep = None;
    let pools: &[usize] = if compact || !POOLS.contains(&threads) { &[1, 2, 3, 16] } else { &POOLS };
    for &t in pools {
        if t == threads {
            continue;
        }
        match observe(mesh, t) {
            Caught::Ok(o2) => {
                if o2.indptr != o.indptr || o2.indices != o.indices || o2.rows != o.rows {
                    pool_dep = Some(format!("pool {} and pool {} give different arrays", threads, t));
                }
            }
            _ => pool_dep = Some(format!("pool {} panics, pool {} does not", t, threads)),
        }
    }
    if compact || !POOLS.contains(&threads) {
        // reuse: the same pool serves this mesh, another one, and this mesh again
        ctx.count("reuse");
        let other = mesh_io::Mesh::from_raw_parts(
            2,
            coords(2, 4),
            vec![0; 4],
            vec![(mesh_io::ElementType::Triangle, vec![0, 1, 2, 1, 2, 3], vec![0, 0])],
        );
        let again = catch(|| {
            with_pool(threads, || {
                let a = coupe_tools::dual(mesh);
                let b = coupe_tools::dual(&other);
                let c = coupe_tools::dual(mesh);
                a.indptr().raw_storage() == c.indptr().raw_storage()
                    && a.indices() == c.indices()
                    && a.indices() == &o.indices[..]
                    && b.indices() == [1, 0]
            })
        });
        if !matches!(again, Caught::Ok(true)) {
            pool_dep = Some("the same pool gives different arrays on a second call".into());
        }
    }
    let bary = match catch(|| {
        if space == 3 {
            coupe_tools::barycentres::<3>(mesh).len()
        } else {
            coupe_tools::barycentres::<2>(mesh).len()
        }
    }) {
        Caught::Ok(n) => Some(n),
        _ => None,
    };
    let used = coupe_tools::used_element_count(mesh);
    let bary_s = bary.map(|n| n.to_string()).unwrap_or_else(|| "panic".into());
    let out = if compact {
        let mut h = 0xCBF2_9CE4_8422_2325u64;
        fnv(&mut h, &o.indptr);
        fnv(&mut h, &o.indices);
        format!("ok {} nnz {} h {:016x} | d{} | bary {} used {}", o.rows, o.indices.len(), h, o.data_len, bary_s, used)
    } else {
        format!(
            "ok {} | {} | {} | d{} | bary {} used {}",
            o.rows,
            join(&o.indptr),
            join(&o.indices),
            o.data_len,
            bary_s,
            used
        )
    };
    let (structural, semantic, degenerate, d) = check(&blocks, &o, bary, used);
    if d == 1 {
        ctx.count(if used != o.rows { "edges-only:used-count-differs" } else { "edges-only:counts-equal" });
    }
    if d == 0 {
        ctx.count("vertices-only");
    }
    ctx.count(if o.indices.is_empty() { "adjacency:none" } else { "adjacency:some" });
    let nontrivial = wf && !degenerate && o.rows >= 2 && !o.indices.is_empty() && d >= 2 && d != usize::MAX;
    let idx = ctx.record(op.to_string(), out, nontrivial);
    if !wf {
        // MEDIT element lines without a reference column: the reader builds a mesh outside
        // `Mesh::from_raw_parts`' invariant. The model still predicts the arrays; every claim of
        // the property that breaks is reported under one signature.
        ctx.count("nonwf");
        if let Some((sig, what)) = structural.or(semantic) {
            ctx.count(&format!("nonwf:{}", sig));
            ctx.fail(idx, "medit-missing-refs", format!("{}: {}", sig, what));
        }
        return;
    }
    if let Some(what) = pool_dep {
        ctx.fail(idx, "pool-dependent", what);
    }
    if let Some((sig, what)) = structural {
        ctx.fail(idx, sig, what);
    }
    if let Some((sig, what)) = semantic {
        if degenerate {
            ctx.count(&format!("degenerate:{}", sig));
        } else {
            ctx.fail(idx, sig, what);
        }
    } else if degenerate {
        ctx.count("degenerate:consistent");
    }
}
